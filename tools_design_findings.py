#!/usr/bin/env python3
"""Rewrites the findings table of DESIGN.md section 5 from known_findings.json (between the table header and the next blank line)."""
import json, os, re
here = os.path.dirname(os.path.abspath(__file__))
d = json.load(open(os.path.join(here, "known_findings.json")))["findings"]
rows = []
for f in d:
    if f["status"] == "fixed":
        rows.append("| %s | %s | fixed `%s` | %s |" % (f["property"], f["id"], f["commit"], f["what"].replace("|", "/")[:300]))
for f in d:
    if f["status"] == "open":
        rows.append("| %s | %s | **open** | %s |" % (f["property"], f["id"], f["what"].replace("|", "/")[:420]))
p = os.path.join(here, "DESIGN.md")
s = open(p).read()
hdr = "| property | finding id | status | what failed |\n|---|---|---|---|\n"
i = s.index(hdr) + len(hdr)
j = s.index("\n\n", i)
s = s[:i] + "\n".join(rows) + s[j:]
nfix = sum(f["status"] == "fixed" for f in d); nopen = sum(f["status"] == "open" for f in d)
s = re.sub(r"\(\d+ genuine defects repaired by `fix:` commits, \d+ recorded as open known findings\)", "(%d genuine defects repaired by `fix:` commits, %d recorded as open known findings)" % (nfix, nopen), s)
open(p, "w").write(s)
print("fixed %d open %d" % (nfix, nopen))
