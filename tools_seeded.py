#!/usr/bin/env python3
"""Confirm a seeded change (from an independent sub-agent) and run our checks against it.

usage: tools_seeded.py <ID> <name> <patch.diff> <demo.py> [--needs "..."] [--checks C01,C04] [--notests]

Steps (all in a scratch copy of /repo under /tmp, removed at the end):
  1. demo on the clean copy must exit 0
  2. apply the patch, rebuild; demo must exit non-zero
  3. the repository's own test-suite (BASELINE command) must still pass with the patch
  4. VERIF_REPO=<scratch> ./check <ID> quick  (then thorough, scaled, if quick misses)  -> caught by which sub-check
  5. write /verif/seeded/<name>/{patch.diff, demo.py, meta.json}
"""
import json
import os
import shutil
import subprocess
import sys
import time

VERIF = os.path.dirname(os.path.abspath(__file__))


def sh(cmd, cwd=None, env=None, timeout=None):
    p = subprocess.run(cmd, shell=True, cwd=cwd, env=env, stdout=subprocess.PIPE, stderr=subprocess.STDOUT, text=True, timeout=timeout)
    return p.returncode, p.stdout


def main():
    a = sys.argv[1:]
    pid, name, patch, demo = a[:4]
    needs = a[a.index("--needs") + 1] if "--needs" in a else ""
    checks = a[a.index("--checks") + 1].split(",") if "--checks" in a else [pid]
    notests = "--notests" in a
    scratch = "/tmp/cc_seed_%s" % name
    shutil.rmtree(scratch, ignore_errors=True)
    meta = {"property": pid, "name": name, "needs": needs, "ran": []}
    try:
        sh("rsync -a --exclude .git /repo/ %s/" % scratch)
        with open(os.path.join(scratch, "usewt.py"), "w") as f:
            f.write("import os, sys\nimport cherab\ncherab.__path__[:] = [os.path.join(os.path.dirname(os.path.abspath(__file__)), 'cherab')]\n"
                    "for k in [k for k in sys.modules if k.startswith('cherab.')]:\n    del sys.modules[k]\n")
        run_demo = ("PYTHONPATH=%s /venv/bin/python -c \"import usewt, runpy, sys; sys.argv = sys.argv[1:]; "
                    "runpy.run_path(sys.argv[0], run_name='__main__')\" %s" % (scratch, os.path.abspath(demo)))
        rc0, out0 = sh(run_demo, cwd=scratch, timeout=1800)
        meta["demo_clean_rc"] = rc0
        meta["ran"].append("demo on clean copy: rc=%d" % rc0)
        rc, out = sh("patch -p1 --no-backup-if-mismatch < %s" % os.path.abspath(patch), cwd=scratch)
        if rc != 0:
            print("PATCH DOES NOT APPLY:\n" + out)
            meta["error"] = "patch does not apply: " + out[-500:]
            return finish(meta, None, patch, demo)
        rc, out = sh("/venv/bin/python setup.py build_ext -j16 --inplace", cwd=scratch, timeout=3600)
        meta["build_rc"] = rc
        if rc != 0:
            print("BUILD FAILED:\n" + out[-2000:])
            meta["error"] = "build failed"
            return finish(meta, None, patch, demo)
        rc1, out1 = sh(run_demo, cwd=scratch, timeout=1800)
        meta["demo_patched_rc"] = rc1
        meta["demo_patched_tail"] = out1[-600:]
        meta["ran"].append("demo on patched copy: rc=%d" % rc1)
        print("demo: clean rc=%d, patched rc=%d" % (rc0, rc1))
        if not notests:
            t0 = time.time()
            # full suite; BLAS pinned to one thread (the caching tests solve thousands of tiny systems: ~5 s single-threaded,
            # half an hour with 16 BLAS threads fighting on a loaded machine) - results are identical
            meta["repo_tests_scope"] = "full suite (OMP_NUM_THREADS=1, pytest -n 8)"
            rc, out = sh("OMP_NUM_THREADS=1 OPENBLAS_NUM_THREADS=1 MKL_NUM_THREADS=1 PYTHONPATH=%s /venv/bin/python -m pytest -p usewt -q "
                         "-p no:cacheprovider --timeout=1800 -n 8 --continue-on-collection-errors 2>&1 | tail -15" % scratch,
                         cwd=scratch, timeout=7200)
            tail = out.strip().splitlines()[-1] if out.strip() else ""
            meta["repo_tests"] = tail
            meta["ran"].append("repository test-suite on patched copy (pytest -n 8): %s (%.0f s)" % (tail, time.time() - t0))
            print("repo tests:", tail)
        env = dict(os.environ, VERIF_REPO=scratch)
        results = {}
        for cid in checks:
            for tier, extra in (("quick", {}), ("thorough", {"VERIF_SCALE": "0.25"})):
                e = dict(env, **extra)
                t0 = time.time()
                rc, out = sh("./check %s %s" % (cid, tier), cwd=VERIF, env=e, timeout=7200)
                viol = [l for l in out.splitlines() if l.startswith("[violation]")]
                results["%s %s" % (cid, tier)] = {"rc": rc, "wall_s": round(time.time() - t0, 1), "violations": [v[:300] for v in viol[:4]]}
                meta["ran"].append("VERIF_REPO=<patched copy> %s./check %s %s -> rc=%d (%s)"
                                   % ("VERIF_SCALE=0.25 " if extra else "", cid, tier, rc, "; ".join(v.split(":")[0].replace("[violation] ", "") for v in viol[:4])))
                print("%s %s: rc=%d %s" % (cid, tier, rc, [v[:160] for v in viol[:3]]))
                if rc == 1:
                    break
                if rc == 2:
                    print(out[-1500:])
        meta["results"] = results
        meta["caught"] = any(r["rc"] == 1 for r in results.values())
        return finish(meta, scratch, patch, demo)
    finally:
        shutil.rmtree(scratch, ignore_errors=True)


def finish(meta, scratch, patch, demo):
    d = os.path.join(VERIF, "seeded", meta["name"])
    os.makedirs(d, exist_ok=True)
    old_path = os.path.join(d, "meta.json")
    if os.path.exists(old_path):          # a re-run (other checks, strengthened check) extends the record
        old = json.load(open(old_path))
        res = dict(old.get("results", {}))
        for k, v in meta.get("results", {}).items():
            res[k if k not in res else k + " (re-run)"] = v
        meta["results"] = res
        meta["ran"] = old.get("ran", []) + ["--- re-run ---"] + meta["ran"]
        for k in ("repo_tests", "repo_tests_scope"):
            if k not in meta and k in old:
                meta[k] = old[k]
        meta["caught"] = bool(meta.get("caught")) or bool(old.get("caught"))
    shutil.copy(patch, os.path.join(d, "patch.diff"))
    shutil.copy(demo, os.path.join(d, "demo.py"))
    with open(os.path.join(d, "meta.json"), "w") as f:
        json.dump(meta, f, indent=1)
    print("saved", d, "caught=%s" % meta.get("caught"))


if __name__ == "__main__":
    main()
