#!/usr/bin/env python3
"""Regenerates seeded/SUMMARY.md from seeded/*/meta.json."""
import glob, json, os
here = os.path.dirname(os.path.abspath(__file__))
rows = []
notes = json.load(open(os.path.join(here, "seeded", "notes.json"))) if os.path.exists(os.path.join(here, "seeded", "notes.json")) else {}
for f in sorted(glob.glob(os.path.join(here, "seeded", "*", "meta.json"))):
    m = json.load(open(f))
    res = m.get("results", {})
    caught_by = []
    for k, r in res.items():
        if r["rc"] == 1:
            caught_by += ["%s: %s" % (k, v.split(":")[0].replace("[violation] ", "")) for v in r["violations"][:2]]
    demo = "clean rc=%s, patched rc=%s" % (m.get("demo_clean_rc"), m.get("demo_patched_rc"))
    rows.append("| %s | %s | %s | %s | %s | %s |" % (m["name"], m["property"], (m.get("needs") or "")[:260].replace("|", "/").replace("\n", " "),
                                                demo, m.get("repo_tests", "n/a"), (("**caught** — " + "; ".join(caught_by)) if m.get("caught") else (("**not a violation of the property (quiet, as it should be)**" if notes.get(m["name"], {}).get("class") == "out-of-scope" else "**MISSED**") if "caught" in m else m.get("error", "?"))) + ((" — NOTE: " + notes[m["name"]]["note"]) if m["name"] in notes else "")))
with open(os.path.join(here, "seeded", "SUMMARY.md"), "w") as f:
    f.write("# Independently seeded changes and which check catches them\n\n"
            "| name | property | what it needs to manifest (author's notes, truncated) | demonstration | repository tests with the patch | our check |\n|---|---|---|---|---|---|\n")
    f.write("\n".join(rows) + "\n")

def rnd(n): return 9 if "-r9" in n else 8 if "-r8" in n else 7 if "-r7" in n else 6 if "-r6" in n else 5 if "-r5" in n else 4 if "-r4" in n else 3 if "-r3" in n else (2 if "-r2" in n else 1)
stats = {}
for f in sorted(glob.glob(os.path.join(here, "seeded", "*", "meta.json"))):
    m = json.load(open(f)); n = m["name"]
    c = notes.get(n, {}).get("class", "own")
    stats.setdefault(rnd(n), {}).setdefault(c, []).append(n)
with open(os.path.join(here, "seeded", "SUMMARY.md"), "a") as f:
    f.write("\n## Tally (class = how the change was caught the first time it was measured)\n\n")
    for r in sorted(stats):
        tot = sum(len(v) for v in stats[r].values())
        f.write("* round %d (%d changes): " % (r, tot) + "; ".join("%s: %d" % (k, len(v)) for k, v in sorted(stats[r].items())) + "\n")
    f.write("\n`own` = caught by the unchanged check of its own property at first measurement; `other-check` = not by its own check (a history bug seeded "
            "under a single-call property, or a front-end covered by another property's check) but by another registered check, unchanged; "
            "`other-check-after-strengthening` = by another check after a rule was added; `anticipated` = the author's description showed a "
            "generator gap and the check was widened BEFORE the first measurement (so these say nothing about unassisted detection); "
            "`missed-then-strengthened` = measured miss (quick and scaled thorough quiet), check extended, then caught; `out-of-scope` = the change "
            "does not violate the property as stated (judged here, with the reason in the note): the checks are quiet and stay so.\n")
print("%d seeded changes, %d caught" % (len(rows), sum("**caught**" in r for r in rows)))
print({r: {k: len(v) for k, v in s.items()} for r, s in stats.items()})
