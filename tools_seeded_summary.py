#!/usr/bin/env python3
"""Regenerates seeded/SUMMARY.md from seeded/*/meta.json."""
import glob, json, os
here = os.path.dirname(os.path.abspath(__file__))
rows = []
notes = json.load(open(os.path.join(here, "seeded", "notes.json"))) if os.path.exists(os.path.join(here, "seeded", "notes.json")) else {}
for f in sorted(glob.glob(os.path.join(here, "seeded", "*", "meta.json"))):
    m = json.load(open(f))
    res = m.get("results", {})
    caught_by = []
    for k, r in res.items():
        if r["rc"] == 1:
            caught_by += ["%s: %s" % (k, v.split(":")[0].replace("[violation] ", "")) for v in r["violations"][:2]]
    demo = "clean rc=%s, patched rc=%s" % (m.get("demo_clean_rc"), m.get("demo_patched_rc"))
    rows.append("| %s | %s | %s | %s | %s | %s |" % (m["name"], m["property"], (m.get("needs") or "")[:260].replace("|", "/").replace("\n", " "),
                                                demo, m.get("repo_tests", "n/a"), (("**caught** — " + "; ".join(caught_by)) if m.get("caught") else ("**MISSED**" if "caught" in m else m.get("error", "?"))) + ((" — NOTE: " + notes[m["name"]]) if m["name"] in notes else "")))
with open(os.path.join(here, "seeded", "SUMMARY.md"), "w") as f:
    f.write("# Independently seeded changes and which check catches them\n\n"
            "| name | property | what it needs to manifest (author's notes, truncated) | demonstration | repository tests with the patch | our check |\n|---|---|---|---|---|---|\n")
    f.write("\n".join(rows) + "\n")
print("%d seeded changes, %d caught" % (len(rows), sum("**caught**" in r for r in rows)))
