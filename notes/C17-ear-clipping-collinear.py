"""C17: AxisymmetricVoxel(vertices) raises for some starting vertices of a valid simple polygon, works for the others.

The outline is a 12-vertex comb (three teeth), rotated by ~0.63 rad: a simple polygon, no repeated vertices, no three
consecutive vertices collinear - but tooth tips / valleys lie (to rounding) on common lines.  The constructor calls
raysect.core.math.triangulate2d (first-ear clipping, closed-triangle blocking test in floating point).  Started at
vertex 2 it reaches the remainder [6, 7, 10, 11] in which 6, 7, 10 are exactly collinear: vertex 7 is not strictly convex
and the other three candidate ears are 'blocked' by a vertex lying on their boundary -> RuntimeError "no ear".  So area,
centroid and volume are available for 22 of the 24 vertex orders of the same cross-section and not for 2 of them.
Root cause is in the dependency (raysect/core/math/polygon.pyx:_locate_ear); cherab passes the exception on.
Run: /venv/bin/python notes/C17-ear-clipping-collinear.py
"""
from cherab.tools.inversions import AxisymmetricVoxel

VERTS = [(0.0005827709641779009, 0.05270587862510671), (0.0009943588487338788, 0.053003020135978254),
         (0.0006058448726152782, 0.05397474868665088), (0.0010174327571712562, 0.054271890197522425),
         (0.0014059467332898567, 0.05330016164684981), (0.0018175346178458348, 0.053597303157721356),
         (0.001429020641727234, 0.05456903170839397), (0.001840608526283212, 0.05486617321926552),
         (0.0022291225024018125, 0.0538944446685929), (0.0026407103869577906, 0.05419158617946445),
         (0.0020579394227798896, 0.05564917900547338), (0.0, 0.054163471451115636)]
failed = []
for reverse in (False, True):
    for k in range(len(VERTS)):
        order = VERTS[k:] + VERTS[:k]
        order = order[::-1] if reverse else order
        try:
            area = AxisymmetricVoxel(order).cross_sectional_area
        except RuntimeError as e:
            failed.append((k, reverse, str(e)[:60]))
print("area (orders that work): %r" % area)
print("WRONG: %d of %d vertex orders raise: %r" % (len(failed), 2 * len(VERTS), failed) if failed else "ok")
