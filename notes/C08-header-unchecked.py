"""C08-header-unchecked: parse_adf21 / parse_adf22bmp / parse_adf22bme / parse_adf15 / parse_adf12 never compare the species
written in the file header (adf21/22 'ZT= 6 ... SPEC=C', adf15 '/C + 1 PHOTON EMISSIVITY COEFFICIENTS/', adf12 block header) with the
element / charge they are asked for: a carbon file requested as neon is returned (and installed) under the neon key.
Only parse_adf11 rejects such a file (ValueError).                                  /venv/bin/python notes/C08-header-unchecked.py"""
import atexit, os, shutil, tempfile
home = os.environ["HOME"] = tempfile.mkdtemp()
atexit.register(shutil.rmtree, home, True)
from cherab.core.atomic import hydrogen, neon
from cherab.openadas.parse import parse_adf21, parse_adf15

d = "-" * 80
adf21 = ["ZT= 6  SVREF=5.726E-08  SPEC=C   DATE=18/09/97  CODE=ADAS310", d, "    2    2  TREF=2.000E+03", d,
         " 5.000E+03 1.000E+04", " 1.000E+12 1.000E+13", d, " 5.000E-08 6.000E-08", " 7.000E-08 8.000E-08", d,
         "    2  EREF=6.500E+04  DREF=6.000E+13", d, " 1.000E+02 1.000E+03", d, " 5.500E-08 5.900E-08", "C" + "-" * 79]
adf15 = ["    1    /C + 1 PHOTON EMISSIVITY COEFFICIENTS/",
         "  6562.8 A    1    1 /FILMEM = pju#c1  /TYPE = EXCIT  /INDM = T/ISEL  =    1", " 1.00E+13", " 1.00E+01", " 1.00E-10",
         "C" + "-" * 71, "C  ISEL  WAVELENGTH      TRANSITION       TYPE", "C     1.     6562.8     N= 3 - N= 2        EXCIT", "C" + "-" * 71]
p21, p15 = os.path.join(home, "bms97#h_c6.dat"), os.path.join(home, "pec96#c_pju#c1.dat")
open(p21, "w").write("\n".join(adf21) + "\n")
open(p15, "w").write("\n".join(adf15) + "\n")
for what, call in (("adf21 file of C6+ (SPEC=C, ZT= 6) requested as neon 10+", lambda: parse_adf21(hydrogen, neon, 10, p21)[hydrogen]),
                   ("adf15 file of C1+ ('/C + 1') requested as neon 3+", lambda: parse_adf15(neon, 3, p15, header_format="hydrogen")[0]["excitation"])):
    try:
        r = call()
        print("DEFECT: %s is accepted: %r" % (what, {k: list(v.keys()) for k, v in r.items()}))
    except Exception as e:
        print("ok: %s rejected with %s" % (what, type(e).__name__))
