"""C18: LaserSpectrum.get_max_wavelenth() returns the *minimum* wavelength
(cherab/core/laser/laserspectrum.pyx:142-143 `return self._min_wavelength`)."""
from cherab.core.model.laser import ConstantSpectrum, GaussianSpectrum

for s in (ConstantSpectrum(1000.0, 1010.0, 10), GaussianSpectrum(1030.0, 1050.0, 10, 1040.0, 2.0)):
    print(type(s).__name__, "max_wavelength =", s.max_wavelength, " get_max_wavelenth() =", s.get_max_wavelenth(),
          " get_min_wavelenth() =", s.get_min_wavelenth())
    print("DEFECT" if s.get_max_wavelenth() != s.max_wavelength else "ok")
