"""C10 observation (NOT registered as a finding: the cause is in raysect, /repo only exposes it).
A ray tangent (within ~1e-9 m) to the inner bounding cylinder of RayTransferCylinder loses half of its chord, and
RayTransferCylinder subtracts such a cylinder (radius 1e-5*dr) even for radius_inner = 0, where it is not needed.
Second raysect corner: Cylinder.hit misses the cylinder when the square of a direction component underflows.
Run: /venv/bin/python /verif/notes/C10-raysect-tangent-inner-cylinder.py"""
import numpy as np
from raysect.optical import World, Ray, Point3D, Vector3D
from raysect.optical.material import UnityVolumeEmitter
from raysect.primitive import Cylinder, Subtract
from cherab.tools.raytransfer import RayTransferCylinder

for r_in, dr in ((0.0, 0.1), (0.5, 0.1)):
    for off in (1e-7, 1e-9, 0.0):
        world = World()
        rtc = RayTransferCylinder(r_in + dr, 2.0, 1, 2, radius_inner=r_in, parent=world)
        d = r_in + 1e-5 * dr + off                       # distance of the ray from the axis; hole radius = r_in + 1e-5 dr
        row = Ray(Point3D(-5, d, 0.7), Vector3D(1, 0, 0), bins=rtc.bins).trace(world).samples
        exact = 2 * np.sqrt((r_in + dr - 1e-5 * dr) ** 2 - d ** 2)
        print("radius_inner=%g  ray %g m outside the hole: sum(row)=%.9f  exact chord=%.9f%s"
              % (r_in, off, row.sum(), exact, "   <-- half lost" if row.sum() < 0.6 * exact else ""))

print("pure raysect, Subtract(Cylinder(1,2), Cylinder(0.5,2)) with a unit emitter, ray tangent to the inner cylinder:")
world = World()
Subtract(Cylinder(1.0, 2.0), Cylinder(0.5, 2.0), material=UnityVolumeEmitter(), parent=world)
print("  ", Ray(Point3D(-5, 0.5, 1.0), Vector3D(1, 0, 0), bins=1).trace(world).samples[0], "expected", 2 * np.sqrt(0.75))
print("pure raysect, Cylinder(7,2), ray Vector3D(0, dy, 1) from (2.5, 0, -5):")
for dy in (0.0, 1e-100, 1e-200):
    world = World()
    Cylinder(7, 2, material=UnityVolumeEmitter(), parent=world)
    print("   dy=%g -> %r (expected 2.0)" % (dy, Ray(Point3D(2.5, 0, -5), Vector3D(0, dy, 1), bins=1).trace(world).samples[0]))
