"""C08-adf15-chexc-default-repo: install_adf15(..., repository_path=X) writes the thermal charge-exchange (TYPE = CHEXC) PECs
with update_pec_thermal_cx_rates(rates) - no repository_path - so they land in ~/.cherab/openadas/repository instead of X
and get_pec_thermal_cx_rate(..., repository_path=X) cannot find them.            /venv/bin/python notes/C08-...py"""
import atexit, os, shutil, tempfile
home = os.environ["HOME"] = tempfile.mkdtemp()          # before the import: the default path is computed at import time
atexit.register(shutil.rmtree, home, True)
from cherab.core.atomic import hydrogen
from cherab.openadas.install import install_adf15
from cherab.openadas import repository

text = """    1    /H + 0 PHOTON EMISSIVITY COEFFICIENTS/
  6562.8 A    2    2 /FILMEM = pju#h0  /TYPE = CHEXC  /INDM = T/ISEL  =    1
 1.00E+13 1.00E+14
 1.00E+00 1.00E+01
 1.00E-10 2.00E-10
 3.00E-10 4.00E-10
C-----------------------------------------------------------------------
C  ISEL  WAVELENGTH      TRANSITION       TYPE
C  ----  ----------  ----------------     -----
C     1.     6562.8     N= 3 - N= 2        CHEXC
C-----------------------------------------------------------------------
"""
adas, repo = os.path.join(home, "adas"), os.path.join(home, "my_repo"); os.makedirs(os.path.join(adas, "adf15"))
open(os.path.join(adas, "adf15", "pec#h0.dat"), "w").write(text)
install_adf15(hydrogen, 0, "adf15/pec#h0.dat", repository_path=repo, adas_path=adas)
print("written under ~/.cherab:", os.path.exists(os.path.join(home, ".cherab/openadas/repository/pec/thermal_cx/h/0/h/1.json")))
try:
    print(repository.get_pec_thermal_cx_rate(hydrogen, 0, hydrogen, 1, (3, 2), repo)["rate"].shape, "ok")
except RuntimeError as e:
    print("DEFECT: not in the repository that was passed:", e)
