"""C08-adf11-negative-line4: parse_adf11 takes an unresolved ADF11 file for a resolved one when its 4th line starts with a
negative number, i.e. <= 8 densities (one density line) and first log10(Te) < 0 (Te < 1 eV): the density line and the first
temperature line are skipped and 'ne'/'te' are filled from later temperatures, silently.   /venv/bin/python notes/C08-...py"""
import atexit, os, shutil, tempfile
os.environ["HOME"] = tempfile.mkdtemp()
atexit.register(shutil.rmtree, os.environ["HOME"], True)
import numpy as np
from cherab.core.atomic import hydrogen
from cherab.openadas.parse import parse_adf11

dens = [8.0, 9.0, 10.0]                                                   # log10(ne / cm^-3): 3 densities -> one line
temp = [-0.69897, -0.30103, 0.0, 0.30103, 0.69897, 1.0, 1.30103, 1.69897, 2.0, 2.30103, 2.69897, 3.0]   # 12 log10(Te / eV), first < 0
f10 = lambda v: "".join("%10.5f" % x for x in v)
lines = ["    1    3   12    1    1     /HYDROGEN           /GCR PROJECT", "-" * 80, f10(dens), f10(temp[:8]), f10(temp[8:]),
         "-" * 20 + "/ IPRT= 1  / IGRD= 1  /--------/ Z1= 1   / DATE= 09/09/99"]
lines += [f10([-8.0 - 0.1 * it - 0.01 * i for i in range(3)]) for it in range(12)]
lines += ["C" + "-" * 79, "C  synthetic file", "C" + "-" * 79]
path = os.path.join(os.environ["HOME"], "scd_h.dat")
open(path, "w").write("\n".join(lines) + "\n")
r = parse_adf11(hydrogen, path)[hydrogen][1]
print("file    ne:", dens, "\nparsed  ne:", r["ne"].tolist())
print("file    te:", temp, "\nparsed  te:", r["te"].tolist())
print("DEFECT" if not (np.array_equal(r["ne"], dens) and np.array_equal(r["te"], temp)) else "ok")
# the same file with first log10(Te) = +0.00001, or with 9 densities, parses correctly.
