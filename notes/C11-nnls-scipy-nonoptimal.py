"""C11: invert_regularised_nnls returns a point that is not a minimiser, and a residual norm that does not belong to it.

One detector, five cells, cells 0 and 1 are seen by no ray; identity Tikhonov matrix, alpha = 1.  The minimiser of
|Wx-b|^2 + |x|^2 over x >= 0 is x = (0, 0, 15/14, 15/14, 15/14).  Root cause: scipy.optimize.nnls (1.17.1, C port of
Lawson-Hanson) mishandles the degenerate dual (x_j = 0 and gradient_j = 0) of the pure-penalty columns; the wrapper
hands the result through unchecked.  Run: /venv/bin/python /verif/notes/C11-nnls-scipy-nonoptimal.py
"""
import numpy as np
import scipy
from cherab.tools.inversions import invert_regularised_nnls

W = np.array([[0.0, 0.0, 0.5, 0.5, 0.5]])
b = np.array([3.75])
x, rnorm = invert_regularised_nnls(W, b, alpha=1.0)

C = np.vstack([W, np.identity(5)])
d = np.concatenate([b, np.zeros(5)])
g = C.T @ (C @ x - d)
xopt = np.array([0, 0, 15 / 14, 15 / 14, 15 / 14])
print("scipy", scipy.__version__)
print("returned x          :", x)
print("true minimiser      :", xopt)
print("gradient at x       :", g, " (must vanish wherever x_i > 0)")
print("objective |Cx-d|    : returned point %.6f, true minimum %.6f" % (np.linalg.norm(C @ x - d), np.linalg.norm(C @ xopt - d)))
print("reported rnorm      : %.6f  (smaller than the true minimum: impossible for any x)" % rnorm)
wrong = abs(g[1] * x[1]) > 1e-9 or abs(rnorm - np.linalg.norm(C @ x - d)) > 1e-9
print("DEFECT PRESENT" if wrong else "ok")
