"""C15: BolometerCamera accepts BolometerIRVB members (add_foil_detector / foil_detectors, documented), but
BolometerCamera.observe() reads `pipelines[0].value.mean` of every member - a BolometerIRVB carries a 2-D pipeline
(PowerPipeline2D / RadiancePipeline2D) that has `.frame`, not `.value`: observe() raises AttributeError at the first IRVB,
the members behind it are never observed and nothing is returned.
Run: /venv/bin/python /verif/notes/C15-camera-observe-irvb.py"""
from raysect.core import Point3D, Vector3D, translate
from raysect.core.workflow import SerialEngine
from raysect.optical import World
from cherab.tools.observers import BolometerCamera, BolometerSlit, BolometerFoil, BolometerIRVB

camera = BolometerCamera(parent=World(), name="camera")
slit = BolometerSlit("slit", Point3D(0, 0, 0), Vector3D(1, 0, 0), 0.0025, Vector3D(0, 1, 0), 0.005, parent=camera)
irvb = BolometerIRVB("irvb", 0.02, (2, 1), slit, translate(0, 0, -0.05))
foil = BolometerFoil("foil", Point3D(0, 0, -0.08), Vector3D(1, 0, 0), 0.0025, Vector3D(0, 1, 0), 0.005, slit)
for det in (irvb, foil):
    det.pixel_samples, det.render_engine = 10, SerialEngine()
irvb.pipelines[0].display_progress = False
camera.add_foil_detector(irvb)       # accepted: "param (BolometerFoil, BolometerIRVB) foil_detector"
camera.add_foil_detector(foil)
try:
    print("camera.observe() ->", camera.observe())
except AttributeError as e:
    print("camera.observe() raises AttributeError:", e)
print("IRVB observed:", irvb.pipelines[0].frame is not None, "| foil behind it observed:", foil.pipelines[0].value.samples > 0)
