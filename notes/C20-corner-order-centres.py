"""C20: generate_derivative_operators takes dx, dy as the smallest NON-ZERO difference of consecutive cell centres
(`dx[dx != 0]`, admt_utils.py:95-100) where the centres are np.mean of the 4 corners.  If two voxels of one column list
their (identical-x) corners in a different order, the two means differ in the last bit, the 'zero' spacing becomes ~2e-16,
is taken for dx, and every operator is scaled by ~1e15.  The docstring only asks for 'the vertices of each voxel'.
Run: /venv/bin/python /verif/notes/C20-corner-order-centres.py"""
import numpy as np
from cherab.tools.inversions.admt_utils import generate_derivative_operators

nx, ny, dx, dy = 3, 3, 0.7, 0.7
cells = [(ix, iy) for ix in range(nx) for iy in range(ny)]
m12 = dict(enumerate(cells)); m21 = {c: i for i, c in m12.items()}
def corners(ix, iy, order):
    x, y = 1.05 + ix * dx, 0.2 - iy * dy
    c = [(x + dx / 2, y + dy / 2), (x + dx / 2, y - dy / 2), (x - dx / 2, y - dy / 2), (x - dx / 2, y + dy / 2)]
    return [c[k] for k in order]
same = np.array([corners(ix, iy, [0, 1, 2, 3]) for ix, iy in cells])
mixed = np.array([corners(ix, iy, [0, 1, 2, 3] if (ix + iy) % 2 else [2, 3, 0, 1]) for ix, iy in cells])
a = generate_derivative_operators(same, m12, m21)["Dx"]
b = generate_derivative_operators(mixed, m12, m21)["Dx"]
print("same geometry, centres differ by", np.abs(same.mean(axis=1) - mixed.mean(axis=1)).max())
print("max|Dx| with one corner order for all voxels :", np.abs(a).max(), "(expected 1/dx = 1.43)")
print("max|Dx| with per-voxel corner orders          :", np.abs(b).max())
