"""C10 finding C10-axis-hole-zero-row.  RayTransferCylinder(radius_inner=0) still subtracts an inner bounding cylinder
of radius 1e-5*dr around the axis.  Seen from a distance D with D^2 * 2^-53 >~ (1e-5 dr)^2 (dr = 5 mm at 10 m, 1 mm
at 3 m) raysect's ray/cylinder quadratic cannot resolve that radius: a ray through the axis gets a degenerate tangent
hit ON the axis, the surface normal (x, y, 0) cannot be normalised, the ZeroDivisionError is swallowed inside the
kd-tree traversal and the whole object is missed: the matrix row is all zero although the chord is a full diameter.
Run: /venv/bin/python /verif/notes/C10-axis-hole-zero-row.py   (prints 'Exception ignored ... ZeroDivisionError' too)"""
from raysect.optical import World, Ray, Point3D, Vector3D
from cherab.tools.raytransfer import RayTransferCylinder

for n_radius, dist in ((100, 10.0), (200, 10.0), (400, 5.0), (1000, 3.0)):
    world = World()
    rtc = RayTransferCylinder(radius_outer=1.0, height=1.0, n_radius=n_radius, n_height=10, parent=world)   # radius_inner = 0
    for origin, direction in (((dist, 0, 0.5), (-1, 0, 0)), ((0.6 * dist, 0.8 * dist, 0.5), (-0.6, -0.8, 0))):
        row = Ray(Point3D(*origin), Vector3D(*direction), bins=rtc.bins).trace(world).samples
        print("dr = %-6g ray from %-22s through the axis: sum(row) = %-8.6g (chord inside the grid = 2.0)%s"
              % (1.0 / n_radius, origin, row.sum(), "   <-- row lost" if row.sum() < 1.0 else ""))
