"""C16-czerny-no-pipeline-classes: CzernyTurnerSpectrometer cannot report its pipeline settings.

CzernyTurnerSpectrometer.__init__ (cherab/tools/spectroscopy/spectrometer.py) assigns its parameters through the
setters but never calls an initialiser of its bases, so SpectroscopicInstrument.__init__ never runs and the attribute
_pipeline_classes is never created.  pipeline_classes and create_pipelines() (the call shown in the class's own
docstring example) raise AttributeError, whereas the Spectrometer it derives from returns
[SpectralRadiancePipeline0D] / one pipeline named after the instrument.

Run: /venv/bin/python /verif/notes/C16-czerny-no-pipeline-classes.py
"""
from cherab.tools.spectroscopy import CzernyTurnerSpectrometer, Spectrometer

ct = CzernyTurnerSpectrometer(1, 2.e-3, 1.e9, 2.e4, 10., ((600., 512), (700., 128)), name='MySpectrometer')
ref = Spectrometer(ct.wavelength_to_pixel, name='MySpectrometer')      # same pixels, built through the base class
print("Spectrometer            pipeline_classes:", ref.pipeline_classes, " pipelines:", [p.name for p in ref.create_pipelines()])
print("CzernyTurner            pipeline_kwargs :", ct.pipeline_kwargs, "(works: the name setter creates _pipeline_kwargs)")
bad = 0
for what, fn in (("pipeline_classes", lambda: ct.pipeline_classes), ("create_pipelines()", ct.create_pipelines)):
    try:
        print("CzernyTurner            %s: %r" % (what, fn()))
    except AttributeError as e:
        bad += 1
        print("CzernyTurner            %s: WRONG - raises AttributeError: %s" % (what, e))
print("DEFECT PRESENT" if bad else "defect not present (fixed)")
