"""C18: ConstantBivariateGaussian.pulse_energy setter does not rebuild the energy-density function
(cherab/core/model/laser/profile.pyx:245-251 calls self.notifier.notify() where every other setter calls
self._function_changed()); the profile keeps the density of the old pulse energy."""
from scipy.constants import c
from math import pi
from cherab.core.model.laser import ConstantBivariateGaussian

kw = dict(pulse_length=1e-8, stddev_x=0.01, stddev_y=0.02)
p = ConstantBivariateGaussian(pulse_energy=1.0, **kw)
p.pulse_energy = 5.0
fresh = ConstantBivariateGaussian(pulse_energy=5.0, **kw)
got, want = p.get_energy_density(0, 0, 0.5), fresh.get_energy_density(0, 0, 0.5)
print("pulse_energy reported:", p.pulse_energy)
print("axis energy density after setter: %.6g   fresh object: %.6g   closed form: %.6g" % (got, want, 5.0 / (c * 1e-8) / (2 * pi * 0.01 * 0.02)))
print("DEFECT" if abs(got - want) > 1e-9 * want else "ok")
p.pulse_length = 1e-8   # any other setter rebuilds it
print("after re-assigning pulse_length: %.6g" % p.get_energy_density(0, 0, 0.5))
