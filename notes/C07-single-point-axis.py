"""C07-single-point-axis: which rate classes cannot be built from a table with a single-point axis (raysect splines need 2 knots)."""
import numpy as np
from cherab.core.atomic import elements
from cherab.openadas.rates import *
g = lambda n, lo: lo * 10.0 ** np.arange(n)
def attempt(label, make):
    try:
        make(); print("%-44s ok" % label)
    except ValueError as e:
        print("%-44s FAILS: %s" % (label, str(e)[:60]))
two = [("IonisationRate", lambda d: IonisationRate(d)), ("RecombinationRate", lambda d: RecombinationRate(d)), ("ThermalCXRate", lambda d: ThermalCXRate(d)),
       ("LineRadiationPower", lambda d: LineRadiationPower(elements.carbon, 1, d)), ("ContinuumPower", lambda d: ContinuumPower(elements.carbon, 1, d)),
       ("CXRadiationPower", lambda d: CXRadiationPower(elements.carbon, 1, d)), ("ImpactExcitationPEC", lambda d: ImpactExcitationPEC(500., d)),
       ("RecombinationPEC", lambda d: RecombinationPEC(500., d))]
for name, mk in two:
    for ax, shp in (("ne", (1, 3)), ("te", (3, 1))):
        attempt("%s single %s" % (name, ax), lambda: mk({"ne": g(shp[0], 1e18), "te": g(shp[1], 1.), "rate": np.full(shp, 1e-15)}))
for ax, shp in (("ne", (1, 2, 2)), ("te", (2, 1, 2)), ("td", (2, 2, 1))):
    attempt("ThermalCXPEC single %s" % ax, lambda: ThermalCXPEC(500., {"ne": g(shp[0], 1e18), "te": g(shp[1], 1.), "td": g(shp[2], 1.), "rate": np.full(shp, 1e-15)}))
for name, mk in (("BeamStoppingRate", lambda d: BeamStoppingRate(d)), ("BeamPopulationRate", lambda d: BeamPopulationRate(d)), ("BeamEmissionPEC", lambda d: BeamEmissionPEC(d, 500.))):
    for ax, shp in (("e", (1, 2, 2)), ("n", (2, 1, 2)), ("t", (2, 2, 1))):
        attempt("%s single %s" % (name, ax), lambda: mk({"e": g(shp[0], 1e3), "n": g(shp[1], 1e18), "t": g(shp[2], 1.), "sen": np.full(shp[:2], 1e-15),
                                                        "st": np.full(shp[2], 1e-15), "sref": 1e-15}))
for k, ax in enumerate(("eb", "ti", "ni", "z", "b")):
    n = [2] * 5; n[k] = 1
    d = {"qref": 1e-15}
    for (x, q), m in zip((("eb", "qeb"), ("ti", "qti"), ("ni", "qni"), ("z", "qz"), ("b", "qb")), n):
        d[x] = g(m, 1.); d[q] = np.full(m, 1e-15)
    attempt("BeamCXPEC single %s" % ax, lambda: BeamCXPEC(1, 500., d))
