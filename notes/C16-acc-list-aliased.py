"""C16-acc-list-aliased: CzernyTurnerSpectrometer keeps the caller's accommodated_spectra list instead of a copy.

The accommodated_spectra setter (cherab/tools/spectroscopy/spectrometer.py) stores the object it is given. If the caller
re-uses / edits that list afterwards (no setter is called, no parameter of the instrument is changed), the instrument
first reports parameters that contradict its pixel arrays, and the next unrelated setter (grating, name-independent
ones) silently rebuilds the pixel arrays from the edited list: the settings are no longer those of an instrument
constructed with the parameters that were set.  (Spectrometer.wavelength_to_pixel copies its arrays and is immune.)

Run: /venv/bin/python /verif/notes/C16-acc-list-aliased.py
"""
from cherab.tools.spectroscopy import CzernyTurnerSpectrometer

layout = [[400., 64], [500., 32]]
ct = CzernyTurnerSpectrometer(1, 2.e-3, 1.e9, 2.e4, 10., layout, name='ct')
ref = CzernyTurnerSpectrometer(1, 2.e-3, 1.e9, 2.e4, 10., ((400., 64), (500., 32)), name='ct')
layout[1][1] = 8                       # the caller re-uses its list for something else
layout.append([600., 16])
print("accommodated_spectra reported:", ct.accommodated_spectra, " pixel arrays:", [len(w) - 1 for w in ct.wavelength_to_pixel])
ct.grating = 2.e-3                     # same value as before: nothing should change
ref.grating = 2.e-3
print("after grating = 2e-3 : max_wavelength %.6f bins %d arrays %s" % (ct.max_wavelength, ct.spectral_bins, [len(w) - 1 for w in ct.wavelength_to_pixel]))
print("instrument built with the parameters that were set: max_wavelength %.6f bins %d arrays %s"
      % (ref.max_wavelength, ref.spectral_bins, [len(w) - 1 for w in ref.wavelength_to_pixel]))
print("DEFECT PRESENT" if ct.max_wavelength != ref.max_wavelength else "defect not present (fixed)")
