"""C07-recombination-pec-null: OpenADAS(missing_rates_return_null=True).recombination_pec() never returns a null rate.
openadas.py:378 catches (FileNotFoundError, KeyError) but repository.get_pec_recombination_rate raises RuntimeError."""
import os, shutil, tempfile
home = tempfile.mkdtemp(); os.environ["HOME"] = home          # keep away from the real ~/.cherab
from cherab.core.atomic import elements
from cherab.openadas import OpenADAS
repo = tempfile.mkdtemp()
try:
    ad = OpenADAS(data_path=repo, missing_rates_return_null=True)
    print("impact_excitation_pec (same situation):", ad.impact_excitation_pec(elements.hydrogen, 0, (3, 2))(1e19, 10.0))
    try:
        r = ad.recombination_pec(elements.hydrogen, 1, (3, 2))
        print("recombination_pec returned", r, r(1e19, 10.0), "-> OK")
    except RuntimeError as e:
        print("WRONG: null rates requested but recombination_pec raised RuntimeError:", e)
finally:
    shutil.rmtree(repo, ignore_errors=True); shutil.rmtree(home, ignore_errors=True)
