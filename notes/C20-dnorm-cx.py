"""C20: calculate_admt with anisotropy=1 must be (Dxx + Dyy + diag(1/R) Dx) * sqrt(dx*dy) for ANY flux map
(D = identity => div(D grad f) is the cylindrical Laplacian).  It is not, as soon as psi depends on y:
admt_utils.py:323 `dnorm_term_cx` uses dpsidy*dpsidyy where d/dx |grad psi|^2 needs dpsidy*dpsidxdy.
Run: /venv/bin/python /verif/notes/C20-dnorm-cx.py"""
import numpy as np
from cherab.tools.inversions.admt_utils import generate_derivative_operators, calculate_admt

nx, ny, dx, dy, x0, ytop = 5, 5, 0.1, 0.1, 1.05, 0.2
cells = [(ix, iy) for ix in range(nx) for iy in range(ny)]          # column-major, top to bottom (as documented)
xc = np.array([x0 + ix * dx for ix, iy in cells])
yc = np.array([ytop - iy * dy for ix, iy in cells])
verts = [[(x + dx / 2, y + dy / 2), (x + dx / 2, y - dy / 2), (x - dx / 2, y - dy / 2), (x - dx / 2, y + dy / 2)]
         for x, y in zip(xc, yc)]
m12 = dict(enumerate(cells))
m21 = {c: i for i, c in m12.items()}
ops = generate_derivative_operators(verts, m12, m21)
psi = (xc - 0.5) ** 2 + (yc + 0.3) ** 2                              # circular flux surfaces, axis outside the grid
admt = calculate_admt(xc, ops, psi, dx, dy, anisotropy=1)
ref = (ops["Dxx"] + ops["Dyy"] + ops["Dx"] / xc[:, None]) * np.sqrt(dx * dy)
interior = [i for i, (ix, iy) in m12.items() if 0 < ix < nx - 1 and 0 < iy < ny - 1]
err = np.abs(admt - ref)
print("operator inf-norm                         : %.4g" % np.abs(ref).sum(axis=1).max())
print("max |admt - laplacian|, all rows          : %.4g" % err.max())
print("max |admt - laplacian|, interior rows     : %.4g" % err[interior].max())
f = np.sin(3 * xc) * np.cos(2 * yc)
print("interior (admt@f)/(laplacian@f) - 1       :", np.round((admt @ f)[interior] / (ref @ f)[interior] - 1, 3))
print("same with a y-independent map psi = x^2   : %.3g" % np.abs(calculate_admt(xc, ops, xc ** 2, dx, dy, anisotropy=1) - ref).max())
