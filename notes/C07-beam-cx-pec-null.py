"""C07-beam-cx-pec-null: OpenADAS(missing_rates_return_null=True).beam_cx_pec() raises TypeError when data are missing.
openadas.py:199 builds NullBeamCXPEC() but the base class BeamCXPEC.__init__ requires donor_metastable."""
import os, shutil, tempfile
home = tempfile.mkdtemp(); os.environ["HOME"] = home
from cherab.core.atomic import elements
from cherab.openadas import OpenADAS
repo = tempfile.mkdtemp()
try:
    ad = OpenADAS(data_path=repo, missing_rates_return_null=True)
    try:
        r = ad.beam_cx_pec(elements.deuterium, elements.carbon, 6, (8, 7))
        print("beam_cx_pec returned", r, [x(5e4, 100.0, 1e19, 2.0, 2.0) for x in r], "-> OK")
    except TypeError as e:
        print("WRONG: null rates requested but beam_cx_pec raised TypeError:", e)
finally:
    shutil.rmtree(repo, ignore_errors=True); shutil.rmtree(home, ignore_errors=True)
