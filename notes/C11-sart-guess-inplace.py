"""C11: invert_sart / invert_constrained_sart iterate IN PLACE on the caller's initial_guess array and return that same array.

The docstring only says the guess "will be used to seed the algorithm".  Consequences: (1) the user's array is overwritten,
(2) a second call with the same array does not start from the guess the user wrote down, so identical calls give different
results, (3) the result of the first call is the same object and is overwritten by the second call.
Run: /venv/bin/python /verif/notes/C11-sart-guess-inplace.py
"""
import numpy as np
from cherab.tools.inversions import invert_sart

W = np.array([[1.0, 1.0], [0.0, 1.0]])
b = np.array([3.0, 1.0])
guess = np.array([1.0, 1.0])

x1, _ = invert_sart(W, b, initial_guess=guess, max_iterations=5, conv_tol=0.0)
first = x1.copy()
print("guess after call 1 :", guess, "(was [1. 1.])")
x2, _ = invert_sart(W, b, initial_guess=guess, max_iterations=5, conv_tol=0.0)
print("call 1 result      :", first)
print("call 2 result      :", x2, "(identical call, same array object as guess)")
print("x1 is guess, x1 is x2:", x1 is guess, x1 is x2, "-> first result now reads", x1)
bad = not np.array_equal(guess, [1.0, 1.0]) or not np.array_equal(first, x2)
print("DEFECT PRESENT" if bad else "ok")
