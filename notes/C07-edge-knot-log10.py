"""C07-edge-knot-log10: a rate can raise ValueError when evaluated exactly at its own first/last grid point.
The knots are np.log10(grid) (numpy's own log10) but evaluate() uses libc log10(x); the two differ by 1 ulp for ~1% of
doubles, which puts the edge knot outside [knot_min, knot_max] when extrapolation is not permitted."""
import math
import numpy as np
from cherab.openadas.rates import IonisationRate
te = np.array([1.0, 1.5963385442879423])
print("numpy log10:", repr(float(np.log10(te)[1])), " libc log10:", repr(math.log10(te[1])))
rate = IonisationRate({"ne": np.array([1e18, 1e19]), "te": te, "rate": np.array([[1e-15, 2e-15], [3e-15, 5e-15]])})
print("temperature_range:", rate.temperature_range)
try:
    print("rate(1e18, te_max) =", rate(1e18, rate.temperature_range[1]), "-> OK (expected 2e-15)")
except ValueError as e:
    print("WRONG: evaluating at the last tabulated temperature raised ValueError:", e)
rng = np.random.default_rng(0); n = bad = 0
for _ in range(2000):
    x = np.sort(10 ** rng.uniform(-1, 4, 3)); r = IonisationRate({"ne": np.array([1e18, 1e19]), "te": x, "rate": np.full((2, 3), 1e-15)})
    for v in (x[0], x[-1]):
        n += 1
        try: r(1e18, v)
        except ValueError: bad += 1
print("random grids: %d of %d edge-knot evaluations raise" % (bad, n))
