"""C05 observation (not gated): the 'total ion density' handed to the beam CX coefficients counts neutral atoms.

Plasma.ion_density() sums the density of EVERY species of the composition, charge 0 included, and BeamCXLine passes
that number as the `density` argument ("Plasma total ion density") of BeamCXPEC.evaluate.  Z_effective, by contrast,
skips charge-0 species.  Run: /venv/bin/python /verif/notes/C05-ion-density-counts-neutrals.py
"""
from raysect.core import Vector3D
from scipy.constants import atomic_mass as amu, m_e
from cherab.core import Plasma, Species, Maxwellian
from cherab.core.atomic import deuterium, carbon

v0 = Vector3D(0, 0, 0)
plasma = Plasma()
plasma.electron_distribution = Maxwellian(1e19, 100., v0, m_e)
plasma.composition = [Species(deuterium, 1, Maxwellian(1e19, 100., v0, 2 * amu)),
                      Species(carbon, 6, Maxwellian(1e17, 100., v0, 12 * amu)),
                      Species(deuterium, 0, Maxwellian(5e19, 3., v0, 2 * amu))]     # dense neutral gas
ions = 1e19 + 1e17
got = plasma.ion_density(0, 0, 0)
print("sum over charge >= 1 species :", ions)
print("Plasma.ion_density           :", got)
print("Z_effective (ignores neutrals):", plasma.z_effective(0, 0, 0))
print("neutrals counted as ions" if got != ions else "ok")
# proposed patch (cherab/core/plasma/node.pyx, ion_density):
#     for species in self._composition:
# -       ion_density += species.distribution.density(x, y, z)
# +       if species.charge > 0:
# +           ion_density += species.distribution.density(x, y, z)
