"""C09: from_elementdensity / match_plasma_neutrality ignore the thermal-CX donor (fractional_abundance honours it): the
*_point helpers do `if tcx_donor is not None and coef_tcx is None: load; else: coef_tcx = None`, which throws away the CX
rates pre-loaded and passed down by _from_elementdensity / _match_plasma_neutrality (ionisation_balance.py:279-282, 335-338)."""
import numpy as np
from cherab.core.atomic import AtomicData, IonisationRate, RecombinationRate, ThermalCXRate, helium, hydrogen
from cherab.tools.plasmas.ionisation_balance import fractional_abundance, from_elementdensity, match_plasma_neutrality

class K:
    def evaluate(self, density, temperature):
        return 1e-18                                  # every rate S = alpha = C = 1e-18 m^3/s
class S(K, IonisationRate): pass
class A(K, RecombinationRate): pass
class C(K, ThermalCXRate): pass
class Data(AtomicData):
    def ionisation_rate(self, ion, charge): return S()
    def recombination_rate(self, ion, charge): return A()
    def thermal_cx_rate(self, donor, donor_charge, receiver, receiver_charge): return C()

ne, te, nd = 1e18, 10.0, 1e18                          # n_D / n_e = 1  ->  n_{z+1}/n_z = S/(alpha + C) = 1/2
exact = np.array([4, 2, 1]) / 7.0
f = fractional_abundance(Data(), helium, ne, te, hydrogen, nd, 0)
d = from_elementdensity(Data(), helium, 1e16, ne, te, hydrogen, nd, 0)
m = match_plasma_neutrality(Data(), helium, [], ne, te, hydrogen, nd, 0)
da = np.array([d[q][0] for q in range(3)]) / 1e16
ma = np.array([m[q][0] for q in range(3)])
print("exact steady state with donor :", exact)
print("fractional_abundance          :", np.array([f[q][0] for q in range(3)]))
print("from_elementdensity / n_el    :", da, "<- donor ignored" if abs(da - exact).max() > 1e-6 else "ok")
print("match_plasma_neutrality (norm):", ma / ma.sum(), "<- donor ignored" if abs(ma / ma.sum() - exact).max() > 1e-6 else "ok")
