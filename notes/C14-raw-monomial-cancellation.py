"""C14: Caching2D/3D lose all accuracy when the caching area lies several widths away from the origin.
The cell polynomial is solved for in area-normalised coordinates ("to avoid float accuracy troubles", docstring) but is then
re-expanded to monomials x^i y^j z^k in RAW coordinates and evaluated there: with |x|/width ~ 10 the 64 terms cancel
catastrophically.  Property C14: the cache equals the wrapped function at its sampling nodes and approximates it to
O(h^2 max|f''|).  Run: /venv/bin/python notes/C14-raw-monomial-cancellation.py"""
import math
from cherab.core.math.caching import Caching1D, Caching2D, Caching3D

K = 2 * math.pi          # one period across the unit-width area, max|f| = 1


def run(dim, lo):
    calls = []

    def g(*p):
        return math.prod(math.sin(K * (v - lo)) for v in p)

    def f(*p):                                       # recording wrapper: the call arguments are the sampling nodes
        calls.append(p)
        return g(*p)
    cls = (Caching1D, Caching2D, Caching3D)[dim - 1]
    cache = cls(f, (lo, lo + 1.0) * dim, 0.09 if dim == 1 else (0.09,) * dim)     # 11 cells per axis, h = 1/11
    mid = (lo + 0.5 + 1e-3,) * dim
    err_mid = abs(cache(*mid) - g(*mid))
    nodes = [p for p in set(calls) if all(lo <= v <= lo + 1 for v in p)]           # sampling nodes inside the area
    err_node = max(abs(cache(*p) - g(*p)) for p in nodes)
    bound = dim * (1.0 / 11) ** 2 * K ** 2                                         # sum_a h_a^2 max|d2f/da2|
    print("Caching%dD area [%g, %g]^%d: max |cache(node) - f(node)| = %.3g, |cache - f|(cell centre) = %.3g   (h^2 f'' bound %.2g)"
          % (dim, lo, lo + 1, dim, err_node, err_mid, bound))


for dim in (1, 2, 3):
    for lo in (-0.5, 9.5):
        run(dim, lo)
print("expected: node errors ~1e-12 or below for every area; observed: ~1e-6 in 2-D and O(1) in 3-D for the area [9.5, 10.5]^d")
