"""C14: Caching2D/3D lose all accuracy when the caching area lies several widths away from the origin.  The cell polynomial is
solved for in area-normalised coordinates ("to avoid float accuracy troubles", docstring) but is then re-expanded to monomials
x^i y^j z^k in RAW coordinates and evaluated there: with |x|/width ~ 10 the 4^d terms cancel catastrophically.  Property C14: the
cache equals the wrapped function at its sampling nodes and approximates it to O(h^2 max|f''|).  /venv/bin/python <this file>"""
import math
from cherab.core.math.caching import Caching1D, Caching2D, Caching3D
K = 2 * math.pi          # one period across the unit-width area, max|f| = 1


def run(dim, lo):
    calls = []
    def g(*p):
        return math.prod(math.sin(K * (v - lo)) for v in p)

    def f(*p):                                       # recording wrapper: the call arguments are the sampling nodes
        calls.append(p)
        return g(*p)
    cache = (Caching1D, Caching2D, Caching3D)[dim - 1](f, (lo, lo + 1.0) * dim, 0.09 if dim == 1 else (0.09,) * dim)   # 11 cells
    mid = (lo + 0.5 + 1e-3,) * dim
    err_mid = abs(cache(*mid) - g(*mid))
    nodes = [p for p in set(calls) if all(lo <= v <= lo + 1 for v in p)]           # sampling nodes inside the area
    err_node = max(abs(cache(*p) - g(*p)) for p in nodes)
    print("Caching%dD area [%g, %g]^%d: max|cache(node) - f(node)| = %.3g, |cache - f| near a cell centre = %.3g  (sum h^2 max|f''| = %.2g)"
          % (dim, lo, lo + 1, dim, err_node, err_mid, dim * (K / 11) ** 2))


for dim in (1, 2, 3):
    for lo in (-0.5, 9.5):
        run(dim, lo)
print("expected: node errors <= ~1e-10 for every area; observed for [9.5, 10.5]^d: ~4e-5 in 2-D, ~30 (max|f| = 1) in 3-D")
