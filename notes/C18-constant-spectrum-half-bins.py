"""C18: ConstantSpectrum loses half of its first and/or last bin for ~46 % of (min, max, bins).
LaserSpectrum._update_cache() bins with the two-point trapezoid 0.5*(f(lower)+f(upper)) and ConstantSpectrum.evaluate
is an indicator of [min, max]; the outer bin edges are recomputed in floating point ((min+0.5*d)-0.5*d, repeated
lower+d) and land one ulp outside the range, where the indicator is 0.  The unit-power spectrum then carries
1 - 0.5/bins (or 1 - 1/bins) instead of 1 and the scattered power is off by the same factor."""
import random
import numpy as np
from cherab.core.model.laser import ConstantSpectrum

for mn, mx, n in ((1039.9, 1040.1, 10), (1059.0, 1061.0, 10), (1063.95, 1064.05, 2), (531.9, 532.1, 3)):  # 2nd: used in test_laser.py
    s = ConstantSpectrum(mn, mx, n)
    p = np.array(s.power_spectral_density) * s.delta_wavelength
    print((mn, mx, n), "bin powers", p[:2], "...", p[-1:], " sum =", p.sum(), "" if abs(p.sum() - 1) < 1e-9 else "  <-- DEFECT")
random.seed(1)
bad, N = 0, 5000
for _ in range(N):
    mn = random.uniform(200, 2000)
    s = ConstantSpectrum(mn, mn + 10 ** random.uniform(-2, 2.5), random.randint(1, 100))
    bad += abs(s.power_spectral_density.sum() * s.delta_wavelength - 1) > 1e-9
print("%d of %d random (min, max, bins) do not integrate to 1" % (bad, N))
