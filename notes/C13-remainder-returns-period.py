"""C13 defect: periodic extension hands the wrapped function the period itself for tiny negative x.

cherab/core/math/transform/periodic.pxd  remainder(x1, x2):  x1 = fmod(x1, x2); return x1 + x2 if x1 < 0 else x1
For x < 0 with |fmod(x, p)| <= ulp(p)/4 the sum fmod(x, p) + p rounds to p, so the inner argument leaves the
documented interval [0, period) ("function defined in the [0, period) interval").  Run: /venv/bin/python <this file>
"""
from cherab.core.math import PeriodicTransform1D, PeriodicTransform2D, VectorPeriodicTransform1D
from raysect.core.math import Vector3D

seen = []
bad = 0
for period, x in [(1.0, -1e-20), (1.0, -5e-324), (1.0, -5.551115123125783e-17), (360.0, -1e-14), (6.283185307179586, -1e-16),
                  (1.0, -3.0), (1e308, -1e-300), (1.0, -1e-3)]:
    seen.clear()
    PeriodicTransform1D(lambda t: seen.append(t) or 0.0, period)(x)
    ok = 0.0 <= seen[0] < period
    bad += not ok
    print("PeriodicTransform1D(f, %r)(%r): f received %r  %s" % (period, x, seen[0], "ok" if ok else "<-- not in [0, period)"))
seen.clear()
PeriodicTransform2D(lambda a, b: seen.append((a, b)) or 0.0, 1.0, 0.0)(-1e-20, 5.0)
print("PeriodicTransform2D(f, 1, 0)(-1e-20, 5): f received %r" % (seen[0],))
seen.clear()
VectorPeriodicTransform1D(lambda t: seen.append(t) or Vector3D(0, 0, 0), 1.0)(-1e-20)
print("VectorPeriodicTransform1D(f, 1)(-1e-20): f received %r" % (seen[0],))
print("%d arguments left [0, period); a function tabulated on [0, period) (e.g. an interpolator without extrapolation) raises or "
      "returns the value for the wrong end" % bad)
