"""C12 defect: vectors returned by the equilibrium's constant vector functions are the functions' own internal objects.
eq.toroidal_vector (cherab ConstantVector2D = raysect vector3d Constant2D) and the outside value of map_vector2d (a Vector3D wrapped
by VectorBlend2D into the same Constant2D) `return self._value`.  Vector3D is mutable from Python (v.x = ..), so a caller that edits
a vector it was given silently changes the equilibrium's toroidal basis vector / the outside velocity for every later call.
(Vectors computed per call - b_field, poloidal_vector, map_vector3d - are fresh objects and are not affected.)
Run: /venv/bin/python <this file>"""
from raysect.core import Vector3D
from cherab.tools.equilibrium import example_equilibrium

eq = example_equilibrium()
t = eq.toroidal_vector(2.0, 0.0)
print("toroidal_vector(2, 0)            =", t, "  same object on the next call:", t is eq.toroidal_vector(2.5, 0.3))
t.x += 1.0                                   # e.g. a caller building v = v_tor * t in place
print("after the caller's t.x += 1      =", eq.toroidal_vector(2.0, 0.0), " (expected Vector3D(0, 1, 0))")

vel = eq.map_vector2d(lambda p: 6e4 * p, lambda p: 0.0, lambda p: 0.0, Vector3D(0, 0, 0))
v = vel(1.2, 1.2)                            # a point outside the LCFS: the outside value
v.z -= 2.0
print("outside velocity after v.z -= 2  =", vel(1.2, 1.3), " (expected Vector3D(0, 0, 0))")
