"""C02 finding: StarkBroadenedLine / add_lorentzian_line mis-integrates spectral bins that are much wider than the
line FWHM (default GaussianQuadrature: orders <= 50, convergence judged by successive iterates).  The wavelength
integral of the added line then differs from the supplied radiance by tens of percent.
Run: /venv/bin/python notes/C02-stark-coarse-bins.py"""
from raysect.optical import Spectrum
from cherab.core.model.lineshape.stark import add_lorentzian_line
from cherab.core.math.integrators import GaussianQuadrature

fwhm = 0.01  # nm
for width_in_fwhm, offset in [(4, 0.0), (16, 0.0), (50, 0.0), (50, 0.37), (120, 0.0), (120, 0.37)]:
    d = width_in_fwhm * fwhm
    mn = 656.1 - 1.5 * d + offset * d          # three bins, the line sits in the middle one
    s = Spectrum(mn, mn + 3 * d, 3)
    add_lorentzian_line(1.0, 656.1, fwhm, s, GaussianQuadrature())
    print("bin = %4d FWHM, offset %.2f: integral of added line = %.5f (radiance 1.0, >=0.998 of it inside)"
          % (width_in_fwhm, offset, s.samples.sum() * d))
