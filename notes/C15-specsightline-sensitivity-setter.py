"""C15: SpectroscopicSightLineGroup declares `@sensitivity.setter def names(...)` (group/spectroscopic.py).
The decorator returns a property (getter = sensitivity's getter, setter = the sensitivity setter) which is bound to the
class attribute `names`; `sensitivity` itself stays read-only and the inherited `names` property is shadowed.
Run: /venv/bin/python /verif/notes/C15-specsightline-sensitivity-setter.py"""
from raysect.core import Point3D, Vector3D
from raysect.optical import World
from cherab.tools.observers import SpectroscopicSightLine, SpectroscopicSightLineGroup

group = SpectroscopicSightLineGroup(parent=World())
group.add_sight_line(SpectroscopicSightLine(Point3D(3, 0, 0), Vector3D(-1, 0, 0), name="SightLine 1"))
group.add_sight_line(SpectroscopicSightLine(Point3D(3, 0, 0), Vector3D(-1, 0, 0.1), name="SightLine 2"))

print("member names        :", [s.name for s in group.sight_lines])
print("group.names         :", group.names, "  <- the sensitivities, not the names")
try:
    group.sensitivity = [2.0, 3.0]
    print("group.sensitivity = [2.0, 3.0] ->", group.sensitivity)
except AttributeError as e:
    print("group.sensitivity = [2.0, 3.0] raises AttributeError:", e)
try:
    group.names = ["a", "b"]
    print("group.names = ['a', 'b'] -> member names", [s.name for s in group.sight_lines])
except TypeError as e:
    print("group.names = ['a', 'b'] raises TypeError:", e)
group.names = [2.0, 3.0]
print("group.names = [2.0, 3.0] sets the sensitivities:", [s.sensitivity for s in group.sight_lines],
      "member names still", [s.name for s in group.sight_lines])
