"""C10 finding C10-fortran-voxel-map.  A voxel_map of the right shape whose memory layout is not C-contiguous (Fortran
order, a transposed view such as rz_map.T[:, None, :]) is rejected with 'ValueError: ndarray is not C-contiguous', by the
constructors and by the voxel_map setter; a mask in the same layout is accepted.  The setter fails AFTER it has replaced
_voxel_map, so the object is left inconsistent: voxel_map shows the new map, bins and the traced rows still follow the old.
Run: /venv/bin/python /verif/notes/C10-fortran-voxel-map.py"""
import numpy as np
from raysect.optical import World, Ray, Point3D, Vector3D
from cherab.tools.raytransfer import RayTransferBox, RayTransferCylinder

zr_map = np.arange(12).reshape(4, 3)                       # a (z, r) source table ...
try:
    RayTransferCylinder(3.0, 4.0, 3, 4, voxel_map=zr_map.T[:, None, :])    # ... handed over as (r, 1, z)
except ValueError as e:
    print("RayTransferCylinder(voxel_map=zr_map.T[:, None, :]) ->", type(e).__name__, e)
world = World()
rtb = RayTransferBox(2., 3., 4., 2, 3, 4, mask=np.asfortranarray(np.ones((2, 3, 4), dtype=bool)), parent=world)
print("Fortran-ordered mask accepted, bins =", rtb.bins)
try:
    rtb.voxel_map = np.asfortranarray(np.zeros((2, 3, 4), dtype=int))      # all cells -> source 0
except ValueError as e:
    print("voxel_map setter ->", type(e).__name__, e)
row = Ray(Point3D(-1, -1, -1), Vector3D(1, 1.2, 1.5).normalise(), bins=rtb.bins).trace(world).samples
print("afterwards: voxel_map.max() = %d (new map), bins = %d (old), sources hit = %d (old map)"
      % (rtb.voxel_map.max(), rtb.bins, np.count_nonzero(row)))
