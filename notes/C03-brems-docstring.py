"""C03 (documentation only): the Bremsstrahlung docstring prints sqrt(2 m_e^3 / (pi e T_e)); Hutchinson eq. 5.3.40, the code
(BREMS_CONST) and the repo test use sqrt(2 m_e / (pi e T_e)).  The printed expression is smaller by a factor m_e = 9.1e-31
and is dimensionally inconsistent.  The C03 oracle follows Hutchinson.  run: /venv/bin/python <this>"""
import math
from scipy import constants as K
from raysect.core import Point3D, Vector3D
from raysect.optical import Spectrum
from cherab.core import Plasma, Species, Maxwellian
from cherab.core.atomic import AtomicData, deuterium
from cherab.core.model import Bremsstrahlung

ne, te, ni, z, wvl = 1e19, 2000., 1e19, 1, 500.
plasma = Plasma()
plasma.electron_distribution = Maxwellian(ne, te, Vector3D(0, 0, 0), K.m_e)
plasma.composition = [Species(deuterium, 1, Maxwellian(ni, te, Vector3D(0, 0, 0), 2 * K.atomic_mass))]
model = Bremsstrahlung(plasma=plasma, atomic_data=AtomicData())
code = model.emission(Point3D(0, 0, 0), Vector3D(0, 0, 1), Spectrum(wvl - 0.001, wvl + 0.001, 1)).samples[0]
g = AtomicData().free_free_gaunt_factor()(z, te, wvl)
common = (K.e**2 / (4 * math.pi * K.epsilon_0))**3 * 32 * math.pi**2 / (3 * math.sqrt(3) * K.m_e**2 * K.c**3) \
    * 1e9 * K.c / (4 * math.pi * wvl**2) * ne * ni * g * z**2 * math.exp(-1e9 * K.h * K.c / (K.e * te * wvl))
print("model                         :", code)
print("Hutchinson  sqrt(2 m_e  /...) :", common * math.sqrt(2 * K.m_e / (math.pi * K.e * te)))
print("docstring   sqrt(2 m_e^3/...) :", common * math.sqrt(2 * K.m_e**3 / (math.pi * K.e * te)))
