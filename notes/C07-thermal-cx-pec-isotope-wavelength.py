"""C07-thermal-cx-pec-isotope-wavelength: thermal_cx_pec converts photons to watts with the ELEMENT's wavelength when the
receiver is an isotope (openadas.py:410 overwrites receiver_element before the wavelength lookup at :427), although
impact_excitation_pec / recombination_pec / beam_cx_pec keep the isotope ("obtain isotope's rest wavelength")."""
import os, shutil, tempfile
home = tempfile.mkdtemp(); os.environ["HOME"] = home
from scipy.constants import h, c
from cherab.core.atomic import elements as el
from cherab.openadas import OpenADAS, repository as R
repo = tempfile.mkdtemp()
try:
    pec = {"ne": [1e18, 1e19], "te": [1., 10.], "td": [1., 10.], "rate": [[[1e-15, 1e-15], [1e-15, 1e-15]], [[1e-15, 1e-15], [1e-15, 1e-15]]]}
    R.update_pec_thermal_cx_rates({el.hydrogen: {0: {el.hydrogen: {1: {(3, 2): pec}}}}}, repo)
    R.update_pec_rates({"excitation": {el.hydrogen: {0: {(3, 2): {k: (v if k != "rate" else [[1e-15, 1e-15], [1e-15, 1e-15]]) for k, v in pec.items() if k != "td"}}}}}, repo)
    R.update_wavelengths({el.hydrogen: {0: {(3, 2): 656.28}}, el.deuterium: {0: {(3, 2): 656.10}}}, repo)
    ad = OpenADAS(data_path=repo)
    for name, v in (("impact_excitation_pec(D)", ad.impact_excitation_pec(el.deuterium, 0, (3, 2))(1e18, 1.)),
                    ("thermal_cx_pec(H0 -> D1+)", ad.thermal_cx_pec(el.hydrogen, 0, el.deuterium, 1, (3, 2))(1e18, 1., 1.))):
        lam = 1e-15 * h * c * 1e9 / v
        print("%-28s implied wavelength %.2f nm %s" % (name, lam, "OK (deuterium)" if abs(lam - 656.10) < 1e-6 else "WRONG: hydrogen's, wavelength(D)=656.10"))
finally:
    shutil.rmtree(repo, ignore_errors=True); shutil.rmtree(home, ignore_errors=True)
