"""C11: invert_sart / invert_constrained_sart return nan for a finite, valid problem when a ray length W(k,+) or a voxel's
column sum W(+,l) is a subnormal number below 5.56e-309: the code multiplies by the reciprocals 1/W(k,+) and
relaxation/W(+,l), which overflow to inf, although the documented quotients W(k,l)/W(k,+) and (...)/W(+,l) are finite.
x* = [1] solves W x = b exactly, so it has to be returned as a fixed point.
Run: /venv/bin/python /verif/notes/C11-sart-subnormal-sum-overflow.py
"""
import warnings
import numpy as np
from cherab.tools.inversions import invert_sart

warnings.simplefilter("ignore")
bad = False
for name, W, xs in (("second ray has total length 1e-310", np.array([[1.0], [1e-310]]), np.array([1.0])),
                    ("second voxel has column sum 1e-310", np.array([[1.0, 1e-310]]), np.array([1.0, 1.0]))):
    b = W @ xs
    x, conv = invert_sart(W, b, initial_guess=xs.copy(), max_iterations=1)
    print("%s: W = %s, b = W x* = %s" % (name, W.tolist(), b.tolist()))
    print("   returned", x, "convergence", conv, "  expected x* =", xs)
    bad = bad or not np.all(np.isfinite(x))
print("DEFECT PRESENT" if bad else "ok")
