"""C09: fractional_abundance is far from the steady state for rate sets spanning several decades (here 6: every rate is
1e-19 or 1e-13 m^3/s, n_e = 1e18, Z = 12): the (Z+2)x(Z+1) least-squares system (balance rows x n_e, one row of ones)
has cond2 ~ 2e13 and abundances below the LS noise come out negative, so lsq_linear switches to its bounded trust-region
iteration (tol=1e-10), which stops far from the solution (and can run for minutes for 10-12 decades)."""
import numpy as np
from cherab.core.atomic import AtomicData, IonisationRate, RecombinationRate, magnesium
from cherab.tools.plasmas.ionisation_balance import fractional_abundance

S = [-13, -19, -19, -13, -19, -13, -19, -13, -13, -19, -13, -13]        # log10 S_z,      z = 0..11
A = [-13, -13, -19, -13, -19, -19, -13, -19, -13, -19, -19, -19]        # log10 alpha_z,  z = 1..12
class Ion(IonisationRate):
    def __init__(self, v): self.v = v
    def evaluate(self, density, temperature): return self.v
class Rec(RecombinationRate):
    def __init__(self, v): self.v = v
    def evaluate(self, density, temperature): return self.v
class Data(AtomicData):
    def ionisation_rate(self, ion, charge): return Ion(10.0 ** S[charge])
    def recombination_rate(self, ion, charge): return Rec(10.0 ** A[charge - 1])

got = fractional_abundance(Data(), magnesium, 1e18, 10.0)
got = np.array([got[q][0] for q in range(13)])
lg = np.concatenate(([0.0], np.cumsum(np.array(S, float) - np.array(A, float))))       # n_{z+1}/n_z = S_z / alpha_{z+1}
exact = 10.0 ** (lg - lg.max()); exact /= exact.sum()
print("code :", np.array2string(got, precision=3))
print("exact:", np.array2string(exact, precision=3))
res = np.abs(got[:-1] * 10.0 ** np.array(S, float) - got[1:] * 10.0 ** np.array(A, float))
print("max |f - exact| = %.3g; worst pair balance residual / largest flux = %.3g" % (abs(got - exact).max(), res.max() / (got[:-1] * 10.0 ** np.array(S, float)).max()))
