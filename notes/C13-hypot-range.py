"""C13 observation (not filed as a finding; the generator stays inside the accurate range):
AxisymmetricMapper / VectorAxisymmetricMapper / CylindricalTransform / VectorCylindricalTransform compute the radius
as sqrt(x*x + y*y), which overflows for max(|x|,|y|) > 1.34e154 and underflows for max(|x|,|y|) < ~1.5e-162
(loses accuracy below ~1e-146), although the mathematically mapped argument hypot(x, y) is an ordinary double.
libc hypot(x, y) would be exact to 1 ulp over the whole range.  Run: /venv/bin/python <this file>
"""
import math
from cherab.core.math import AxisymmetricMapper, CylindricalTransform

seen = []
ax = AxisymmetricMapper(lambda r, z: seen.append(r) or 0.0)
cy = CylindricalTransform(lambda r, phi, z: seen.append(r) or 0.0)
for x, y in [(3.0, 4.0), (1e200, 0.0), (-2e154, 2e154), (1e-200, 0.0), (3e-162, 4e-162), (3e-150, 4e-150)]:
    seen.clear()
    ax(x, y, 0.0)
    cy(x, y, 0.0)
    print("x=%-8r y=%-8r inner r: Axisymmetric %-22r Cylindrical %-22r hypot %r" % (x, y, seen[0], seen[1], math.hypot(x, y)))
