"""C07-beamcx-nonpositive: BeamCXPEC guards only energy <= 0. A non-positive ion temperature or density does not give 0:
it raises ValueError (no extrapolation) or returns the nearest-knot value (extrapolation permitted)."""
import numpy as np
from cherab.openadas.rates import BeamCXPEC
d = {"qref": 2e-15}
for (x, q), lo in zip((("eb", "qeb"), ("ti", "qti"), ("ni", "qni"), ("z", "qz"), ("b", "qb")), (1e4, 100.0, 1e19, 1.0, 1.0)):
    d[x] = np.array([lo, 2 * lo, 5 * lo]); d[q] = np.array([1e-15, 2e-15, 2.5e-15])
for ext in (False, True):
    r = BeamCXPEC(1, 529.0, d, extrapolate=ext)
    for label, args in (("energy=0", (0.0, 150., 2e19, 2., 2.)), ("temperature=0", (2e4, 0.0, 2e19, 2., 2.)), ("temperature=-1", (2e4, -1.0, 2e19, 2., 2.)),
                        ("density=0", (2e4, 150., 0.0, 2., 2.))):
        try:
            v = r(*args); print("extrapolate=%-5s %-15s -> %r %s" % (ext, label, v, "OK" if v == 0 else "WRONG: expected 0"))
        except ValueError as e:
            print("extrapolate=%-5s %-15s -> WRONG: raised ValueError (%s)" % (ext, label, str(e)[:50]))
