"""C16-filters-list-aliased: Polychromator keeps the caller's filter list instead of a copy.

The filters setter (cherab/tools/spectroscopy/polychromator.py) stores the list object it is given (the class doc-string
passes a list). If the caller appends to / re-uses that list afterwards (no setter is called), the cached settings go
out of step with each other: pipeline_classes and the spectral range still describe the old list, pipeline_kwargs
(after the next name change) the new one, and create_pipelines() zips the two and silently drops a filter.

Run: /venv/bin/python /verif/notes/C16-filters-list-aliased.py
"""
from cherab.tools.spectroscopy import Polychromator, TrapezoidalFilter

filters = [TrapezoidalFilter(656.1, name='H-alpha')]
poly = Polychromator(filters, name='poly')
print("range (%.2f, %.2f) bins %d, %d pipeline class(es)" % (poly.min_wavelength, poly.max_wavelength, poly.spectral_bins, len(poly.pipeline_classes)))
filters.append(TrapezoidalFilter(464.8, name='CIII'))     # the caller goes on building another instrument's list
poly.name = 'renamed'                                      # unrelated parameter change
ref = Polychromator([filters[0]], name='renamed')          # instrument built with the parameters that were set
print("poly.filters now has %d filters; pipeline_kwargs %d entries, pipeline_classes %d, create_pipelines() %d, range (%.2f, %.2f)"
      % (len(poly.filters), len(poly.pipeline_kwargs), len(poly.pipeline_classes), len(poly.create_pipelines()), poly.min_wavelength, poly.max_wavelength))
print("reference               pipeline_kwargs %d entries, pipeline_classes %d, create_pipelines() %d, range (%.2f, %.2f)"
      % (len(ref.pipeline_kwargs), len(ref.pipeline_classes), len(ref.create_pipelines()), ref.min_wavelength, ref.max_wavelength))
print("DEFECT PRESENT" if len(poly.pipeline_kwargs) != len(ref.pipeline_kwargs) else "defect not present (fixed)")
