"""C17: AxisymmetricVoxel.emissivity_from_function can index one past its triangle table (voxels.pyx:442).

tri_index = find_index(cumulative_areas, total_area * uniform()) + 1.  total_area is the shoelace area of the whole
polygon, cumulative_areas[-1] the sum of the per-triangle areas: two different floating-point evaluations.  Whenever
total_area * u >= cumulative_areas[-1], find_index returns the last index and tri_index == num_triangles.  Bounds checks
are off, so foreign memory is used as vertex indices: the "sample point" is garbage far outside the voxel (it enters
the returned mean), NaN, or the interpreter dies with SIGSEGV.  The probability per sample is about
(r z / area) * 1e-16, so it shows quickly for a small cell far from the origin (1 m cell at R ~ 1e6 m below) and only
once per ~1e9..1e10 samples for a 1 cm cell at R = 5 m, z = 3 m.  May segfault instead of printing.
Run: /venv/bin/python notes/C17-oob-triangle-index.py
"""
from cherab.tools.inversions import AxisymmetricVoxel
from raysect.core.math.random import seed

r0, z0 = 1050000.0, 1385000.0
verts = [(r0, z0), (r0 + 1.0, z0 + 0.1), (r0 + 1.2, z0 + 1.1), (r0 + 0.4, z0 + 1.4), (r0 - 0.2, z0 + 0.7)]
voxel = AxisymmetricVoxel(verts)
points = []
seed(12350)
mean_r = voxel.emissivity_from_function(lambda r, phi, z: points.append((r, z)) or r, 400000)
outside = [p for p in points if not (r0 - 0.2 <= p[0] <= r0 + 1.2 and z0 <= p[1] <= z0 + 1.4)]
print("area %r (exact 1.39), centroid r %r" % (voxel.cross_sectional_area, voxel.cross_section_centroid.x))
print("%d of %d sample points lie outside the voxel's bounding box, e.g. %r" % (len(outside), len(points), outside[:2]))
print("mean of f = r over the voxel: %r  (every point of the voxel has %r <= r <= %r)" % (mean_r, r0 - 0.2, r0 + 1.2))
print("WRONG: samples taken outside the cross-section" if outside else "ok")
