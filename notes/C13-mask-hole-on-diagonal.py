"""C13 defect: PolygonMask2D returns 0.0 for points well inside the polygon that lie on an internal triangulation edge.

PolygonMask2D = triangulate2d + raysect Discrete2DMesh(limit=False, default_value=0).  The mesh look-up tests
barycentric coordinates >= 0 per triangle in floating point; for a point on the edge shared by two triangles the
rounding can make one coordinate slightly negative in BOTH triangles, so the point is in neither and the mask is 0.
About 3 % of the points placed on a triangulation diagonal of a random quadrilateral are affected.
Run: /venv/bin/python <this file>
"""
import math
import random
from cherab.core.math import PolygonMask2D

v = [[-0.9887895776731505, -0.1493156759518329], [0.3063208497336261, 0.9519283255678808],
     [0.8718362985039578, -0.4897973750551526], [-0.490232715647709, -0.5676018714809461]]       # convex quadrilateral
m = PolygonMask2D(v)
px, py = -0.3906635199750421, -0.37766059684984277      # v[3] + 0.125*(v[1]-v[3]); 0.18 away from the boundary
print("mask(%r, %r) = %r   (inside, expected 1.0);  1e-9 beside it: %r %r" % (px, py, m(px, py), m(px + 1e-9, py), m(px - 1e-9, py)))
random.seed(1)
holes = n = 0
for _ in range(2000):
    q = [[math.cos(a) + random.uniform(-.1, .1), math.sin(a) + random.uniform(-.1, .1)] for a in (0.3, 1.9, 3.4, 5.0)]
    mk = PolygonMask2D(q)
    for i, j in ((0, 2), (1, 3)):
        for t in (0.125, 0.3, 0.5, 0.77):
            n += 1
            holes += mk(q[i][0] + t * (q[j][0] - q[i][0]), q[i][1] + t * (q[j][1] - q[i][1])) != 1.0
print("%d of %d interior points on the two diagonals of random convex quadrilaterals are reported outside" % (holes, n))
