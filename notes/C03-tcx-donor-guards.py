"""C03: ThermalCXLine does not guard the donor density / donor temperature.
Documented: emission is zero whenever a density or temperature it depends on is non-positive and never negative
for non-negative coefficients.  A donor with T_d <= 0 still contributes (the PEC is evaluated at T_d <= 0) and a
donor with negative density (e.g. interpolation undershoot) makes the line NEGATIVE.  run: /venv/bin/python <this>"""
from scipy.constants import atomic_mass as amu, m_e
from raysect.core import Point3D, Vector3D
from raysect.optical import Spectrum
from cherab.core import Plasma, Species, Maxwellian, Line
from cherab.core.atomic import AtomicData, ThermalCXPEC, carbon, deuterium
from cherab.core.model import ThermalCXLine

class PEC(ThermalCXPEC):
    def evaluate(self, ne, te, td):
        print("   PEC evaluated with donor temperature", td)
        return 1e-37                                   # non-negative coefficient

class Data(AtomicData):
    def thermal_cx_pec(self, *a): return PEC()
    def wavelength(self, *a): return 529.0

def emission(n_donor, t_donor):
    v = Vector3D(0, 0, 0)
    plasma = Plasma()
    plasma.electron_distribution = Maxwellian(1e19, 100., v, m_e)
    plasma.composition = [Species(carbon, 6, Maxwellian(1e18, 100., v, 12 * amu)),
                          Species(deuterium, 0, Maxwellian(n_donor, t_donor, v, 2 * amu))]
    model = ThermalCXLine(Line(carbon, 5, (8, 7)), plasma=plasma, atomic_data=Data())
    s = model.emission(Point3D(0, 0, 0), Vector3D(0, 0, 1), Spectrum(500, 560, 60))
    return s.samples.sum() * s.delta_wavelength

print("donor n=1e16, T=0  -> radiance %r (expected 0: the donor temperature is non-positive)" % emission(1e16, 0.0))
print("donor n=-1e16, T=3 -> radiance %r (expected 0: never negative)" % emission(-1e16, 3.0))
