"""C18: GaussianSpectrum.mean / .stddev setters do not refresh the binned spectrum.
cherab/core/model/laser/laserspectrum.pyx: the setters only store the value; LaserSpectrum._update_cache()
is called from the min_wavelength / max_wavelength / bins setters only."""
import numpy as np
from cherab.core.model.laser import GaussianSpectrum

s = GaussianSpectrum(1030.0, 1050.0, 10, 1040.0, 2.0)
before = np.array(s.power_spectral_density)
s.mean = 1035.0
s.stddev = 0.5
after = np.array(s.power_spectral_density)
fresh = np.array(GaussianSpectrum(1030.0, 1050.0, 10, 1035.0, 0.5).power_spectral_density)
print("mean, stddev reported      :", s.mean, s.stddev)
print("psd after the setters      :", np.round(after, 4))
print("psd of a fresh object      :", np.round(fresh, 4))
print("binned spectrum unchanged by the setters:", np.array_equal(before, after))
print("DEFECT" if not np.allclose(after, fresh) else "ok")
s.bins = 10   # any setter that calls _update_cache() repairs it
print("after re-assigning bins it matches:", np.allclose(s.power_spectral_density, fresh))
