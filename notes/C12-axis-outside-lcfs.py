"""C12 defect (consequence of C13-mask-hole-on-diagonal): EFITEquilibrium can report its own magnetic axis as outside the LCFS.
inside_lcfs = PolygonMask2D(lcfs_polygon) AND psi_n <= 1; PolygonMask2D (triangulate2d + raysect Discrete2DMesh) loses points lying
to rounding on an internal triangulation edge.  An LCFS polygon traced along an even number of equally spaced rays from the axis
has vertices k, k+N/2 collinear with the axis and the ear clipping uses such a chord (288 of 288 random synthetic equilibria); in
about 1 of 10^3 of them rounding puts the axis in neither adjacent triangle: map2d/map3d give the outside value AT THE AXIS.
Run: /venv/bin/python <this file>"""
import math, numpy as np
from scipy.optimize import brentq
from raysect.core import Point2D
from cherab.tools.equilibrium import EFITEquilibrium

R0, a, k, n = 1.1796875, 0.37828945854549795, 1.977897083881664, 64
U = lambda r, z: ((r * r - R0 * R0) ** 2 / (4 * R0 * R0) + r * r * z * z / (k * k * R0 * R0)) / a ** 2     # Solov'ev flux, axis (R0, 0)
verts = []
for t in (np.arange(n) + 1.0) * (2 * math.pi / n):               # LCFS (U = 1) along n rays from the axis
    c, s = math.cos(t), math.sin(t)
    f = lambda rho: U(R0 + rho * c, rho * s) - 1.0
    lo, hi = 0.0, 0.25 * a
    while f(hi) < 0.0:
        lo, hi = hi, hi * 1.3
    rho = brentq(f, lo, hi, xtol=1e-15, rtol=1e-15)
    verts.append((R0 + rho * c, rho * s))
r, z = np.linspace(0.1, 2.2, 20), np.linspace(-1.4, 1.4, 20)
psi = U(*np.meshgrid(r, z, indexing="ij"))
prof = np.array([np.linspace(0, 1, 5), np.ones(5)])
eq = EFITEquilibrium(r, z, psi, 0.0, 1.0, Point2D(R0, 0.0), [], [], prof, prof, R0, 1.0, np.array(verts).T, None, 0.0)
te = eq.map2d(lambda x: 5.0 + x, -1.0)
print("psi_n(axis) = %r, inside_lcfs(axis) = %r, map2d(5+psi_n, outside=-1)(axis) = %r   (expected 1.0 and ~5.0)"
      % (eq.psi_normalised(R0, 0.0), eq.inside_lcfs(R0, 0.0), te(R0, 0.0)))
print("1e-6 m beside the axis: inside_lcfs = %r, map2d = %r" % (eq.inside_lcfs(R0 + 1e-6, 1e-6), te(R0 + 1e-6, 1e-6)))
