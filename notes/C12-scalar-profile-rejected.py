"""C12 defect: the documented `v_normal = 0.0` call of map_vector2d / map_vector3d raises IndexError.
Both docstrings show `v_normal = 0.0; v = equilibrium.map_vector2d(v_toroidal, v_poloidal, v_normal)`.  The code accepts only a
Function1D, a callable or a 2xN array: a number falls into the array branch, np.array(0.0)[0, :] -> IndexError.
(autowrap_function1d itself would turn a number into a constant function.)
Run: /venv/bin/python <this file>"""
import numpy as np
from cherab.tools.equilibrium import example_equilibrium

eq = example_equilibrium()
v_toroidal = np.array([[0, 0.1, 0.2, 0.4, 0.7, 1.0], [0, 1e4, 3e4, 5e4, 5.5e4, 6e4]])
v_poloidal = np.array([[0, 0.1, 0.2, 0.4, 0.7, 1.0], [4e4, 1e4, 3e3, 1e3, 0, 0]])
v_normal = 0.0                                # "Assume zero velocity normal to flux surface" (docstring)
for name in ("map_vector2d", "map_vector3d"):
    try:
        v = getattr(eq, name)(v_toroidal, v_poloidal, v_normal)
        print(name, "->", v(3.1, 0.2) if name == "map_vector2d" else v(3.1, -0.1, 0.2))
    except Exception as e:
        print("%s(v_toroidal, v_poloidal, 0.0) raises %s: %s" % (name, type(e).__name__, e))
print("work-around (a function that returns 0.0):", eq.map_vector2d(v_toroidal, v_poloidal, lambda p: 0.0)(2.1, 0.2))
