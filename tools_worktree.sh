#!/bin/bash
# usage: tools_worktree.sh <dir>   -- creates a scratch git worktree of /repo HEAD at <dir> with the built extensions
# copied in (no 50 s rebuild), plus helper scripts: ./rebuild  ./pyrun <script.py> [args]  ./pytest_here <pytest args>
set -e
WT=$1
git -C /repo worktree add --detach "$WT" HEAD >/dev/null 2>&1
rsync -a --include='*/' --include='*.so' --include='*.c' --exclude='*' /repo/cherab/ "$WT/cherab/"
rsync -a /repo/build/ "$WT/build/"
# make generated files newer than the freshly checked-out sources, in dependency order: .c < objects < .so
find "$WT/cherab" -name '*.c' -exec touch {} +
sleep 1.1
find "$WT/build" -type f -name '*.o' -exec touch {} +
sleep 1.1
find "$WT/build" "$WT/cherab" -type f -name '*.so' -exec touch {} +
cat > "$WT/usewt.py" <<'PY'
# makes `import cherab` resolve to this worktree instead of the editable install of /repo
import os, sys
import cherab
cherab.__path__[:] = [os.path.join(os.path.dirname(os.path.abspath(__file__)), "cherab")]
for k in [k for k in sys.modules if k.startswith("cherab.")]:
    del sys.modules[k]
PY
cat > "$WT/rebuild" <<'SH'
#!/bin/bash
# rebuilds the Cython extensions of THIS worktree in place (only changed files are recompiled)
cd "$(dirname "$(readlink -f "$0")")" && /venv/bin/python setup.py build_ext -j8 --inplace 2>&1 | grep -iE "error|warning: .*pyx|^building|Cythonizing" | tail -20; echo "rebuild done"
SH
cat > "$WT/pyrun" <<'SH'
#!/bin/bash
# runs a python script against THIS worktree's cherab:  ./pyrun demo.py [args]
WT="$(dirname "$(readlink -f "$0")")"
PYTHONPATH="$WT" exec /venv/bin/python -c "import usewt, runpy, sys; sys.argv = sys.argv[1:]; runpy.run_path(sys.argv[0], run_name='__main__')" "$@"
SH
cat > "$WT/pytest_here" <<'SH'
#!/bin/bash
# runs the repository's tests against THIS worktree:  ./pytest_here cherab/core/tests -q
WT="$(dirname "$(readlink -f "$0")")"
cd "$WT" && PYTHONPATH="$WT" exec /venv/bin/python -m pytest -p usewt -p no:cacheprovider --timeout=900 "$@"
SH
chmod +x "$WT/rebuild" "$WT/pyrun" "$WT/pytest_here"
echo "worktree ready: $WT"
