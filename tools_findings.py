#!/usr/bin/env python3
"""Helper to append an entry to known_findings.json (used by hand while developing, never by checks)."""
import json, sys, os
p = os.path.join(os.path.dirname(os.path.abspath(__file__)), "known_findings.json")
d = json.load(open(p)) if os.path.exists(p) else {"findings": []}
status, pid, fid, commit_or_probe, what = sys.argv[1:6]
e = {"id": fid, "property": pid, "status": status, "what": what}
if status == "fixed":
    e["commit"] = commit_or_probe
    e["line"] = "fixed: property=%s %s %s" % (pid, commit_or_probe, what)
else:
    e["probe"] = commit_or_probe
    e["line"] = "KNOWN-FINDING: property=%s %s" % (pid, what)
d["findings"] = [x for x in d["findings"] if x["id"] != fid] + [e]
json.dump(d, open(p, "w"), indent=1)
print(e["line"])
