#!/bin/bash
# usage: tools_runall.sh quick|thorough [ids...]   -- runs the checks one after another, prints one summary line each
tier=${1:-quick}; shift
ids=${@:-C01 C02 C03 C04 C05 C06 C07 C08 C09 C10 C11 C12 C13 C14 C15 C16 C17 C18 C19 C20}
cd "$(dirname "$(readlink -f "$0")")"
for id in $ids; do
  out=$(./check $id $tier 2>&1); rc=$?
  echo "$id rc=$rc $(echo "$out" | grep -E "^\[$id " | head -1)"
  echo "$out" | grep -E "^VIOLATION|^\[violation\]|^\[harness-error\]" | cut -c1-400 | head -6
done
