import json,glob,os,re
props=[json.loads(l) for l in open('/verif/properties.jsonl')]
for p in props:
    pid=p['id']
    used=[]
    for d in sorted(glob.glob('/verif/seeded/%s-*'%pid)):
        try: m=json.load(open(d+'/meta.json'))
        except Exception: continue
        t=m.get('needs','').split('\n')[0]
        t=re.sub(r'^#\s*(Change|Mutant|Mutation|Bug|Seeded bug)?\s*\d*\s*[-:]*\s*','',t).split('  - Site')[0].strip()
        if t: used.append(t[:150])
    import os as _o; R=_o.environ.get('ROUND','8'); wt='/tmp/wt%s_%s'%(R,pid); out='/tmp/mut%s_out_%s'%(R,pid)
    txt=f"""You are helping to measure how good a (hidden) verification harness is. Your job is FAULT SEEDING in a scratch copy of the
Python/Cython package cherab-core (plasma spectroscopy on top of raysect). You do NOT have access to the harness and must not look for it:
work only inside your own scratch git worktree {wt} (a worktree of the repository with the compiled extensions already in place).
Never touch /repo or /verif, never commit anything.

THE PROPERTY (this is the only specification you get):
id: {pid}
title: {p['title']}
statement: {p['statement']}
quantifier: {p['quantifier']['text']}
anchored in: {', '.join(p['anchors']['files'])}

TASK: produce TWO independent source changes (change 1 and change 2) to the package, each of which
  (a) BREAKS the property above (a user relying on the statement would get a wrong result / wrong behaviour for some input, history or
      configuration inside the quantifier),
  (b) still builds, and still passes the repository's whole existing test-suite unchanged,
  (c) looks like a plausible maintainer mistake or "optimisation" (a refactoring slip, a cache, a fast path, a boundary, a dtype/container
      assumption, an off-by-one, two sites that each look fine alone), NOT sabotage and not a blunt "return wrong value always",
  (d) needs SOMETHING SPECIFIC to manifest: a multi-step sequence of operations, a particular order, an unusual-but-legal input, a boundary
      value, a rarely used entry point or keyword / construction form, two cooperating sites, state leaking between calls or between two
      objects, a particular container / dtype / memory layout ... - NOT something ordinary use exposes at once.
For each change also write a small stand-alone demonstration program demo<k>.py that exits 0 on the unchanged code and exits non-zero
(printing what is wrong) with the change applied. The demo must use only the public API, take < 60 s and judge the PROPERTY (compare with
an independent expectation - a formula, a from-scratch object, a round trip), not implementation details.

Ideas ALREADY USED in earlier rounds for this property (do something different and subtler; do not repeat these):
""" + ''.join('  - %s\n'%u for u in used) + f"""
How to work:
  * {wt}/rebuild            rebuilds the Cython extensions of the worktree in place (incremental, ~10-60 s). Needed after editing .pyx/.pxd.
  * {wt}/pyrun demo.py      runs a script against the worktree's cherab (NOT the installed one). Use this for your demos.
  * {wt}/pytest_here -q -x  runs the repository's tests against the worktree (whole suite ~1-2 min; use OMP_NUM_THREADS=1). The whole suite must pass with each change.
  * Work on one change at a time: edit -> rebuild -> demo fails -> whole test-suite passes -> `git -C {wt} diff > {out}/patch<k>.diff`
    -> `git -C {wt} checkout -- .` -> rebuild -> demo passes (exit 0) on the clean tree. Each patch must apply on its own to a clean tree (`git apply`/`patch -p1`).
  * The two changes should be at different sites / of different kinds.
  * Do not spend time reading everything: read the anchored files, pick sites, act. Budget: about 25 minutes in total. If one change proves
    hard, deliver one good one rather than two doubtful ones.
Deliver into the directory {out} (create it): patch1.diff, demo1.py, notes1.md, patch2.diff, demo2.py, notes2.md. notes<k>.md: first line
"# Change <k> - <one-line title>", then Site, Why it breaks the property, What it needs in order to manifest, What you ran (commands and
their outcomes). Leave the worktree clean (git checkout -- .) and rebuilt at the end. Final answer: a 5-line summary per change.
"""
    open('/tmp/r%s/prompt_%s.txt'%(R,pid),'w').write(txt)
print('ok')
