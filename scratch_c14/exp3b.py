import time, math, itertools, random, sys
import numpy as np
from cherab.core.math.caching import Caching1D, Caching2D, Caching3D
random.seed(3)
U=2.0**-53
rows=[]
for dim in (1,2,3):
  for rep in range(150):
        area=[]; res=[]; ncs=[]; cws=[]
        for a in range(dim):
            w = 10**random.uniform(-2,2)
            cw = random.choice([0,0.3,1,2,3,5,10])*random.choice([-1,1])
            ncell=random.randint(3,12)
            c = cw*w
            area += [c-w/2, c+w/2]; res.append(w/(ncell+random.uniform(0.01,0.99))); ncs.append(ncell); cws.append(abs(cw))
        ks=[random.uniform(0.5,2*math.pi)/(area[2*a+1]-area[2*a]) for a in range(dim)]
        ph=[random.uniform(0,6) for a in range(dim)]
        calls=[]
        def f(*p):
            calls.append(p)
            s=1.0
            for a in range(dim): s*=math.sin(ks[a]*(p[a]-area[2*a])+ph[a])
            return 3.0*s+0.7
        C=[Caching1D,Caching2D,Caching3D][dim-1]
        c=C(f, tuple(area), res[0] if dim==1 else tuple(res))
        worst=0
        for k in range(4):
            p=[random.uniform(area[2*a],area[2*a+1]) for a in range(dim)]
            c(*p)
        nodes=list(calls)
        for nd in nodes:
            try: v=c(*nd)
            except ValueError: continue
            worst=max(worst,abs(v-f(*nd)))
        # candidates
        g1=1.0; g2=1.0; g3=1.0
        for a in range(dim):
            w=area[2*a+1]-area[2*a]; d=res[a]
            X=max(abs(area[2*a]-d),abs(area[2*a+1]+d), w+2*d)
            r=ks[a]*X
            g1*= 1+r+r*r/2+r**3/6
            g2*= 1+r+r*r+r**3/2
            h=w/ncs[a]
            g3*= (1+r)**3
        rows.append((dim,worst/3.7/U,g1,g2,g3,cws,ncs))
for dim in (1,2,3):
    rr=[r for r in rows if r[0]==dim]
    for name,i in (("g1",2),("g2",3),("g3",4)):
        ratios=sorted((r[1]/r[i],r) for r in rr)
        print(dim,name,"max err/(u*g) %.3g"%ratios[-1][0],"median %.3g"%ratios[len(ratios)//2][0],"min %.3g"%ratios[0][0], ratios[-1][1][5:])
