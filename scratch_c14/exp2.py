import time, math, itertools, random
import numpy as np
from cherab.core.math.caching import Caching1D, Caching2D, Caching3D
random.seed(2)
for dim in (1,2,3):
  for cw in (0,1,3,10):
    for ncell in (3,12):
      worst=0; worstb=0
      for rep in range(8):
        area=[]; res=[]
        for a in range(dim):
            w = 10**random.uniform(-2,2)
            c = cw*w*random.choice([-1,1])
            area += [c-w/2, c+w/2]; res.append(w/(ncell+random.uniform(0.01,0.99)))
        ks=[random.uniform(0.5,2*math.pi)/(area[2*a+1]-area[2*a]) for a in range(dim)]
        ph=[random.uniform(0,6) for a in range(dim)]
        calls=[]
        def f(*p):
            calls.append(p)
            s=1.0
            for a in range(dim): s*=math.sin(ks[a]*(p[a]-area[2*a])+ph[a])
            return 3.0*s+0.7
        C=[Caching1D,Caching2D,Caching3D][dim-1]
        c=C(f, tuple(area), res[0] if dim==1 else tuple(res))
        cb=C(f, tuple(area), res[0] if dim==1 else tuple(res), function_boundaries=(-2.3-random.uniform(0,100),3.7+random.uniform(0,100)))
        for k in range(4):
            p=[random.uniform(area[2*a],area[2*a+1]) for a in range(dim)]
            c(*p)
            worstb=max(worstb,abs(cb(*p)-c(*p)))
        nodes=list(calls)
        for nd in nodes:
            try: v=c(*nd)
            except ValueError: continue
            worst=max(worst,abs(v-f(*nd)))
      print(dim,cw,ncell,"node err/scale %.2e"%(worst/3.7),"bounds diff %.2e"%(worstb/3.7),"kappa",max(1,cw**3))
