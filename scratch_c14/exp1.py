import time, math, itertools, random
import numpy as np
from cherab.core.math.caching import Caching1D, Caching2D, Caching3D
random.seed(1)
def mk(dim, cw, ncell, fb=None):
    area=[]; res=[]
    for a in range(dim):
        w = 10**random.uniform(-2,2)
        c = cw*w*random.choice([-1,1])
        area += [c-w/2, c+w/2]; res.append(w/(ncell+random.uniform(0.01,0.99)))
    return area,res
for dim in (1,2,3):
  for cw in (0,1,3,10):
    for ncell in (3,12):
      worst=0; t=0;n=0
      for rep in range(6):
        area,res=mk(dim,cw,ncell)
        co=[random.uniform(-1,1) for _ in range(2**dim)]
        # multilinear in normalised coords
        def f(*p):
            s=0
            for m,c in enumerate(co):
                term=c
                for a in range(dim):
                    if m>>a&1: term*= (p[a]-area[2*a])/(area[2*a+1]-area[2*a])*2-1
                s+=term
            return s
        C=[Caching1D,Caching2D,Caching3D][dim-1]
        c=C(f, tuple(area), res[0] if dim==1 else tuple(res))
        for k in range(6):
            p=[random.uniform(area[2*a],area[2*a+1]) for a in range(dim)]
            t0=time.process_time(); v=c(*p); t+=time.process_time()-t0;n+=1
            worst=max(worst,abs(v-f(*p)))
      scale=sum(abs(x) for x in co)
      print(dim,cw,ncell,"err/scale %.2e"%(worst/scale),"kappa",max(1,cw**3), "ms/pt %.2f"%(t/n*1e3))
