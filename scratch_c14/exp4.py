import time, math, itertools, random, sys
import numpy as np
from cherab.core.math.caching import Caching1D, Caching2D, Caching3D
random.seed(int(sys.argv[1]) if len(sys.argv)>1 else 4)
U=2.0**-53
rows=[]
for dim in (1,2,3):
  for rep in range(300 if dim<3 else 150):
        area=[]; res=[]; ncs=[]; cws=[]; cs=[]; ws=[]
        for a in range(dim):
            w = 10**random.uniform(-2,2)
            cw = random.choice([0,0.3,1,2,3,5,10])*random.choice([-1,1])
            ncell=random.randint(3,12)
            c = cw*w
            area += [c-w/2, c+w/2]; res.append(w/(ncell+random.uniform(0.01,0.99))); ncs.append(ncell); cws.append(abs(cw)); cs.append(c); ws.append(w)
        fam=random.choice(["mlin","quad","sin"])
        co=[random.uniform(-1,1) for _ in range(2**dim)]
        q=[random.uniform(-1,1) if fam=="quad" else 0.0 for _ in range(dim)]
        ks=[random.uniform(0.5,2*math.pi)/ws[a] for a in range(dim)]
        ph=[random.uniform(0,6) for a in range(dim)]
        calls=[]
        def f(*p):
            calls.append(p)
            if fam=="sin":
                s=1.0
                for a in range(dim): s*=math.sin(ks[a]*(p[a]-cs[a])+ph[a])
                return 3.0*s+0.7
            t=[(p[a]-cs[a])*(2/ws[a]) for a in range(dim)]
            s=0
            for m,c_ in enumerate(co):
                term=c_
                for a in range(dim):
                    if m>>a&1: term*=t[a]
                s+=term
            for a in range(dim): s+=q[a]*t[a]*t[a]
            return s
        ext=[1+2*res[a]/ws[a] for a in range(dim)]
        if fam=="sin": scale=3.7
        else:
            scale=0
            for m,c_ in enumerate(co):
                term=abs(c_)
                for a in range(dim):
                    if m>>a&1: term*=ext[a]
                scale+=term
            for a in range(dim): scale+=abs(q[a])*ext[a]**2
        C=[Caching1D,Caching2D,Caching3D][dim-1]
        lo=-scale*(1+random.choice([0,1,10,100])*random.random()); hi=scale*(1+random.choice([0,1,10,100])*random.random())
        S=max(scale,abs(lo),abs(hi))
        c=C(f, tuple(area), res[0] if dim==1 else tuple(res))
        cb=C(f, tuple(area), res[0] if dim==1 else tuple(res), function_boundaries=(lo,hi))
        worst=0; worstb=0
        for k in range(4):
            p=[random.uniform(area[2*a],area[2*a+1]) for a in range(dim)]
            worstb=max(worstb,abs(c(*p)-cb(*p)))
        nodes=list(calls)
        for nd in nodes:
            try: v=c(*nd); vb=cb(*nd)
            except ValueError: continue
            worst=max(worst,abs(v-f(*nd)))
            worstb=max(worstb,abs(vb-f(*nd)))
        g=1.0
        for a in range(dim):
            w=ws[a]; d=res[a]
            X=max(abs(area[2*a]-d),abs(area[2*a+1]+d), w+2*d)
            r=(ks[a] if fam=="sin" else 2/w)*X
            g*= (1+r)**3
        rows.append((dim,fam,worst/scale/U/g,worstb/S/U/g,g,cws,ncs))
for dim in (1,2,3):
  for fam in ("mlin","quad","sin"):
    rr=[r for r in rows if r[0]==dim and r[1]==fam]
    for name,i in (("node",2),("bnds",3)):
        ratios=sorted((r[i],r) for r in rr)
        print(dim,fam,name,"max err/(u*kappa*S) %.3g"%ratios[-1][0],"median %.3g"%ratios[len(ratios)//2][0], "kappa %.3g"%ratios[-1][1][4], ratios[-1][1][5:])
  rr=[r for r in rows if r[0]==dim and r[4]<=1e7]
  print(dim,"kappa<=1e7:",len(rr),"max node %.3g bnds %.3g"%(max(r[2] for r in rr),max(r[3] for r in rr)))
