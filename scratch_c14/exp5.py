import math, random, sys
from cherab.core.math.caching import Caching1D, Caching2D, Caching3D
random.seed(7); U=2.0**-53
def trial(dim, nrange, fam):
    area=[];res=[];cs=[];ws=[]
    for a in range(dim):
        w=10**random.uniform(-2,2); cw=random.choice([0,0.3,1,3,10])*random.choice([-1,1]); n=random.choice(nrange)
        c=cw*w; area+=[c-w/2,c+w/2]; cs.append(c); ws.append(w)
        if n==0: res.append(w*random.uniform(1.05,2.0))
        else: res.append(w/(n+random.uniform(0.05,0.95)))
    ks=[random.uniform(0.5,2*math.pi)/ws[a] for a in range(dim)]; ph=[random.uniform(0,6) for _ in range(dim)]
    co=[random.uniform(-1,1) for _ in range(2**dim)]; q=[random.uniform(-1,1) if fam=="quad" else 0 for _ in range(dim)]
    calls=[]
    def f(*p):
        calls.append(p)
        if fam=="sin":
            s=1.0
            for a in range(dim): s*=math.sin(ks[a]*(p[a]-cs[a])+ph[a])
            return s
        t=[(p[a]-cs[a])*(2/ws[a]) for a in range(dim)]; s=0
        for m,c_ in enumerate(co):
            term=c_
            for a in range(dim):
                if m>>a&1: term*=t[a]
            s+=term
        for a in range(dim): s+=q[a]*t[a]*t[a]
        return s
    ext=[1+2*res[a]/ws[a] for a in range(dim)]
    if fam=="sin": S=1.0
    else:
        S=0
        for m,c_ in enumerate(co):
            term=abs(c_)
            for a in range(dim):
                if m>>a&1: term*=ext[a]
            S+=term
        for a in range(dim): S+=abs(q[a])*ext[a]**2
    g=1.0
    for a in range(dim):
        d=res[a]; X=max(abs(area[2*a]-d),abs(area[2*a+1]+d),ws[a]+2*d)
        r=(ks[a] if fam=="sin" else 2/ws[a])*X
        g*=(1+r)**({"mlin":1,"quad":2,"sin":3}[fam])
    C=[Caching1D,Caching2D,Caching3D][dim-1]
    c=C(f,tuple(area),res[0] if dim==1 else tuple(res))
    for k in range(4): c(*[random.uniform(area[2*a],area[2*a+1]) for a in range(dim)])
    worst=0
    for nd in list(calls)[:40]:
        try: v=c(*nd)
        except ValueError: continue
        worst=max(worst,abs(v-f(*nd)))
    return worst/S/U/g, g
for dim,nr,label in ((3,[13,14,16],"l16"),(3,[13,14,16],"l16b"),(2,[40,70],"l70")):
    for fam in ("mlin","quad","sin"):
        rs=[trial(dim,nr,fam) for _ in range(120 if dim<3 else 60)]
        ok=[r for r,g in rs if g<=1e7]
        print(dim,label,fam,"max ratio all %.3g"%max(r for r,g in rs),"kappa<=1e7: %.3g (%d)"%(max(ok) if ok else 0,len(ok)))
