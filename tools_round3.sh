#!/bin/bash
# usage: tools_round3.sh C01 C02 ...   -- measures the round-3 seeded changes delivered in /tmp/mut3_out_<ID> (sequentially)
cd /verif
for id in "$@"; do
  d=/tmp/mut3_out_$id
  for k in 1 2; do
    [ -f $d/patch$k.diff ] && [ -f $d/demo$k.py ] || { echo "$id k=$k: deliverables missing"; continue; }
    [ -f seeded/$id-r3mut$k/meta.json ] && { echo "$id-r3mut$k already measured"; continue; }
    needs=$(head -c 700 $d/notes$k.md 2>/dev/null | tr '\n' ' ')
    echo "=== $id-r3mut$k"
    python3 tools_seeded.py $id $id-r3mut$k $d/patch$k.diff $d/demo$k.py --needs "$needs" 2>&1 | grep -vE "^\s*$" | tail -8
  done
done
