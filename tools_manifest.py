#!/usr/bin/env python3
"""Regenerates MANIFEST.json from the table below (keeps it schema-valid at all times)."""
import json, os
HERE = os.path.dirname(os.path.abspath(__file__))
ALL = ["C%02d" % i for i in range(1, 21)]

BASE_NOTE = ("Trusted base: numpy/scipy/raysect/hypothesis as installed in /venv, the oracle code of this property "
             "under /verif/vf, and the stated tolerances. Exploration, not proof: holds on the generated cases only.")

CHECKS = {
 "C02": dict(engine="hypothesis-given", technique="generated plasma states / tables / windows; oracles: total on covering window, bin-average by grid nesting, in-window fraction vs aligned reference grid, absolute erf / hyp2f1 bins from documented formulas, pi+sigma=no, linearity",
             text="For each of the 7 line-shape classes, generated states (T<=0, flow, B at a chosen angle, un-normalised view), tables and spectral windows (containing / cutting / beside / one bin / fine). Decides normalisation (1e-9 R for Gaussian-built shapes), bin averaging (nesting), in-window fraction, polarisation split and stated ratios, zero-width. Stark is decided to 5e-5 R with the default integrator on the generated grids as they are (the coarse-bin defect found here was repaired) and to 2e-6 R with a tight integrator; one model object is also asked at two points of a two-state plasma (A, B, A) against fresh models in uniform plasmas, and after a second instance was used.",
             ref="DESIGN.md section 3, C02"),
 "C01": dict(engine="hypothesis-stateful", technique="stateful differential testing: live scene mutated through public setters vs scene rebuilt from the final configuration record (three RuleBasedStateMachines)",
             text="Three state machines (plasma with passive models; plasma + beam with attenuator and beam models; plasma + laser with Thomson scattering) apply every public mutator to a live raysect scene and to a JSON record, with an observation (traced sight lines, beam density/direction samples, z_effective/ion_density) after two thirds of the mutators; each observation is compared with a scene built from scratch from the record by one canonical builder (1e-9, same exception type). Decides order/history independence for the generated histories (<= 25 steps; half of them restricted to the rules of one theme, 'assign the same object again' rules included, the rays' spectral settings alternating between observations).",
             ref="DESIGN.md section 3, C01"),
 "C07": dict(engine="enumeration+hypothesis-given", technique="generated repositories written through update_*; oracle: table x independently computed conversion at every grid point, range / missing-data policy matrix over all accessors and flag combinations",
             text="Every OpenADAS accessor is exercised on generated repository content for all 8 flag combinations, elements and isotopes, present and missing keys: grid-point reproduction after the documented unit conversion (1e-9), non-negativity, zeros for non-positive arguments, raise/finite outside the tabulated range, isotope = element rates, RuntimeError or everywhere-zero null rates for missing data. A deterministic accessor x flag matrix runs in every tier.",
             ref="DESIGN.md section 3, C07"),
 "C08": dict(engine="hypothesis-given", technique="independent ADF11/12/15/21/22 writers -> parser -> expected tables after documented conversions; install_* -> repository round trip; rejection of mismatching / incomplete files",
             text="Files are produced by independent writers of the published ADF formats (values on the printed-precision lattice, any grid sizes and block counts, all header styles), parsed, compared element by element with the generated numbers after the documented conversions and axis conventions (1e-12), installed into a temporary repository and read back; mismatching ADF11 headers and absent blocks must raise; nothing may be written outside the repository path.",
             note="Trusted base as for the other checks, plus: the writers encode the published ADAS FORMAT statements from memory (no real ADAS file is available offline); header layouts of ADF12/21/22 and the ADF15 comment index are corroborated by, not independent of, the parser sources. What is independent: values per line, array boundaries, section and flattening order, the numbers and conversions.",
             ref="DESIGN.md section 3, C08"),
 "C09": dict(engine="hypothesis-given", technique="generated analytic rate sets; oracle: exact two-term recursion in extended precision, conservation identities, representation-independence differential",
             text="Fractional abundances, from_elementdensity, match_plasma_neutrality, interpolator and equilibrium-mapped entry points are compared with the exact steady-state recursion (log-space longdouble) within an a-priori bound 20 eps cond2(A), with particle/charge conservation, non-negativity and equality across scalar / ndarray / Function1D / Function2D inputs. Ill-conditioned rate sets run in a forked child under a time limit and are a recorded known finding.",
             ref="DESIGN.md section 3, C09"),
 "C12": dict(engine="hypothesis-given", technique="real and synthetic (analytic psi) equilibria; oracle: composition with psi_normalised, own point-in-polygon, analytic flux within a derived interpolation bound, orthonormal-basis identities, own rotation matrices",
             text="map2d/map3d/map_vector2d/3d, psi_normalised >= 0, the toroidal/poloidal/normal basis and the magnetic field are checked on the bundled example and Generomak equilibria (both signs via psi -> s psi + c) and on synthetic ellipse / Solov'ev grids against analytic values within a derived third-order interpolation bound; algebraic identities at 1e-10.",
             ref="DESIGN.md section 3, C12"),
 "C15": dict(engine="hypothesis-stateful", technique="stateful model-based testing of every observer-group class against a list-of-dicts reference model; (class x attribute) coverage enforced",
             text="A RuleBasedStateMachine per group class (7 classes) applies add / assign scalar / assign sequence (right and wrong length) / rename / replace / index / observe and compares every member attribute, group getter, parentage, lookup and observe count with the model after every rule; every (class, attribute) pair must be exercised in each run; a second group of the same class is interleaved (interference), scalars equal to values held by some members, and an enumerated pass over groups of 255-1000 members.",
             ref="DESIGN.md section 3, C15"),
 "C16": dict(engine="hypothesis-stateful+hypothesis-given", technique="fresh-instrument differential after generated setter histories; inequality checks; exact rational integration oracle for calibration",
             text="Spectrometer, CzernyTurnerSpectrometer and Polychromator: after any generated setter history every cached setting, pipeline class/kwargs and created pipeline equals that of an instrument constructed directly with the final parameters; range-covers-pixels and bin-width inequalities; calibrate() conserves the exact integral of the raysect spectrum over each pixel, with additivity, constant and linear relations.",
             ref="DESIGN.md section 3, C16"),
 "C17": dict(engine="hypothesis-given", technique="exact rational shoelace/centroid oracle over all vertex orders; seeded sampling with non-asymptotic Bernstein bounds against exact area fractions and moments",
             text="Area, centroid and Pappus volume of generated simple polygons are compared with exact rational arithmetic for all 2n vertex orders; grid total volume = sum; emissivity_from_function: constants exact, sample points inside, hit fractions over an independent triangulation and first/second moments within 6-sigma-equivalent Bernstein bounds (RNG seeded from the case), also pooled over many calls at small sample counts incl. the default; polygon scales 1e-6 ... 1e3 m with scale-covariance relations.",
             ref="DESIGN.md section 3, C17"),
 "C03": dict(engine="hypothesis-given", technique="generated compositions and analytic mock rates; oracle: documented formulas re-evaluated in plain Python (scipy.quad for bremsstrahlung), exact guards, metamorphic linearity",
             text="Passive models (ExcitationLine, RecombinationLine, ThermalCXLine, TotalRadiatedPower, Bremsstrahlung) are called directly on real Plasma/Species objects with parameterised mock rates that depend on every argument and key. Window totals must equal the documented expressions (1e-9; bremsstrahlung per bin 1e-4 vs scipy.quad of Hutchinson 5.3.40), non-positive dependencies give exactly nothing, output is non-negative and linear in each density.",
             ref="DESIGN.md section 3, C03"),
 "C05": dict(engine="hypothesis-given", technique="generated beam/plasma states with analytic mock beam rates; oracle: statement's population-weighted mean / charged sum in plain Python, argument logging, min<=q<=max",
             text="BeamCXLine and BeamEmissionLine emission() are called directly with mock rates that depend on every argument and key; window totals must equal (1/4pi) n_b n_r q with the population-weighted mean q (bounded by the individual coefficients) and (1/4pi) n_b sum Z_i n_i q_i; the arguments each coefficient receives (interaction energy, temperature, total ion density, Z_eff, |B|, equivalent density) are compared with an independent evaluation; exact zeros for zero beam/receiver density; a second instance interleaved (interference / repeat relations); sub-check 'scene': BeamMaterial.emission_function under generated placements of beam and plasma vs model.emission with plasma-space arguments from own matrices.",
             ref="DESIGN.md section 3, C05"),
 "C10": dict(engine="hypothesis-given", technique="rays built by construction (edges, corners, tangential, inside, axis-parallel); oracle: exact event-based chord lengths per cell with own matrices, merged-map and periodicity metamorphic relations, sample-exact replica of the documented midpoint scheme",
             text="RayTransferBox / RayTransferCylinder with generated grids, masks, voxel maps, steps and rigid transforms are traced with rays aimed at the interesting places; per-source entries must lie within max(2, k) integration steps of the exact chord (k = separate sub-chords), totals within (#active runs) steps, untouched / masked / -1 cells exactly 0, merged maps equal sums of their cells, rotated rays obey the period, and any exception is a violation. The thorough tier draws grids up to 14 cells per axis.",
             ref="DESIGN.md section 3, C10"),
 "C14": dict(engine="hypothesis-given", technique="recording wrapped functions with known derivatives; oracles: bit-identical results across evaluation orders and fresh caches, node reproduction, multilinear exactness, a-priori h^2 curvature bound, outside-area policy, bounds-invariance differential",
             text="Caching1D/2D/3D: the same points evaluated in two generated orders and alone on fresh caches must return bit-identical values; nodes (the recorded call arguments) reproduce f, multilinear functions are exact, twice-differentiable ones within 1.0 * sum h_a^2 max|d2f/da2| (2.4x the derived constant), outside points raise or pass through exactly, function_boundaries modes agree.",
             ref="DESIGN.md section 3, C14"),
 "C11": dict(engine="hypothesis-given", technique="generated matrices (rank-deficient, zero rows/columns); oracles: independent numpy SART reference, KKT certificate for NNLS, normal equations for LSQ/SVD",
             text="SART / constrained SART are compared with a 30-line numpy transcription of the documented update rule (iterate and convergence list, 1e-10), fixed points and non-negativity; regularised NNLS is certified by the KKT conditions on the stacked system, LSQ and SVD by the normal equations (and minimum norm), reported residual norms are recomputed. After the calls of a case the caller edits matrix / measurements in place and calls again on the same objects (certified against the edited problem). The thorough tier draws matrices up to 40 x 40.",
             ref="DESIGN.md section 3, C11"),
 "C13": dict(engine="hypothesis-given", technique="recording injective Python callables wrapped by each mapper/sampler; oracle: exact mapped argument (Fraction arithmetic for periodic), own rotation matrices, rational crossing-number polygon test",
             text="Every coordinate-mapping wrapper, clamp, slice, swizzle, periodic transform, polygon mask and sampler is fed generated edge-class arguments; the argument the wrapped function receives and the value returned are compared with the mathematically mapped ones (exactly where the mapping is exact, within stated ulps for hypot/atan2).",
             ref="DESIGN.md section 3, C13"),
 "C18": dict(engine="hypothesis-given+hypothesis-stateful", technique="quadrature of energy density vs E_p/(c tau); segment tiling invariant; erf/overlap oracle for spectra; stateful setter sequences vs freshly constructed object",
             text="Laser profiles: cross-section (or volume) integrals by independent quadrature must equal the documented energy; generated segments must tile [0, L] exactly once; spectra: per-bin power vs normal-CDF / overlap integrals; history: RuleBasedStateMachine over every public setter, every observable and accessor compared with a fresh object built from the final parameters (accessors also with the parameters themselves). Copies (copy / deepcopy / pickle) taken during a history must stay equal to a fresh object with the parameters they were copied with.",
             ref="DESIGN.md section 3, C18"),
 "C20": dict(engine="hypothesis-given", technique="polynomial exactness of the stencils; metamorphic anisotropy-1 identity on every row; refinement study against the continuous operator",
             text="Derivative operators are checked for exactness on constants / linear / bilinear / quadratic fields in the cells the statement names; the ADMT operator must be finite, annihilate constants, equal (Dxx+Dyy+diag(1/R)Dx)*sqrt(dx dy) entrywise for anisotropy 1 on any flux map, and converge (error ratio >= 1.6 per halving, < 5 % on the finest grid) to the continuous field-aligned diffusion operator for smooth flux maps. calculate_admt is also called three times on one operators dict and one flux-map buffer refilled in place (bit-equal to fresh copies). The thorough tier draws grids up to 24 x 24.",
             ref="DESIGN.md section 3, C20"),
 "C04": dict(engine="hypothesis-given", technique="generated beams/plasmas/stopping tables; oracle: independent cross-section quadrature vs particle-rate * exp(-tau) with tau by scipy.quad over own transforms; RK4 streamline invariants",
             text="Generated beam parameters, placements, attenuator settings, 1-3 ion species with non-uniform profiles and analytic stopping coefficients. The cross-section integral of Beam.density (48x48 Gauss-Legendre; polar rule inside the clamp ellipse) must equal P/(E m)/v * exp(-tau(z)) within the a-priori error bound of the documented trapezoid/linear-interpolation scheme; plus monotone on-axis decay, zeros outside [0,L] and outside the clamp, unit direction field whose streamlines keep x/sigma_x and y/sigma_y. A second live beam fed by the same plasma (repeat / alone relations), hollow plasmas with exactly zero density between lobes, and direction vectors kept across later calls are part of every run.",
             ref="DESIGN.md section 3, C04"),
 "C06": dict(engine="hypothesis-stateful", technique="stateful model-based testing: repository vs dict reference model, bit-for-bit read-back, file-set and stray-write invariants",
             text="Rule-based state machine over all add_*/update_* functions of the 14 rate families (batched updates, rejected updates, reads) against a dict model keyed as the property states; every key is read back bit for bit (uint64 view), never-written neighbours must raise RuntimeError, the set of files must equal the set implied by the writes, nothing may appear outside the (generated, oddly named) repository directory and a redirected HOME must stay empty; install_adf11* (directly and through install_files) and install_adf15 fed by independent writers; rejected updates incl. invalid content aimed at files that already hold data. Exploration of generated histories (<=30 steps). Transition spellings that look like numbers ('03', ' 3', '+3', '3_0', '3.0') are keys of their own.",
             ref="DESIGN.md section 3, C06"),
 "C19": dict(engine="enumeration+hypothesis-given", technique="exhaustive enumeration of the registry + generated Line pairs against a tuple-equality model",
             text="Finite registry: every exported Element/Isotope x every identifier kind x letter-case spellings is looked up and must return the same object; all ordered species pairs are compared for ==/!=/hash; Z is compared with an independent periodic table. Look-ups are repeated after equal copies and user-defined species were constructed; copies by constructor, pickle, deepcopy and cloned parent must be equal, equally hashed dict keys. Exhaustive over the objects, so exploration is complete for the registry; Line equality/hash (incl. other numeric spellings of a transition) is sampled with Hypothesis. Species and lines pickled by child interpreters with other hash seeds must equal, hash like and be found by the local objects.",
             ref="DESIGN.md section 3, C19"),
}

def main():
    checks = []
    for pid in ALL:
        if pid not in CHECKS:
            continue
        c = CHECKS[pid]
        checks.append({
            "property_id": pid,
            "quick_cmd": "./check %s quick" % pid,
            "thorough_cmd": "./check %s thorough" % pid,
            "evidence_file": "evidence/%s.json" % pid,
            "replay_cmd_template": "./check %s --replay {path}" % pid,
            "engine": c["engine"],
            "level_claimed": {"category": "exploration", "text": c["text"], "design_ref": c["ref"]},
            "level_note": c.get("note", BASE_NOTE),
            "technique": c["technique"],
        })
    na = [{"property_id": p, "reason": "check not built yet (planned, see DESIGN.md section 3); the technique applies"}
          for p in ALL if p not in CHECKS]
    m = {
        "version": 1,
        "setup_cmd": "/venv/bin/pip install --no-index --find-links /opt/veriftools/wheels hypothesis >/dev/null 2>&1; cd /repo && /venv/bin/python setup.py build_ext -j16 --inplace >/dev/null 2>&1; cd /verif && /venv/bin/python -c 'import hypothesis, cherab.core, raysect; print(\"setup ok\", hypothesis.__version__)'",
        "hooks": {"guard": "VSNEVER_CHERAB_CORE_VERIF",
                  "enable": "no source hooks are needed: every property is observed through the public Python API; ./check exports VSNEVER_CHERAB_CORE_VERIF=1 and rebuilds /repo in place (setup.py build_ext --inplace) before each run",
                  "baseline_off_cmd": "cd /repo && /venv/bin/python -m pytest -ra -q -p no:cacheprovider --timeout=900 --continue-on-collection-errors",
                  "source_commits": [], "add_only": True},
        "engines": [
            {"name": "hypothesis-given", "path": "vf/core.py", "kind_free_text": "Hypothesis @given over JSON-able cases, explicit oracle per property, seeded from VERIF_SEED, sharded over processes"},
            {"name": "hypothesis-stateful", "path": "vf/core.py", "kind_free_text": "Hypothesis RuleBasedStateMachine built from a model class (one rule per operation, invariant after every step), op log = replay file"},
            {"name": "enumeration", "path": "vf/core.py", "kind_free_text": "exhaustive enumeration of finite domains"},
        ],
        "checks": checks,
        "not_applicable": na,
        "notes": "Entry point ./check <ID> quick|thorough|--replay <file>; exit 0 held, 1 VIOLATION (+replay file under replays/<ID>/), 2 harness error / inconclusive. Known findings: known_findings.json.",
    }
    for e in m["engines"]:
        e["serves_properties"] = [c["property_id"] for c in checks if e["name"] in c["engine"]]
    with open(os.path.join(HERE, "MANIFEST.json"), "w") as f:
        json.dump(m, f, indent=1)
    print("MANIFEST.json: %d checks, %d not_applicable" % (len(checks), len(na)))

if __name__ == "__main__":
    main()
