"""Parameterised mock atomic data (DESIGN 2.7).

Everything is driven by a JSON-able parameter dict

    params = {"tag": "A" | "B" | ...,        # two providers with different tags are distinguishable
              "seed": int,                    # drawn in the case
              "zero": ["kind", ...],          # kinds whose coefficient is identically 0.0 (optional)
              "scale": {"kind": factor},      # multiplies q0 of one kind (optional)
              "wavelengths": {"carbon|5|8,7": 529.1},     # explicit natural wavelengths (optional)
              "gaunt": "mock" | "maxwellian", # what free_free_gaunt_factor() returns (default "mock")
              "beam_meta": [1, 2]}            # metastables returned by beam_cx_pec (default [1])

Every rate is a smooth positive power law of ALL its arguments,

    q(x_1..x_m) = q0 * prod_i (x_i / ref_i) ** e_i ,      |e_i| >= 0.05,

whose q0 and exponents are derived with SHA-256 from (tag, seed, kind, key) where key is the full identity
of the rate (element, charge, transition, donor element, donor charge, metastable ...).  Distinct keys give
distinct functions, so handing a model the wrong density / temperature / species / donor / charge changes
the number it computes.  The same function objects (`RateFn`) are what the oracle calls in plain Python:

    fn = rate_fn(params, "thermal_cx_pec", "deuterium", 0, "carbon", 6, (8, 7));   fn(ne, te, td)

`MockAtomicData(params)` is a Python subclass of cherab's AtomicData returning Python subclasses of the rate
base classes that evaluate exactly these functions.  It logs `requests` (kind, key) and `bad_calls` (a rate
evaluated with a non-positive or non-finite argument: the factor of that argument is then taken as 1).
"""
import hashlib
import math

from cherab.core.atomic import AtomicData, ZeemanStructure, MaxwellianFreeFreeGauntFactor
from cherab.core.atomic import elements as EL
from cherab.core.atomic.rates import IonisationRate, RecombinationRate, ThermalCXRate, ImpactExcitationPEC, \
    RecombinationPEC, ThermalCXPEC, BeamCXPEC, BeamStoppingRate, BeamPopulationRate, BeamEmissionPEC, \
    LineRadiationPower, ContinuumPower, CXRadiationPower
from cherab.core.atomic.gaunt import FreeFreeGauntFactor

# kind -> (typical magnitude q0, [(argument name, reference value, min |exponent|, max |exponent|), ...])
SPEC = {
    "ionisation_rate":               (1e-14, [("ne", 1e19, 0.05, 0.30), ("te", 10.0, 0.20, 0.90)]),
    "recombination_rate":            (1e-19, [("ne", 1e19, 0.05, 0.30), ("te", 10.0, 0.20, 0.90)]),
    "thermal_cx_rate":               (1e-15, [("ne", 1e19, 0.05, 0.30), ("te", 10.0, 0.20, 0.90)]),
    "impact_excitation_pec":         (1e-39, [("ne", 1e19, 0.05, 0.30), ("te", 10.0, 0.20, 0.90)]),
    "recombination_pec":             (1e-40, [("ne", 1e19, 0.05, 0.30), ("te", 10.0, 0.20, 0.90)]),
    "thermal_cx_pec":                (1e-37, [("ne", 1e19, 0.05, 0.30), ("te", 10.0, 0.20, 0.90), ("td", 10.0, 0.10, 0.70)]),
    "line_radiated_power_rate":      (1e-32, [("ne", 1e19, 0.05, 0.30), ("te", 10.0, 0.20, 0.90)]),
    "continuum_radiated_power_rate": (1e-33, [("ne", 1e19, 0.05, 0.30), ("te", 10.0, 0.20, 0.90)]),
    "cx_radiated_power_rate":        (1e-31, [("ne", 1e19, 0.05, 0.30), ("te", 10.0, 0.20, 0.90)]),
    "beam_cx_pec":                   (1e-34, [("energy", 5e4, 0.10, 0.60), ("temperature", 1e3, 0.05, 0.40), ("density", 1e19, 0.05, 0.30),
                                              ("z_effective", 2.0, 0.05, 0.40), ("b_field", 3.0, 0.05, 0.30)]),
    "beam_stopping_rate":            (1e-14, [("energy", 5e4, 0.10, 0.60), ("density", 1e19, 0.05, 0.30), ("temperature", 1e3, 0.05, 0.40)]),
    "beam_population_rate":          (1e-2,  [("energy", 5e4, 0.10, 0.60), ("density", 1e19, 0.05, 0.30), ("temperature", 1e3, 0.05, 0.40)]),
    "beam_emission_pec":             (1e-35, [("energy", 5e4, 0.10, 0.60), ("density", 1e19, 0.05, 0.30), ("temperature", 1e3, 0.05, 0.40)]),
    "free_free_gaunt_factor":        (1.2,   [("z", 2.0, 0.05, 0.30), ("te", 100.0, 0.05, 0.30), ("wavelength", 500.0, 0.05, 0.30)]),
}


def el_name(x):
    """Element object or name -> canonical name string."""
    return x if isinstance(x, str) else x.name


def element(x):
    """Name -> cherab Element / Isotope object."""
    return getattr(EL, x) if isinstance(x, str) else x


def tr_key(transition):
    """(8, 7) / [8, 7] / ('2s1 3p1', '2s1 3s1') -> canonical string."""
    if transition is None:
        return ""
    return ",".join(str(t) for t in transition)


def _norm_key(key):
    out = []
    for k in key:
        if isinstance(k, (tuple, list)):
            out.append(tr_key(k))
        elif isinstance(k, (int, str)):
            out.append(k)
        elif isinstance(k, float):
            out.append(repr(k))
        else:
            out.append(el_name(k))
    return tuple(out)


def uniforms(*key):
    """Eight deterministic numbers in [0, 1) from an arbitrary key (SHA-256, independent of PYTHONHASHSEED)."""
    h = hashlib.sha256(repr(key).encode()).digest()
    return [int.from_bytes(h[4 * i:4 * i + 4], "big") / 4294967296.0 for i in range(8)]


class RateFn:
    """q0 * prod (x_i / ref_i) ** e_i ; plain Python, used both by the mock rate objects and by oracles."""

    def __init__(self, kind, key, q0, refs, exps, names, log=None):
        self.kind, self.key, self.q0, self.refs, self.exps, self.names = kind, key, q0, refs, exps, names
        self.log = log

    def __call__(self, *args):
        if len(args) != len(self.refs):
            raise TypeError("%s takes %d arguments (%s), got %d" % (self.kind, len(self.refs), ", ".join(self.names), len(args)))
        q = self.q0
        for x, r, e in zip(args, self.refs, self.exps):
            if not (x > 0.0) or math.isinf(x):
                if self.log is not None:
                    self.log.append((self.kind, self.key, [float(a) for a in args]))
                continue
            q *= (x / r) ** e
        return q

    def __repr__(self):
        return "<RateFn %s%r q0=%.4g exps=%s>" % (self.kind, self.key, self.q0, ["%.3f" % e for e in self.exps])


def rate_fn(params, kind, *key, log=None):
    """The analytic function of rate `kind` with identity `key` for provider `params`."""
    mag, args = SPEC[kind]
    key = _norm_key(key)
    u = uniforms(params.get("tag", "A"), int(params.get("seed", 0)), kind, key)
    if kind in params.get("zero", ()):
        q0 = 0.0
    else:
        q0 = mag * 10.0 ** (u[0] - 0.5) * float(params.get("scale", {}).get(kind, 1.0))
    refs, exps, names = [], [], []
    for i, (name, ref, lo, hi) in enumerate(args):
        mag_e = lo + (hi - lo) * u[1 + i]
        sign = -1.0 if (int(u[7] * 256) >> i) & 1 else 1.0
        refs.append(ref)
        exps.append(sign * mag_e)
        names.append(name)
    return RateFn(kind, key, q0, refs, exps, names, log)


def wavelength_fn(params, el, charge, transition):
    """Natural wavelength in nm: explicit table entry or a deterministic value in [200, 900)."""
    k = "%s|%d|%s" % (el_name(el), charge, tr_key(transition))
    table = params.get("wavelengths") or {}
    if k in table:
        return float(table[k])
    u = uniforms(params.get("tag", "A"), int(params.get("seed", 0)), "wavelength", k)
    return 200.0 + 700.0 * u[0]


def zeeman_triplet_fn(params, el, charge, transition):
    """(alpha [nm/T], beta, gamma) of the parametrised Zeeman triplet; sigma grows by at most 12 %."""
    u = uniforms(params.get("tag", "A"), int(params.get("seed", 0)), "zeeman_triplet", el_name(el), charge, tr_key(transition))
    return (1e-3 + 0.199 * u[0], 0.5 * u[1], -0.5 * u[2])


def stark_fn(params, el, charge, transition):
    """(c_ij, a_ij, b_ij): FWHM = c ne^a / te^b is 1e-5..1e-3 of 500 nm at ne = 1e20, te = 5."""
    u = uniforms(params.get("tag", "A"), int(params.get("seed", 0)), "stark", el_name(el), charge, tr_key(transition))
    a, b = 0.3 + 0.9 * u[0], 0.01 + 0.59 * u[1]
    rel = 10.0 ** (-5.0 + 2.0 * u[2])
    return (rel * 500.0 * 5.0 ** b / 1e20 ** a, a, b)


# ---------------------------------------------------------------------------------------------- rate objects
def _two_arg(base):
    class Mock(base):
        def __init__(self, fn):
            self.fn = fn

        def evaluate(self, density, temperature):
            return self.fn(density, temperature)
    Mock.__name__ = Mock.__qualname__ = "Mock" + base.__name__
    return Mock


MockIonisationRate = _two_arg(IonisationRate)
MockRecombinationRate = _two_arg(RecombinationRate)
MockThermalCXRate = _two_arg(ThermalCXRate)
MockImpactExcitationPEC = _two_arg(ImpactExcitationPEC)
MockRecombinationPEC = _two_arg(RecombinationPEC)


class MockThermalCXPEC(ThermalCXPEC):
    def __init__(self, fn):
        self.fn = fn

    def evaluate(self, electron_density, electron_temperature, donor_temperature):
        return self.fn(electron_density, electron_temperature, donor_temperature)


def _power(base):
    class Mock(base):
        def __init__(self, element, charge, fn):
            super().__init__(element, charge)
            self.fn = fn

        def evaluate(self, electron_density, electron_temperature):
            return self.fn(electron_density, electron_temperature)
    Mock.__name__ = Mock.__qualname__ = "Mock" + base.__name__
    return Mock


MockLineRadiationPower = _power(LineRadiationPower)
MockContinuumPower = _power(ContinuumPower)
MockCXRadiationPower = _power(CXRadiationPower)


class MockBeamCXPEC(BeamCXPEC):
    def __init__(self, donor_metastable, fn):
        super().__init__(donor_metastable)
        self.fn = fn

    def evaluate(self, energy, temperature, density, z_effective, b_field):
        return self.fn(energy, temperature, density, z_effective, b_field)


def _beam(base):
    class Mock(base):
        def __init__(self, fn):
            self.fn = fn

        def evaluate(self, energy, density, temperature):
            return self.fn(energy, density, temperature)
    Mock.__name__ = Mock.__qualname__ = "Mock" + base.__name__
    return Mock


MockBeamStoppingRate = _beam(BeamStoppingRate)
MockBeamPopulationRate = _beam(BeamPopulationRate)
MockBeamEmissionPEC = _beam(BeamEmissionPEC)


class MockGauntFactor(FreeFreeGauntFactor):
    """g(z, te, wavelength) = RateFn; usable as the provider's Gaunt factor or as a user-supplied one."""

    def __init__(self, fn):
        self.fn = fn

    def evaluate(self, z, temperature, wavelength):
        return self.fn(z, temperature, wavelength)


_MAXWELLIAN = []


def maxwellian_gaunt():
    """One shared instance of the real MaxwellianFreeFreeGauntFactor (building it costs a JSON load)."""
    if not _MAXWELLIAN:
        _MAXWELLIAN.append(MaxwellianFreeFreeGauntFactor())
    return _MAXWELLIAN[0]


def gaunt_fn(params, *key, log=None):
    """Plain-Python g(z, te, wavelength) of the provider: mock power law or the real Maxwellian table."""
    if params.get("gaunt", "mock") == "maxwellian":
        return maxwellian_gaunt()
    return rate_fn(params, "free_free_gaunt_factor", *key, log=log)


# ---------------------------------------------------------------------------------------------- the provider
class MockAtomicData(AtomicData):
    """AtomicData whose every rate is the analytic function rate_fn(params, kind, *key)."""

    def __init__(self, params):
        super().__init__()
        self.params = dict(params)
        self.tag = self.params.get("tag", "A")
        self.requests = []      # (kind, normalised key) in request order
        self.bad_calls = []     # (kind, key, args) of evaluations with a non-positive / non-finite argument

    def _fn(self, kind, *key):
        self.requests.append((kind, _norm_key(key)))
        return rate_fn(self.params, kind, *key, log=self.bad_calls)

    def __repr__(self):
        return "<MockAtomicData %s seed=%s>" % (self.tag, self.params.get("seed"))

    def wavelength(self, ion, charge, transition):
        self.requests.append(("wavelength", _norm_key((ion, charge, transition))))
        return wavelength_fn(self.params, ion, charge, transition)

    def ionisation_rate(self, ion, charge):
        return MockIonisationRate(self._fn("ionisation_rate", ion, charge))

    def recombination_rate(self, ion, charge):
        return MockRecombinationRate(self._fn("recombination_rate", ion, charge))

    def thermal_cx_rate(self, donor_ion, donor_charge, receiver_ion, receiver_charge):
        return MockThermalCXRate(self._fn("thermal_cx_rate", donor_ion, donor_charge, receiver_ion, receiver_charge))

    def beam_cx_pec(self, donor_ion, receiver_ion, receiver_charge, transition):
        return [MockBeamCXPEC(int(m), self._fn("beam_cx_pec", donor_ion, receiver_ion, receiver_charge, transition, int(m)))
                for m in self.params.get("beam_meta", [1])]

    def beam_stopping_rate(self, beam_ion, plasma_ion, charge):
        return MockBeamStoppingRate(self._fn("beam_stopping_rate", beam_ion, plasma_ion, charge))

    def beam_population_rate(self, beam_ion, metastable, plasma_ion, charge):
        return MockBeamPopulationRate(self._fn("beam_population_rate", beam_ion, int(metastable), plasma_ion, charge))

    def beam_emission_pec(self, beam_ion, plasma_ion, charge, transition):
        return MockBeamEmissionPEC(self._fn("beam_emission_pec", beam_ion, plasma_ion, charge, transition))

    def impact_excitation_pec(self, ion, charge, transition):
        return MockImpactExcitationPEC(self._fn("impact_excitation_pec", ion, charge, transition))

    def recombination_pec(self, ion, charge, transition):
        return MockRecombinationPEC(self._fn("recombination_pec", ion, charge, transition))

    def thermal_cx_pec(self, donor_ion, donor_charge, receiver_ion, receiver_charge, transition):
        return MockThermalCXPEC(self._fn("thermal_cx_pec", donor_ion, donor_charge, receiver_ion, receiver_charge, transition))

    def line_radiated_power_rate(self, element, charge):
        return MockLineRadiationPower(element, charge, self._fn("line_radiated_power_rate", element, charge))

    def continuum_radiated_power_rate(self, element, charge):
        return MockContinuumPower(element, charge, self._fn("continuum_radiated_power_rate", element, charge))

    def cx_radiated_power_rate(self, element, charge):
        return MockCXRadiationPower(element, charge, self._fn("cx_radiated_power_rate", element, charge))

    def free_free_gaunt_factor(self):
        self.requests.append(("free_free_gaunt_factor", ()))
        if self.params.get("gaunt", "mock") == "maxwellian":
            return maxwellian_gaunt()
        return MockGauntFactor(rate_fn(self.params, "free_free_gaunt_factor", log=self.bad_calls))

    def zeeman_triplet_parameters(self, line):
        return zeeman_triplet_fn(self.params, line.element, line.charge, line.transition)

    def stark_model_coefficients(self, line):
        return stark_fn(self.params, line.element, line.charge, line.transition)

    def zeeman_structure(self, line, b_field=None):
        """One pi and one sigma+/- component, split linearly in B by the provider's alpha."""
        wl = wavelength_fn(self.params, line.element, line.charge, line.transition)
        alpha = zeeman_triplet_fn(self.params, line.element, line.charge, line.transition)[0]
        return ZeemanStructure([(lambda B: wl, lambda B: 1.0)],
                               [(lambda B: wl + 0.5 * alpha * B, lambda B: 1.0)],
                               [(lambda B: wl - 0.5 * alpha * B, lambda B: 1.0)])


# ---------------------------------------------------------------------------------------------- profiles
def profile(spec):
    """JSON spec -> f(x, y, z).  Kinds:
       {"kind": "const", "v": v}
       {"kind": "lin", "v": v, "g": [gx, gy, gz], "p0": [x0, y0, z0]}       v * (1 + g.(p - p0)); exactly v at p0
       {"kind": "gauss", "v": v, "p0": [..], "w": width}                    v * exp(-|p - p0|^2 / (2 w^2))
       {"kind": "points", "pts": [[x, y, z], ...], "vals": [v_k, ...], "g": [gx, gy, gz] (optional)}
                                  in the Voronoi cell of p_k: v_k * (1 + g.(p - p_k)); exactly v_k at p_k"""
    kind = spec.get("kind", "const")
    if kind == "points":
        return _points_profile(spec)
    v = float(spec["v"])
    if kind == "const":
        return lambda x, y, z: v
    x0, y0, z0 = spec["p0"]
    if kind == "lin":
        gx, gy, gz = spec["g"]
        return lambda x, y, z: v * (1.0 + (gx * (x - x0) + gy * (y - y0) + gz * (z - z0)))
    if kind == "gauss":
        w = float(spec["w"])
        return lambda x, y, z: v * math.exp(-((x - x0) ** 2 + (y - y0) ** 2 + (z - z0) ** 2) / (2 * w * w))
    raise ValueError("unknown profile kind %r" % kind)


def _points_profile(spec):
    pts = [tuple(float(c) for c in p) for p in spec["pts"]]
    vals = [float(v) for v in spec["vals"]]
    gx, gy, gz = spec.get("g") or (0.0, 0.0, 0.0)

    def f(x, y, z):
        best, bd = 0, float("inf")
        for k, (a, b, c) in enumerate(pts):
            d = (x - a) ** 2 + (y - b) ** 2 + (z - c) ** 2
            if d < bd:
                best, bd = k, d
        a, b, c = pts[best]
        return vals[best] * (1.0 + (gx * (x - a) + gy * (y - b) + gz * (z - c)))
    return f
