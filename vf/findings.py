"""known_findings.json: read-only at run time.

entries: {"id": "...", "property": "C07", "status": "open"|"fixed", "what": "...",
          "probe": "replays/C07/known-....json" (open entries), "commit": "<sha>" (fixed entries)}
An *open* entry's input class is excluded by construction in the property's generator (the module asks
`is_open(id)`), its probe is replayed on every run and, while the probe still fails, the check prints
KNOWN-FINDING.  A *fixed* entry suppresses nothing.
"""
import json
import os

from . import VERIF_DIR

_cache = None


def load():
    global _cache
    if _cache is None:
        path = os.path.join(VERIF_DIR, "known_findings.json")
        if os.path.exists(path):
            with open(path) as f:
                _cache = json.load(f)["findings"]
        else:
            _cache = []
    return _cache


def for_property(pid):
    return [f for f in load() if f["property"] == pid]


def is_open(fid):
    return any(f["id"] == fid and f["status"] == "open" for f in load())
