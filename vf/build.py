"""flock-guarded in-place rebuild of the repository's Cython extensions."""
import fcntl
import os
import subprocess
import time

from . import REPO, VERIF_DIR


def ensure_built(verbose=True):
    """Rebuild REPO's extensions from its current working tree. Returns (ok, seconds, log_tail)."""
    lock_path = os.path.join(VERIF_DIR, ".build.lock")
    t0 = time.time()
    with open(lock_path, "w") as lock:
        fcntl.flock(lock, fcntl.LOCK_EX)
        env = dict(os.environ)
        env["VSNEVER_CHERAB_CORE_VERIF"] = "1"
        env.pop("PYTHONDONTWRITEBYTECODE", None)
        p = subprocess.run(["/venv/bin/python", "setup.py", "build_ext", "-j16", "--inplace"],
                           cwd=REPO, env=env, stdout=subprocess.PIPE, stderr=subprocess.STDOUT, text=True)
        fcntl.flock(lock, fcntl.LOCK_UN)
    dt = time.time() - t0
    tail = p.stdout[-3000:]
    if verbose:
        print("[build] %s in %.1fs (rc=%d)" % (REPO, dt, p.returncode), flush=True)
    return p.returncode == 0, dt, tail
