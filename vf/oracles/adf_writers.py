"""Independent writers of the ADAS ADF11 / ADF12 / ADF15 / ADF21 / ADF22 text formats (oracle side of C08).

Nothing here imports cherab.  A writer takes numbers that are already *text tokens* (fixed-width strings produced by the
integer formatters below, so the decimal text is the exact value) and lays them out following the published ADAS
FORMAT statements (ADAS manual, appendix A; xxdata_11 / xxdata_12 / xxdata_15 / xxdata_21):

  adf11  line 1   5I5,5X,'/',A19,'/',A20            IZMAX IDMAXD ITMAXD IZ1MIN IZ1MAX /ELEMENT /PROJECT
         '-' line; resolved files: a line of metastable counts (I5 each) and another '-' line
         log10 densities  8F10.5 ; log10 temperatures 8F10.5 (each array starts on a new line)
         per block: '---/ IPRT= n  / IGRD= n  /---/ Z1= n   / DATE= dd/mm/yy'  then, per temperature (new line each),
         the IDMAXD log10 coefficients 8F10.5
         'C----' comment trailer
  adf12  I5 number of blocks; per block: header line, QEFREF line, 5 reference values, 5 counts (I10), then the
         fixed-length sections ENER(24) QENER(24) TIEV(12) QTIEV(12) DENSI(24) QDENSI(24) ZEFF(12) QZEFF(12) BMAG(12)
         QBMAG(12), six values per line 1P,6D10.2, unused slots zero
  adf15  I5,4X,'/',A2,'+',I2,' PHOTON EMISSIVITY COEFFICIENTS/' ; per block
         F8.1,' A',2I5,' /FILMEM = ',A8,'/TYPE = ',A5,'  /INDM = T/ISEL  = ',I4 ; densities, temperatures, then per
         density (new line each) the temperatures' PECs, all 1P,8E9.2 ; comment trailer with (full style) the
         configuration table and the 'C  ISEL  WAVELENGTH  TRANSITION  TYPE' index
  adf21/22  'ZT=',I2,2X,'SVREF=',1PE9.3,2X,'SPEC=',A2,2X,'DATE=',A8,2X,'CODE=',A ; '-' line ;
         1X,I4,1X,I4,2X,'TREF=',1PE9.3 ; '-' ; energies, densities 8(1X,1PE9.3) ; '-' ; per density (new line each) the
         energies' coefficients ; '-' ; 1X,I4,2X,'EREF=',1PE9.3,2X,'DREF=',1PE9.3 ; '-' ; temperatures ; '-' ; coefficients

Honest limit (see DESIGN.md C08): no real ADAS file is available offline; the *header* lines of adf12/21/22 and the
adf15 block header / comment index are reconstructed and agree with the parser's column constants / regexes by
construction.  What is independent of the parser: how many values go on a line, where arrays start and stop, the order
of sections and of the flattened 2-D tables, and the numbers themselves.
"""

MASK = (1 << 64) - 1


# ------------------------------------------------------------------------------------------------ deterministic numbers
class Stream:
    """splitmix64: the case carries an integer seed, the numbers of a file are a pure function of it."""

    def __init__(self, seed, salt=0):
        self.s = (int(seed) * 0x9E3779B97F4A7C15 + int(salt) * 0xD1B54A32D192ED03 + 0x632BE59BD9B4E019) & MASK

    def u64(self):
        self.s = (self.s + 0x9E3779B97F4A7C15) & MASK
        z = self.s
        z = ((z ^ (z >> 30)) * 0xBF58476D1CE4E5B9) & MASK
        z = ((z ^ (z >> 27)) * 0x94D049BB133111EB) & MASK
        return z ^ (z >> 31)

    def between(self, a, b):
        """integer in [a, b]"""
        return a + self.u64() % (b - a + 1)


# ------------------------------------------------------------------------------------------------ number -> text
def f10_5(k):
    """F10.5 of the value k * 1e-5 (k integer): exact decimal text, right-justified in 10 columns."""
    a = abs(int(k))
    s = "%s%d.%05d" % ("-" if k < 0 else "", a // 100000, a % 100000)
    if len(s) > 9:
        raise ValueError("F10.5 value %r leaves no blank separator" % s)
    return s.rjust(10)


def efmt(m, e, digits, width, letter="E"):
    """1PEw.d / 1PDw.d of m * 10**(e - digits), m an integer with digits+1 digits (or 0): 'd.ddE+xx'."""
    m, e = int(m), int(e)
    if m == 0:
        e = 0
    elif not 10 ** digits <= m < 10 ** (digits + 1):
        raise ValueError("mantissa %r does not have %d digits" % (m, digits + 1))
    if not -99 <= e <= 99:
        raise ValueError("exponent %r needs three digits" % e)
    s = "%d.%0*d%s%s%02d" % (m // 10 ** digits, digits, m % 10 ** digits, letter, "-" if e < 0 else "+", abs(e))
    if len(s) >= width:
        raise ValueError("value %r does not fit %d columns with a leading blank" % (s, width))
    return s.rjust(width)


def value(token):
    """The number a text token stands for (python's correctly rounded decimal -> binary conversion)."""
    return float(token.strip().replace("D", "E").replace("d", "e"))


def _rows(tokens, per_line):
    return ["".join(tokens[i:i + per_line]) for i in range(0, len(tokens), per_line)]


DASH80 = "-" * 80


# ------------------------------------------------------------------------------------------------ ADF11
def write_adf11(d):
    """d: {'z': nuclear charge, 'name': 'CARBON', 'project': 'GCR PROJECT', 'z1min', 'z1max',
           'dens': [tokens], 'temp': [tokens], 'blocks': [{'z1', 'iprt', 'igrd', 'table': [nt][nd] tokens}],
           'resolved': bool, 'meta': [metastable counts] (resolved), 'dash': width of the '-' lines,
           'lead': ' ' or '' (first column of the '-' lines), 'iprt': bool (IPRT/IGRD fields in the block header),
           'date': 'dd/mm/yy', 'trailer': [comment lines]}"""
    nd, nt = len(d["dens"]), len(d["temp"])
    out = ["%5d%5d%5d%5d%5d     /%-19s/%-20s" % (d["z"], nd, nt, d["z1min"], d["z1max"], d["name"], d["project"])]
    dash = d["lead"] + "-" * d["dash"]
    out.append(dash)
    if d["resolved"]:
        out.append("".join("%5d" % m for m in d["meta"]))
        out.append(dash)
    out.extend(_rows(d["dens"], 8))
    out.extend(_rows(d["temp"], 8))
    for b in d["blocks"]:
        if d["iprt"]:
            h = "-" * 20 + "/ IPRT=%2d  / IGRD=%2d  /--------/ Z1=%2d   / DATE= %s" % (b["iprt"], b["igrd"], b["z1"], d["date"])
        else:
            h = "-" * 53 + "/ Z1=%2d   / DATE= %s" % (b["z1"], d["date"])
        out.append(d["lead"] + h)
        if len(b["table"]) != nt:
            raise ValueError("block table must have one row per temperature")
        for row in b["table"]:
            if len(row) != nd:
                raise ValueError("block row must have one value per density")
            out.extend(_rows(row, 8))
    out.append("C" + "-" * d["dash"])
    out.extend(d["trailer"])
    out.append("C" + "-" * d["dash"])
    return "\n".join(out) + "\n"


# ------------------------------------------------------------------------------------------------ ADF12
ADF12_SECTIONS = (("ENER", 24, 0), ("QENER", 24, 0), ("TIEV", 12, 1), ("QTIEV", 12, 1), ("DENSI", 24, 2), ("QDENSI", 24, 2),
                  ("ZEFF", 12, 3), ("QZEFF", 12, 3), ("BMAG", 12, 4), ("QBMAG", 12, 4))


def write_adf12(d):
    """d: {'receiver': 'C', 'zr': 6, 'donor': 'H', 'meta': 1, 'zero': token of 0, 'blocks': [{'upper', 'lower', 'qefref': token,
           'ref': [5 tokens: EBREF TIREF NIREF ZEREF BREF], 'ENER': [...], 'QENER': [...], ... 'QBMAG': [...]}], 'trailer': [...]}
    the lengths of ENER/TIEV/DENSI/ZEFF/BMAG are the counts written in the block; Q* must have the same lengths."""
    out = ["%5d" % len(d["blocks"])]
    for i, b in enumerate(d["blocks"]):
        head = " %-2s+%2d  %-2s+ 0 (%d)" % (d["receiver"], d["zr"], d["donor"], d["meta"])
        head = head.ljust(35) + "N= %2d-%2d" % (b["upper"], b["lower"]) + "   /EMISS/  ISEL=%3d" % (i + 1)
        out.append(head)
        out.append(b["qefref"])
        out.extend(_rows(b["ref"], 6))
        counts = [len(b[name]) for name in ("ENER", "TIEV", "DENSI", "ZEFF", "BMAG")]
        out.append("".join("%10d" % c for c in counts))
        for name, size, ci in ADF12_SECTIONS:
            vals = list(b[name])
            if len(vals) != counts[ci] or len(vals) > size:
                raise ValueError("section %s has %d values, count %d, capacity %d" % (name, len(vals), counts[ci], size))
            out.extend(_rows(vals + [d["zero"]] * (size - len(vals)), 6))
    out.append("C" + "-" * 79)
    out.extend(d["trailer"])
    out.append("C" + "-" * 79)
    return "\n".join(out) + "\n"


# ------------------------------------------------------------------------------------------------ ADF15
L_LETTER = "SPDFGHIKLMNOQR"
SHELL_L = "SPDFG"


def level_text(lv):
    """Configuration table entry of a level: ('2S2 2P1', '(2)1( 2.5)') from {'conf': [[n, l, occ], ...], 'S': 2, 'L': 1, 'J': '2.5'}"""
    conf = " ".join("%d%s%d" % (n, SHELL_L[l], occ) for n, l, occ in lv["conf"])
    return conf, "(%d)%d(%4s)" % (lv["S"], lv["L"], lv["J"])


def level_name(lv):
    """The documented level descriptor built from the same level: '2s2 2p1 2P2.5'."""
    conf = " ".join("%d%s%d" % (n, SHELL_L[l].lower(), occ) for n, l, occ in lv["conf"])
    return "%s %d%s%s" % (conf, lv["S"], L_LETTER[lv["L"]], lv["J"])


def write_adf15(d):
    """d: {'symbol': 'C', 'charge': 1, 'style': 'hydrogen' | 'hydrogen-like' | 'full', 'unit': ' A' | 'A',
           'filmem': 'pju#c1', 'levels': [level dicts] (1-based in the file; styles other than 'hydrogen'),
           'blocks': [{'isel', 'type', 'wl_text': wavelength in Angstrom as printed ('4647.418') or 'wl': tenths of Angstrom (int), 'upper', 'lower', 'dens': [tokens], 'temp': [tokens],
                       'table': [nd][nt] tokens, 'data': bool (False: listed in the index but no data block)}],
           'index_order': permutation of block positions for the comment index, 'trailer': [...]}"""
    out = ["%5d    /%-2s+%2d PHOTON EMISSIVITY COEFFICIENTS/" % (len(d["blocks"]), d["symbol"], d["charge"])]

    def wl(b, width):
        # 'wl_text': the Angstrom value exactly as printed (any number of decimals the field holds); legacy: 'wl' in tenths of A
        return (b["wl_text"] if "wl_text" in b else "%d.%d" % (b["wl"] // 10, b["wl"] % 10)).rjust(width)

    for b in d["blocks"]:
        if not b.get("data", True):
            continue
        nd, nt = len(b["dens"]), len(b["temp"])
        out.append("%s%s%5d%5d /FILMEM = %-8s/TYPE = %-5s  /INDM = T/ISEL  = %4d"
                   % (wl(b, 8), d["unit"], nd, nt, d["filmem"], b["type"], b["isel"]))
        out.extend(_rows(b["dens"], 8))
        out.extend(_rows(b["temp"], 8))
        if len(b["table"]) != nd:
            raise ValueError("PEC table must have one row per density")
        for row in b["table"]:
            if len(row) != nt:
                raise ValueError("PEC row must have one value per temperature")
            out.extend(_rows(row, 8))
    out.append("C" + "-" * 71)
    out += ["C", "C  PHOTON EMISSIVITY COEFFICIENTS:", "C", "C  INFORMATION", "C  -----------", "C",
            "C  NUCLEAR CHARGE = %2d" % d["z"], "C  ION CHARGE +1  = %2d" % (d["charge"] + 1), "C"]
    if d["style"] != "hydrogen":
        out += ["C  Configuration             (2S+1)L(w-1/2)    Energy (cm**-1)",
                "C  -------------             --------------    ---------------"]
        for i, lv in enumerate(d["levels"]):
            conf, term = level_text(lv)
            out.append("C  %3d  %-22s%s %19d.0" % (i + 1, conf, term, 1000 * i))
        out.append("C")
    out += ["C  ISEL  WAVELENGTH      TRANSITION       TYPE   METASTABLE  IMET NMET IP",
            "C  ----  ----------  ----------------     -----  ----------  ---- ---- --"]
    for j in d["index_order"]:
        b = d["blocks"][j]
        if d["style"] == "hydrogen":
            tr = "N=%2d - N=%2d      " % (b["upper"], b["lower"])
        else:
            tu, tl = level_text(d["levels"][b["upper"] - 1])[1], level_text(d["levels"][b["lower"] - 1])[1]
            tr = "%3d%s-%3d%s" % (b["upper"], tu, b["lower"], tl)
        out.append("C  %4d. %s     %s  %-5s           T     1    1" % (b["isel"], wl(b, 10), tr, b["type"]))
    out.append("C")
    out.extend(d["trailer"])
    out.append("C" + "-" * 71)
    return "\n".join(out) + "\n"


# ------------------------------------------------------------------------------------------------ ADF21 / ADF22
def write_adf2x(d):
    """d: {'zt': 6, 'svref': token(9), 'spec': 'C', 'date': '18/09/97', 'code': 'ADAS310', 'tref': token(9),
           'eb': [tokens(10)], 'dt': [tokens(10)], 'sv': [ndt][neb] tokens(10), 'eref': token(9), 'dref': token(9),
           'tt': [tokens(10)], 'svt': [tokens(10)], 'trailer': [...]}   token(9) = 1PE9.3 without the leading blank"""
    neb, ndt, ntt = len(d["eb"]), len(d["dt"]), len(d["tt"])
    out = ["ZT=%2d  SVREF=%s  SPEC=%-2s  DATE=%-8s  CODE=%s" % (d["zt"], d["svref"], d["spec"], d["date"], d["code"]),
           DASH80,
           " %4d %4d  TREF=%s" % (neb, ndt, d["tref"]),
           DASH80]
    out.extend(_rows(d["eb"], 8))
    out.extend(_rows(d["dt"], 8))
    out.append(DASH80)
    if len(d["sv"]) != ndt:
        raise ValueError("SV must have one row per density")
    for row in d["sv"]:
        if len(row) != neb:
            raise ValueError("SV row must have one value per energy")
        out.extend(_rows(row, 8))
    out.append(DASH80)
    out.append(" %4d  EREF=%s  DREF=%s" % (ntt, d["eref"], d["dref"]))
    out.append(DASH80)
    out.extend(_rows(d["tt"], 8))
    out.append(DASH80)
    if len(d["svt"]) != ntt:
        raise ValueError("SVT must have one value per temperature")
    out.extend(_rows(d["svt"], 8))
    out.append("C" + "-" * 79)
    out.extend(d["trailer"])
    out.append("C" + "-" * 79)
    return "\n".join(out) + "\n"
