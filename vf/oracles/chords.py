"""Exact, event-based chord oracle for regular Cartesian and cylindrical grids (used by C10).

Nothing here calls the code under test.  A ray  p(t) = o + t u  (|u| = 1, t >= 0, *local* coordinates of the
grid) is cut at every parameter where it comes within DELTA of a surface -- grid planes, grid cylinders
r = r_min + i dr (quadratic), grid half-planes phi = j dphi (all 360/dphi of them, i.e. every periodic copy) and
the surfaces of the bounding primitive (which is the grid volume shrunk by eps_rel cell, as the code under test
builds it).  Between two consecutive cuts the ray is either farther than DELTA from every surface (a *clean*
piece: exactly one cell, found from the midpoint) or inside the DELTA-band of a known set of surfaces (a *band*
piece: the candidate cells are the cells on either side of those surfaces; near a primitive surface "no cell"
is a candidate too).  DELTA (3e-8 m) is far above what the traced ray can differ from the ideal one (raysect
moves a ray that passed a surface by 1e-9 m, transforms round at 1e-15) and far below eps_rel * cell >= 5e-7 m.

From the pieces: for a voxel map, `lo[s]` = length certainly inside source s, `hi[s]` = length possibly inside
source s, the number of separate runs (sub-chords) per source and per integration segment, the totals over the
active cells, and -- for the documented midpoint scheme -- the number of sample points certainly / possibly
falling into each source.
"""
import itertools
import math

import numpy as np

DELTA = 3e-8
_PAR = 1e-30


# ------------------------------------------------------------------------------------------------ own matrices
def _rx(a):
    c, s = math.cos(math.radians(a)), math.sin(math.radians(a))
    return np.array([[1, 0, 0, 0], [0, c, -s, 0], [0, s, c, 0], [0, 0, 0, 1.0]])


def _ry(a):
    c, s = math.cos(math.radians(a)), math.sin(math.radians(a))
    return np.array([[c, 0, s, 0], [0, 1, 0, 0], [-s, 0, c, 0], [0, 0, 0, 1.0]])


def _rz(a):
    c, s = math.cos(math.radians(a)), math.sin(math.radians(a))
    return np.array([[c, -s, 0, 0], [s, c, 0, 0], [0, 0, 1, 0], [0, 0, 0, 1.0]])


def rigid(t, r):
    """local -> parent matrix of translate(t) * rotate_z(r[2]) * rotate_y(r[1]) * rotate_x(r[0]) (degrees)."""
    m = np.eye(4)
    m[:3, 3] = t
    return m @ _rz(r[2]) @ _ry(r[1]) @ _rx(r[0])


# ------------------------------------------------------------------------------------------------ 1-D band helpers
def _lin_band(f0, f1, delta, ta, tb):
    """{t in [ta, tb] : |f0 + f1 t| < delta} as (lo, hi) or None."""
    if abs(f1) < _PAR:
        return (ta, tb) if abs(f0) < delta else None
    tc, w = -f0 / f1, delta / abs(f1)
    lo, hi = max(ta, tc - w), min(tb, tc + w)
    return (lo, hi) if lo < hi else None


def _lin_above(f0, f1, bound, ta, tb):
    """{t in [ta, tb] : f0 + f1 t > bound} as (lo, hi) or None."""
    if abs(f1) < _PAR:
        return (ta, tb) if f0 > bound else None
    th = (bound - f0) / f1
    lo, hi = (max(ta, th), tb) if f1 > 0 else (ta, min(tb, th))
    return (lo, hi) if lo < hi else None


def _cyl_ray(o, u):
    """(A, t*, d): rho(t)^2 = A (t - t*)^2 + d^2 with d the distance of the line from the axis, computed from the
    cross product (no cancellation for far origins); for rays parallel to the axis A = 0 and d = rho."""
    A = u[0] * u[0] + u[1] * u[1]
    if A < _PAR:
        return 0.0, 0.0, math.hypot(o[0], o[1])
    return A, -(o[0] * u[0] + o[1] * u[1]) / A, abs(o[0] * u[1] - o[1] * u[0]) / math.sqrt(A)


def _cyl_inside(cr, radius, ta, tb):
    """{t in [ta, tb] : rho(t) < radius} as (lo, hi) or None."""
    A, ts, d = cr
    if radius <= 0 or d >= radius:
        return None
    if A == 0.0:
        return (ta, tb)
    half = math.sqrt((radius - d) * (radius + d) / A)
    lo, hi = max(ta, ts - half), min(tb, ts + half)
    return (lo, hi) if lo < hi else None


def _cyl_band(cr, radius, delta, ta, tb):
    """{t : |rho(t) - radius| < delta} as a list of 0..2 intervals."""
    outer = _cyl_inside(cr, radius + delta, ta, tb)
    if outer is None:
        return []
    inner = _cyl_inside(cr, radius - delta, ta, tb)
    if inner is None:
        return [outer]
    out = []
    if outer[0] < inner[0]:
        out.append((outer[0], inner[0]))
    if inner[1] < outer[1]:
        out.append((inner[1], outer[1]))
    return out


# ------------------------------------------------------------------------------------------------ grids
class BoxGrid:
    """Cells [i dx, (i+1) dx] x ...; bounding primitive Box((0,0,0), extent - eps_rel * d)."""
    kind = "box"

    def __init__(self, n, extent, eps_rel=1e-5):
        self.shape = tuple(int(v) for v in n)
        self.d = [extent[a] / self.shape[a] for a in range(3)]
        self.upper = [extent[a] - eps_rel * self.d[a] for a in range(3)]
        self.rb = math.sqrt(sum(e * e for e in extent))

    def clip(self, o, u, delta):
        ta, tb = 0.0, math.sqrt(sum(v * v for v in o)) + self.rb + 1.0
        for a in range(3):
            r = _lin_above(o[a], u[a], -delta, ta, tb)
            if r is None:
                return None
            ta, tb = r
            r = _lin_above(-o[a], -u[a], -(self.upper[a] + delta), ta, tb)
            if r is None:
                return None
            ta, tb = r
        return ta, tb

    def inside_intervals(self, o, u):
        """exact parameter intervals (t >= 0) inside the bounding primitive."""
        r = self.clip(o, u, 0.0)
        return [r] if r is not None else []

    def bands(self, o, u, ta, tb, delta):
        out = []
        for a in range(3):
            for m in range(1, self.shape[a]):
                r = _lin_band(o[a] - m * self.d[a], u[a], delta, ta, tb)
                if r is not None:
                    out.append((r[0], r[1], a, m, False))
            for c in (0.0, self.upper[a]):
                r = _lin_band(o[a] - c, u[a], delta, ta, tb)
                if r is not None:
                    out.append((r[0], r[1], a, -1, True))
        return out

    def locate(self, p, delta):
        idx = [int(math.floor(p[a] / self.d[a])) for a in range(3)]
        inside = all(0.0 <= p[a] <= self.upper[a] for a in range(3))
        near = all(-delta <= p[a] <= self.upper[a] + delta for a in range(3))
        return idx, inside, 0, near

    def sides(self, a, m):
        return [m - 1, m]

    def dist(self, a, m, p):
        return abs(p[a] - m * self.d[a])

    def tangent_info(self, o, u):
        return None


class CylGrid:
    """Cells in (r, phi, z); bounding primitive = cylinder(r_out - eps_r, H - eps_z) minus cylinder(r_in + eps_r)."""
    kind = "cyl"

    def __init__(self, n_r, n_phi, n_z, r_in, r_out, height, period, eps_rel=1e-5, axis_hole=True):
        self.shape = (int(n_r), int(n_phi), int(n_z))
        self.rmin = float(r_in)
        self.dr = (r_out - r_in) / n_r
        self.dz = height / n_z
        self.period = float(period)
        self.dphi = period / n_phi
        self.nsect = int(round(360.0 / period))
        self.nsurf = self.shape[1] * self.nsect if self.shape[1] > 1 else 0
        # axis_hole: with r_in = 0 the code under test still subtracts an inner cylinder of radius eps_rel * dr
        self.r_lo = r_in + eps_rel * self.dr if (r_in > 0 or axis_hole) else 0.0
        self.r_hi = r_out - eps_rel * self.dr
        self.z_hi = height - eps_rel * self.dz
        self.rb = math.sqrt(r_out * r_out + height * height)
        self._cs = [(math.cos(math.radians(j * self.dphi)), math.sin(math.radians(j * self.dphi))) for j in range(self.nsurf)]

    def clip(self, o, u, delta):
        ta, tb = 0.0, math.sqrt(sum(v * v for v in o)) + self.rb + 1.0
        r = _lin_above(o[2], u[2], -delta, ta, tb)
        if r is None:
            return None
        r = _lin_above(-o[2], -u[2], -(self.z_hi + delta), r[0], r[1])
        if r is None:
            return None
        return _cyl_inside(_cyl_ray(o, u), self.r_hi + delta, r[0], r[1])

    def inside_intervals(self, o, u):
        outer = self.clip(o, u, 0.0)
        if outer is None:
            return []
        hole = _cyl_inside(_cyl_ray(o, u), self.r_lo, outer[0], outer[1])
        if hole is None:
            return [outer]
        out = []
        if outer[0] < hole[0]:
            out.append((outer[0], hole[0]))
        if hole[1] < outer[1]:
            out.append((hole[1], outer[1]))
        return out

    def bands(self, o, u, ta, tb, delta):
        out = []
        cr = _cyl_ray(o, u)
        for m in range(1, self.shape[0]):
            for r in _cyl_band(cr, self.rmin + m * self.dr, delta, ta, tb):
                out.append((r[0], r[1], 0, m, False))
        for c in ((self.r_lo, self.r_hi) if self.r_lo > 0 else (self.r_hi,)):
            for r in _cyl_band(cr, c, delta, ta, tb):
                out.append((r[0], r[1], 0, -1, True))
        for m in range(1, self.shape[2]):
            r = _lin_band(o[2] - m * self.dz, u[2], delta, ta, tb)
            if r is not None:
                out.append((r[0], r[1], 2, m, False))
        for c in (0.0, self.z_hi):
            r = _lin_band(o[2] - c, u[2], delta, ta, tb)
            if r is not None:
                out.append((r[0], r[1], 2, -1, True))
        for j in range(self.nsurf):
            cj, sj = self._cs[j]
            r = _lin_band(-o[0] * sj + o[1] * cj, -u[0] * sj + u[1] * cj, delta, ta, tb)
            if r is None:
                continue
            r = _lin_above(o[0] * cj + o[1] * sj, u[0] * cj + u[1] * sj, -delta, r[0], r[1])
            if r is not None:
                out.append((r[0], r[1], 1, j, False))
        return out

    def locate(self, p, delta):
        rho = math.hypot(p[0], p[1])
        ir = int(math.floor((rho - self.rmin) / self.dr))
        iz = int(math.floor(p[2] / self.dz))
        sector = 0
        if self.shape[1] == 1:
            ip = 0
        else:
            phi = math.degrees(math.atan2(p[1], p[0])) % 360.0
            if phi >= 360.0:
                phi = 0.0
            sector = int(phi // self.period)
            ip = min(int(math.floor((phi - sector * self.period) / self.dphi)), self.shape[1] - 1)
            ip = max(ip, 0)
        inside = (self.r_lo <= rho <= self.r_hi) and (0.0 <= p[2] <= self.z_hi)
        near = (self.r_lo - delta <= rho <= self.r_hi + delta) and (-delta <= p[2] <= self.z_hi + delta)
        return [ir, ip, iz], inside, sector, near

    def sides(self, a, m):
        if a == 1:
            return [(m - 1) % self.shape[1], m % self.shape[1]]
        return [m - 1, m]

    def dist(self, a, m, p):
        if a == 0:
            return abs(math.hypot(p[0], p[1]) - (self.rmin + m * self.dr))
        if a == 2:
            return abs(p[2] - m * self.dz)
        cj, sj = self._cs[m]
        return abs(-p[0] * sj + p[1] * cj)

    def tangent_info(self, o, u):
        """(t*, rho_min) of the closest approach to the axis, None for rays parallel to the axis."""
        A, ts, d = _cyl_ray(o, u)
        if A < 1e-12:
            return None
        return ts, d


# ------------------------------------------------------------------------------------------------ pieces
class Chord:
    """Pieces of one ray.  Attributes:
    tb        piece boundaries (len = n_pieces + 1)
    inside    nominal midpoint inside the bounding primitive
    prim      piece lies in the band of a primitive surface
    cands     list of candidate cells (tuples) per piece ([] = certainly outside)
    null      "no cell" is a candidate (or the only one)
    segs      integration segments: dict(e0, e1, t0, t1, L, w): exact ends t0 < t1, pieces e0..e1 (inclusive, with the
              primitive-band pieces at both ends), w = total width of those end bands
    """

    def __init__(self):
        self.tb = np.zeros(1)
        self.inside, self.prim, self.cands, self.null, self.naxes = [], [], [], [], []
        self.segs = []
        self.ambiguous_segmentation = False
        self.touch = None
        self.origin_on_boundary = False
        self.flags = {"edge": False, "tangent": False, "starts_inside": False, "wraps": False}
        self.ncells = 0


def chord(grid, o, u, delta=DELTA):
    """Cut the ray o + t u (local coordinates, |u| = 1, t >= 0) into pieces."""
    ch = Chord()
    o = [float(v) for v in o]
    u = [float(v) for v in u]
    rng = grid.clip(o, u, delta)
    if rng is None:
        return ch
    ta, tb = rng
    bands = grid.bands(o, u, ta, tb, delta)
    cuts = {ta, tb}
    for b in bands:
        cuts.add(b[0])
        cuts.add(b[1])
    cuts = sorted(cuts)
    t0s, t1s = [], []
    for a, b in zip(cuts[:-1], cuts[1:]):
        if b > a:
            t0s.append(a)
            t1s.append(b)
    if not t0s:
        return ch
    mids = 0.5 * (np.array(t0s) + np.array(t1s))
    if bands:
        blo = np.array([b[0] for b in bands])
        bhi = np.array([b[1] for b in bands])
        cover = (blo[None, :] <= mids[:, None]) & (mids[:, None] <= bhi[None, :])
    else:
        cover = np.zeros((len(mids), 0), dtype=bool)
    shape = grid.shape
    seen = set()
    sectors = set()
    for i, tm in enumerate(mids):
        p = [o[k] + tm * u[k] for k in range(3)]
        idx, inside, sector, close = grid.locate(p, delta)
        alts = [[idx[0]], [idx[1]], [idx[2]]]
        prim = False
        near = []
        banded = set()
        for j in np.nonzero(cover[i])[0]:
            _, _, a, m, is_prim = bands[j]
            if is_prim:
                prim = close                     # in the band of a primitive surface AND within delta of the primitive itself
            else:
                if a not in banded:          # several surfaces of one family (phi planes close to the axis): union
                    banded.add(a)
                    alts[a] = []
                alts[a] = sorted(set(alts[a]) | set(grid.sides(a, m)))
                near.append((a, m))
        if not inside and not prim:
            cands, null = [], True
        else:
            null = prim
            for a in range(3):
                ok = [v for v in alts[a] if 0 <= v < shape[a]]
                if not ok:
                    ok = [min(max(alts[a][0], 0), shape[a] - 1)]
                alts[a] = ok
            cands = list(itertools.product(*alts))
        ch.inside.append(inside)
        ch.prim.append(prim)
        ch.cands.append(cands)
        ch.null.append(null)
        if inside and not prim:
            if len(cands) == 1:
                seen.add(cands[0])
                sectors.add(sector)
            if len({a for a, _ in near}) >= 2 and sum(1 for a, m in near if grid.dist(a, m, p) < 1e-9) >= 2:
                ch.flags["edge"] = True
            if grid.kind == "cyl" and any(a == 1 and m % shape[1] == 0 for a, m in near):
                ch.flags["wraps"] = True
    ch.tb = np.array(t0s + [t1s[-1]])
    ch.ncells = len(seen)
    if len(sectors) > 1 or any(s > 0 for s in sectors):
        ch.flags["wraps"] = True
    # ---- integration segments: the exact inside intervals; their ends are uncertain by the width of the primitive band there
    n = len(t0s)
    runs = []                                  # maximal runs of primitive-band pieces: [first, last, number of segment ends inside]
    i = 0
    while i < n:
        if ch.prim[i]:
            j = i
            while j + 1 < n and ch.prim[j + 1]:
                j += 1
            runs.append([i, j, 0])
            i = j + 1
        else:
            i += 1
    run_of = {}
    for r in runs:
        for k in range(r[0], r[1] + 1):
            run_of[k] = r

    def locate_end(t):
        k = int(np.searchsorted(ch.tb, t, side="right")) - 1
        k = min(max(k, 0), n - 1)
        # a cut that coincides with t: prefer the band piece next to it
        for kk in (k, k - 1, k + 1):
            if 0 <= kk < n and kk in run_of and ch.tb[kk] <= t <= ch.tb[kk + 1]:
                return kk
        return k

    for (a, b) in grid.inside_intervals(o, u):
        if not b > a:
            continue
        ka, kb = locate_end(a), locate_end(b)
        w = 0.0
        e0, e1 = ka, kb
        if ka in run_of:
            r = run_of[ka]
            r[2] += 1
            w += float(ch.tb[r[1] + 1] - ch.tb[r[0]])
            e0 = r[0]
        elif a > 0.0:
            ch.ambiguous_segmentation = True     # cannot happen: an entry point always lies in the band of its surface
        if kb in run_of:
            r = run_of[kb]
            r[2] += 1
            w += float(ch.tb[r[1] + 1] - ch.tb[r[0]])
            e1 = r[1]
        else:
            ch.ambiguous_segmentation = True
        ch.segs.append({"e0": e0, "e1": e1, "t0": float(a), "t1": float(b), "L": float(b - a), "w": w})
    covered = [False] * n
    for sg in ch.segs:
        for k in range(sg["e0"], sg["e1"] + 1):
            covered[k] = True
    for r in runs:
        if r[2] != 1:                          # touching without crossing (0) or two ends in one band (tangency, grazing)
            ch.ambiguous_segmentation = True
            # raysect's CSG may drop parts of a ray that touches a surface of the bounding primitive without a clean
            # crossing (observed: a ray tangent within 1e-9 m to the subtracted inner cylinder loses the half chord
            # before or behind the tangent point): "no cell" becomes a candidate for every piece of such a ray
            ch.touch = r[0]
        if r[2] == 0 and not all(covered[k] for k in range(r[0], r[1] + 1)):
            ch.segs.append({"e0": r[0], "e1": r[1], "t0": float(ch.tb[r[0]]), "t1": float(ch.tb[r[0]]), "L": 0.0,
                            "w": float(ch.tb[r[1] + 1] - ch.tb[r[0]])})
    ch.segs.sort(key=lambda sg: sg["t0"])
    if ch.touch is not None:
        for k in range(n):
            ch.null[k] = True
    ch.origin_on_boundary = bool(ta <= 0.0 and ch.prim[0])
    ch.flags["starts_inside"] = bool(ta <= 0.0 and ch.inside[0] and not ch.prim[0])
    ti = grid.tangent_info(o, u)
    if ti is not None:
        ts, rho = ti
        if any(s["t0"] < ts < s["t1"] for s in ch.segs):
            if any(abs(rho - (grid.rmin + m * grid.dr)) < 1e-9 for m in range(1, grid.shape[0])):
                ch.flags["tangent"] = True
    return ch


# ------------------------------------------------------------------------------------------------ per-source bounds
def step_count(length, step, min_samples=2, scheme="midpoint"):
    """midpoint (cherab ray-transfer integrators): n = max(min_samples, int(length / step)) samples;
    trapezium (raysect NumericalIntegrator): max(min_samples - 1, floor(length / step)) intervals."""
    if scheme == "midpoint":
        return max(min_samples, int(length / step))
    return max(min_samples - 1, int(math.floor(length / step)))


class Bounds:
    pass


def bounds(ch, vmap, nbins, step, delta=DELTA, min_samples=2, scheme="midpoint"):
    """Interval oracle for one ray and one voxel map (int array of the grid shape, -1 = inactive).

    lo[s] / hi[s]      certain / possible chord length inside source s
    tol_lo / tol_hi    sum over integration segments of (number of separate runs) * dt of that segment
    dtmax[s]           largest dt among the segments in which s can receive anything
    tot_*              the same for the union of the active cells
    sch_lo / sch_hi    midpoint scheme: dt * (samples certainly / possibly in s), or None when n is not certain
    """
    B = Bounds()
    B.lo = np.zeros(nbins)
    B.hi = np.zeros(nbins)
    B.tol_lo = np.zeros(nbins)
    B.tol_hi = np.zeros(nbins)
    B.dtmax = np.zeros(nbins)
    B.nsub = np.zeros(nbins, dtype=int)
    B.tot_lo = B.tot_hi = B.tot_tol_lo = B.tot_tol_hi = 0.0
    B.crosses_masked = False
    B.length = sum(s["L"] for s in ch.segs)
    B.w_total = sum(s["w"] for s in ch.segs)         # uncertainty of the segment ends (band widths)
    B.dt_all = 0.0
    B.scheme_skip = None
    npieces = len(ch.cands)
    single = np.full(npieces, -2, dtype=int)       # unique source of the piece (-1 = certainly nothing), -2 = ambiguous
    srcs = []
    for i in range(npieces):
        s = {int(vmap[c]) for c in ch.cands[i]}
        if ch.null[i] or not ch.cands[i]:
            s.add(-1)
        srcs.append(s)
        if len(s) == 1:
            single[i] = next(iter(s))
    plen = np.diff(ch.tb) if npieces else np.zeros(0)
    sch_lo = np.zeros(nbins)
    sch_hi = np.zeros(nbins)
    for seg in ch.segs:
        L, w = seg["L"], seg["w"] + delta
        n_lo, n_hi = step_count(max(L - w, 0.0), step, min_samples, scheme), step_count(L + w, step, min_samples, scheme)
        skip_below = 0.1 * step if scheme == "midpoint" else 0.0       # the trapezium integrator only skips length == 0
        maybe_skipped = (L - w) < skip_below or (L - w) <= 0.0
        surely_skipped = (L + w) < skip_below
        dt = (1.5 if scheme == "midpoint" else 2.0) * step if ch.ambiguous_segmentation else (L + w) / n_lo
        B.dt_all = max(B.dt_all, dt)
        rng = range(seg["e0"], seg["e1"] + 1)
        prev_hi, prev_lo = set(), set()
        prev_act_hi = prev_act_lo = False
        for i in rng:
            s = srcs[i]
            ln = float(plen[i])
            certain = (single[i] >= 0) and not maybe_skipped
            possible = {v for v in s if v >= 0} if not surely_skipped else set()
            for v in possible:
                B.hi[v] += ln
                if v not in prev_hi:
                    B.tol_hi[v] += dt
                    B.nsub[v] += 1
                B.dtmax[v] = max(B.dtmax[v], dt)
            prev_hi = possible
            if certain:
                v = single[i]
                B.lo[v] += ln
                if v not in prev_lo:
                    B.tol_lo[v] += dt
                prev_lo = {v}
            else:
                prev_lo = set()
            act_hi = bool(possible)
            act_lo = (-1 not in s) and not maybe_skipped
            if act_hi:
                B.tot_hi += ln
                if not prev_act_hi:
                    B.tot_tol_hi += dt
            if act_lo:
                B.tot_lo += ln
                if not prev_act_lo:
                    B.tot_tol_lo += dt
            prev_act_hi, prev_act_lo = act_hi, act_lo
            if single[i] == -1 and ch.cands[i] and not ch.null[i]:
                B.crosses_masked = True
        # ---- the documented midpoint scheme
        if B.scheme_skip is None:
            if ch.ambiguous_segmentation:
                B.scheme_skip = "segmentation"
            elif surely_skipped:
                pass
            elif maybe_skipped:
                B.scheme_skip = "short"
            elif n_lo != n_hi:
                B.scheme_skip = "n"
            else:
                n = n_lo
                dts = L / n
                eta = w
                if scheme == "midpoint":
                    ts = seg["t1"] - (np.arange(n) + 0.5) * dts
                    wts = np.ones(n)
                else:
                    ts = seg["t1"] - np.arange(n + 1) * dts
                    wts = np.ones(n + 1)
                    wts[0] = wts[-1] = 0.5
                ia = np.searchsorted(ch.tb, ts - eta, side="right") - 1
                ib = np.searchsorted(ch.tb, ts + eta, side="right") - 1
                ia = np.clip(ia, 0, npieces - 1)
                ib = np.clip(ib, 0, npieces - 1)
                sure = (ia == ib) & (single[ia] > -2)
                sv = single[ia[sure]]
                sw = wts[sure]
                sw = sw[sv >= 0]
                sv = sv[sv >= 0]
                if sv.size:
                    cnt = np.bincount(sv, weights=sw, minlength=nbins) * dts
                    sch_lo += cnt
                    sch_hi += cnt
                for k in np.nonzero(~sure)[0]:
                    un = set()
                    for i in range(int(ia[k]), int(ib[k]) + 1):
                        un |= srcs[i]
                    if len(un) == 1:
                        v = next(iter(un))
                        if v >= 0:
                            sch_lo[v] += dts * wts[k]
                            sch_hi[v] += dts * wts[k]
                    else:
                        for v in un:
                            if v >= 0:
                                sch_hi[v] += dts * wts[k]
    if B.scheme_skip is None:
        B.sch_lo, B.sch_hi = sch_lo, sch_hi
    else:
        B.sch_lo = B.sch_hi = None
    return B
