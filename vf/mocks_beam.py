"""Parameterised beam mocks: atomic data provider, beam rates and a beam attenuator, all built from a JSON-able dict.

Every rate is a smooth, strictly positive analytic function of ALL of its arguments,

    q(x_1..x_k) = q0 * prod_i (1 + x_i / r_i) ** p_i          (finite and positive for every x_i >= 0)

with amplitude q0 and exponents p_i that are *distinct per key* (donor element + metastable, receiver element + charge,
transition, target species): the coefficients are derived from sha256(seed | family | key), so whatever key the code
under test asks for gets its own function, and the oracle can obtain the very same function as a plain-Python callable
(`BeamRates.cx(...)`, `.population(...)`, `.emission(...)`, `.stopping(...)`, `.wavelength(...)`) from its *own* keys.
Passing the wrong density / temperature / species / frame therefore changes the result.

    spec = {"seed": 7,                                   # selects the whole family of functions
            "metastables": 3,                            # beam_cx_pec() returns one BeamCXPEC per donor metastable 1..M
            "cx_order": [2, 0, 1],                       # optional: order of that list (indices into 1..M)
            "q0": {"cx": 1e-33, "pop": 0.3, "bes": 1e-34, "stop": 1e-14},      # optional amplitude scales
            "pmin": 0.3, "pmax": 1.2,                    # optional range of |exponent|
            "override": {"cx|deuterium|2|carbon|6|(8, 7)": {"q0": 1e-33, "p": [0, 0, 0, 0, 0]}},   # optional explicit entries
            "zero": ["pop|deuterium|2|carbon|6"],        # optional: "family|key" entries whose function is exactly 0.0
            "null": ["bes|deuterium|neon|10|(3, 2)"],    # optional: entries served as the provider's NULL rate object (0.0)
            "cache_lists": true}                         # optional: beam_cx_pec() hands out the SAME list object per key
                                                         # (a caching provider); `returned` keeps (list, snapshot) pairs

Neutral targets (charge 0) get the provider's documented null behaviour (OpenADAS(missing_rates_return_null=True)):
a rate object whose evaluate() returns 0.0 for any argument (incl. inf / nan).

All mocks optionally append every evaluation to a shared `log` list as (family, key, args) so that a check can compare
the *arguments* the model used with its own.
"""
import hashlib
import math

from cherab.core.atomic import AtomicData, BeamCXPEC, BeamPopulationRate, BeamEmissionPEC, BeamStoppingRate
from cherab.core.beam import BeamAttenuator

# reference scales r_i of the arguments
R_ENERGY = 3.0e4      # eV/amu
R_TEMP = 300.0        # eV
R_DENS = 3.0e19       # m^-3
R_ZEFF = 2.0
R_BFIELD = 2.0        # T

_REFS = {"cx": (R_ENERGY, R_TEMP, R_DENS, R_ZEFF, R_BFIELD),      # (E, T, n_ion, Zeff, |B|)
         "pop": (R_ENERGY, R_DENS, R_TEMP),                        # (E, n_equiv, T)
         "bes": (R_ENERGY, R_DENS, R_TEMP),
         "stop": (R_ENERGY, R_DENS, R_TEMP)}
_Q0 = {"cx": 1e-33, "pop": 0.3, "bes": 1e-34, "stop": 1e-14}


def _name(element):
    return element if isinstance(element, str) else element.name


def _tr(transition):
    return "(%s)" % ", ".join(repr(x) for x in transition)


def _u(seed, family, key, i):
    """Deterministic uniform number in [0, 1) for (seed, family, key, i)."""
    h = hashlib.sha256(("%d|%s|%s|%d" % (seed, family, key, i)).encode()).digest()
    return int.from_bytes(h[:7], "big") / float(1 << 56)


def _zero(*args):
    return 0.0


class BeamRates:
    """The family of analytic functions selected by `spec`, as plain-Python callables (this is what the oracle uses)."""

    def __init__(self, spec):
        self.spec = spec
        self.seed = int(spec.get("seed", 0))
        self.nmeta = int(spec.get("metastables", 1))
        self.pmin = float(spec.get("pmin", 0.3))
        self.pmax = float(spec.get("pmax", 1.2))
        self.q0 = dict(_Q0)
        self.q0.update(spec.get("q0", {}))
        self.override = spec.get("override", {})
        self.zero = set(spec.get("zero", []))
        self.null = set(spec.get("null", []))
        self._cache = {}

    # ---- coefficients
    def coefficients(self, family, key):
        """(q0, [p_i]) of the function for (family, key)."""
        full = family + "|" + key
        if full in self._cache:
            return self._cache[full]
        self._cache[full] = out = self._coefficients(family, key, full)
        return out

    def _coefficients(self, family, key, full):
        if full in self.override:
            o = self.override[full]
            return float(o["q0"]), [float(p) for p in o["p"]]
        nargs = len(_REFS[family])
        q0 = self.q0[family] * 10.0 ** (_u(self.seed, family, key, 0) - 0.5)
        ps = []
        for i in range(nargs):
            mag = self.pmin + (self.pmax - self.pmin) * _u(self.seed, family, key, 2 * i + 1)
            sign = 1.0 if _u(self.seed, family, key, 2 * i + 2) < 0.5 else -1.0
            ps.append(sign * mag)
        return q0, ps

    def is_null(self, family, key):
        return family + "|" + key in self.null

    def function(self, family, key):
        if family + "|" + key in self.zero or family + "|" + key in self.null:
            return _zero
        q0, ps = self.coefficients(family, key)
        refs = _REFS[family]

        def f(*args):
            v = q0
            for x, r, p in zip(args, refs, ps):
                v *= (1.0 + x / r) ** p
            return v
        return f

    # ---- keys
    @staticmethod
    def cx_key(donor, metastable, receiver, receiver_charge, transition):
        return "%s|%d|%s|%d|%s" % (_name(donor), metastable, _name(receiver), receiver_charge, _tr(transition))

    @staticmethod
    def pop_key(beam, metastable, target, charge):
        return "%s|%d|%s|%d" % (_name(beam), metastable, _name(target), charge)

    @staticmethod
    def bes_key(beam, target, charge, transition):
        return "%s|%s|%d|%s" % (_name(beam), _name(target), charge, _tr(transition))

    @staticmethod
    def stop_key(beam, target, charge):
        return "%s|%s|%d" % (_name(beam), _name(target), charge)

    @staticmethod
    def wl_key(element, charge, transition):
        return "%s|%d|%s" % (_name(element), charge, _tr(transition))

    # ---- plain-Python callables for the oracle (None = null rate: 0.0 whatever the arguments)
    def metastables(self):
        """Donor metastables in the order beam_cx_pec() returns them."""
        ms = list(range(1, self.nmeta + 1))
        order = self.spec.get("cx_order")
        if order and sorted(order) == list(range(self.nmeta)):
            ms = [ms[i] for i in order]
        return ms

    def cx(self, donor, metastable, receiver, receiver_charge, transition):
        """q(E_int [eV/amu], T_receiver [eV], n_ion [m^-3], Zeff, |B| [T]) in W m^3."""
        return self.function("cx", self.cx_key(donor, metastable, receiver, receiver_charge, transition))

    def population(self, beam, metastable, target, charge):
        """k(E_int, n_equiv, T_target), dimensionless; None for neutral targets."""
        if charge == 0:
            return None
        return self.function("pop", self.pop_key(beam, metastable, target, charge))

    def emission(self, beam, target, charge, transition):
        """q(E_int, n_equiv, T_target) in W m^3; None for neutral targets."""
        if charge == 0:
            return None
        return self.function("bes", self.bes_key(beam, target, charge, transition))

    def stopping(self, beam, target, charge):
        """S(E_int, n_equiv, T_target) in m^3/s; None for neutral targets."""
        if charge == 0:
            return None
        return self.function("stop", self.stop_key(beam, target, charge))

    def wavelength(self, element, charge, transition):
        """Natural wavelength in nm, in [400, 800), distinct per (element, charge, transition)."""
        key = "wl|" + self.wl_key(element, charge, transition)
        if key in self.override:
            return float(self.override[key])
        return 400.0 + 400.0 * _u(self.seed, "wl", self.wl_key(element, charge, transition), 0)


# ------------------------------------------------------------------------------------------------ rate objects
class MockBeamCXPEC(BeamCXPEC):
    def __init__(self, donor_metastable, fn, key="", log=None):
        super().__init__(donor_metastable)
        self.fn, self.key, self.log = fn, key, log

    def evaluate(self, energy, temperature, density, z_effective, b_field):
        if self.log is not None:
            self.log.append(("cx", self.key, (energy, temperature, density, z_effective, b_field)))
        if self.fn is None:              # null rate
            return 0.0
        return self.fn(energy, temperature, density, z_effective, b_field)


def _beam_rate(base, family):
    class _Rate(base):
        def __init__(self, fn, key="", log=None):
            self.fn, self.key, self.log = fn, key, log

        def evaluate(self, energy, density, temperature):
            if self.log is not None:
                self.log.append((family, self.key, (energy, density, temperature)))
            if self.fn is None:          # null rate: zero for any argument, incl. inf / nan
                return 0.0
            return self.fn(energy, density, temperature)
    _Rate.__name__ = "Mock" + base.__name__
    return _Rate


MockBeamPopulationRate = _beam_rate(BeamPopulationRate, "pop")
MockBeamEmissionPEC = _beam_rate(BeamEmissionPEC, "bes")
MockBeamStoppingRate = _beam_rate(BeamStoppingRate, "stop")


class MockBeamAtomicData(AtomicData):
    """AtomicData provider serving the functions of BeamRates(spec). `requests` lists every (method, key) asked for."""

    def __init__(self, spec, log=None):
        super().__init__()
        self.rates = BeamRates(spec)
        self.log = log
        self.requests = []
        self.returned = []                 # (list object handed out by beam_cx_pec, tuple snapshot of its content)
        self._cx_cache = {} if spec.get("cache_lists") else None

    def wavelength(self, ion, charge, transition):
        self.requests.append(("wavelength", BeamRates.wl_key(ion, charge, transition)))
        return self.rates.wavelength(ion, charge, transition)

    def beam_cx_pec(self, donor_ion, receiver_ion, receiver_charge, transition):
        ckey = BeamRates.cx_key(donor_ion, 0, receiver_ion, receiver_charge, transition)
        if self._cx_cache is not None and ckey in self._cx_cache:
            self.requests.append(("beam_cx_pec", ckey))
            return self._cx_cache[ckey]
        out = []
        for m in self.rates.metastables():
            key = BeamRates.cx_key(donor_ion, m, receiver_ion, receiver_charge, transition)
            self.requests.append(("beam_cx_pec", key))
            out.append(MockBeamCXPEC(m, None if self.rates.is_null("cx", key) else self.rates.function("cx", key), key, self.log))
        self.returned.append((out, tuple(out)))
        if self._cx_cache is not None:
            self._cx_cache[ckey] = out
        return out

    def lists_intact(self):
        """True if no list handed out by beam_cx_pec() has been modified by its consumer."""
        return all(len(lst) == len(snap) and all(a is b for a, b in zip(lst, snap)) for lst, snap in self.returned)

    def beam_population_rate(self, beam_ion, metastable, plasma_ion, charge):
        key = BeamRates.pop_key(beam_ion, metastable, plasma_ion, charge)
        self.requests.append(("beam_population_rate", key))
        fn = None if self.rates.is_null("pop", key) else self.rates.population(beam_ion, metastable, plasma_ion, charge)
        return MockBeamPopulationRate(fn, key, self.log)

    def beam_emission_pec(self, beam_ion, plasma_ion, charge, transition):
        key = BeamRates.bes_key(beam_ion, plasma_ion, charge, transition)
        self.requests.append(("beam_emission_pec", key))
        fn = None if self.rates.is_null("bes", key) else self.rates.emission(beam_ion, plasma_ion, charge, transition)
        return MockBeamEmissionPEC(fn, key, self.log)

    def beam_stopping_rate(self, beam_ion, plasma_ion, charge):
        key = BeamRates.stop_key(beam_ion, plasma_ion, charge)
        self.requests.append(("beam_stopping_rate", key))
        fn = None if self.rates.is_null("stop", key) else self.rates.stopping(beam_ion, plasma_ion, charge)
        return MockBeamStoppingRate(fn, key, self.log)


# ------------------------------------------------------------------------------------------------ attenuator
def beam_density(spec, x, y, z):
    """Generated beam density field in beam coordinates (plain Python; the oracle calls this).

    {"kind": "zero"} | {"kind": "uniform", "n0": ..} |
    {"kind": "gauss", "n0": .., "sigma": .., "decay": ..}   n0 exp(-(x^2+y^2)/(2 sigma^2)) exp(-z/decay)
    """
    kind = spec.get("kind", "uniform")
    if kind == "zero":
        return 0.0
    if kind == "uniform":
        return float(spec["n0"])
    if kind == "gauss":
        s = float(spec["sigma"])
        return float(spec["n0"]) * math.exp(-(x * x + y * y) / (2.0 * s * s)) * math.exp(-z / float(spec["decay"]))
    raise ValueError("unknown beam density kind %r" % (kind,))


class MockBeamAttenuator(BeamAttenuator):
    """BeamAttenuator returning beam_density(spec, x, y, z); records the points it was asked for in `calls`."""

    def __init__(self, spec, clamp_sigma=5.0, beam=None, plasma=None, atomic_data=None):
        super().__init__(beam, plasma, atomic_data)
        self.spec = spec
        self.clamp_sigma = clamp_sigma       # Beam._generate_geometry reads it
        self.calls = []

    def density(self, x, y, z):
        self.calls.append((x, y, z))
        return beam_density(self.spec, x, y, z)
