"""CLI:  python -m vf.run <ID> quick|thorough          (exit 0 held / 1 violation / 2 harness error)
        python -m vf.run <ID> --replay <file>"""
import json
import os
import re
import shutil
import subprocess
import sys
import tempfile
import time

from . import VERIF_DIR, REPO
from . import build, findings


# sensitivity probes (VERIF_REPO=<scratch copy>) must not overwrite the evidence / replays of the real tree
OUT_DIR = VERIF_DIR if REPO == "/repo" else os.path.join(REPO, ".vf_out")


def _default_shards(tier):
    return 8 if tier == "quick" else 16


def main(argv):
    if len(argv) < 2:
        print(__doc__)
        return 2
    pid = argv[0].upper()
    seed = int(os.environ.get("VERIF_SEED", "1") or "1")
    if argv[1] == "--replay":
        return do_replay(pid, argv[2])
    tier = argv[1]
    if tier not in ("quick", "thorough"):
        print("tier must be quick or thorough")
        return 2
    t0 = time.time()
    ok, bt, tail = build.ensure_built()
    if not ok:
        print("[harness] build of %s failed:\n%s" % (REPO, tail))
        return 2

    from .worker import load_module
    mod = load_module(pid)
    nshards = getattr(mod, "SHARDS", {}).get(tier, _default_shards(tier))
    only = os.environ.get("VERIF_ONLY", "")
    tmp = tempfile.mkdtemp(prefix="vf_%s_" % pid)
    procs = []
    try:
        for sh in range(nshards):
            out = os.path.join(tmp, "shard%d.json" % sh)
            cmd = [sys.executable, "-m", "vf.worker", pid, tier, str(sh), str(nshards), str(seed), out, only]
            log = open(os.path.join(tmp, "shard%d.log" % sh), "w")
            env = dict(os.environ, VERIF_JOURNAL=os.path.join(tmp, "shard%d.journal" % sh), VERIF_TIER=tier)
            procs.append((sh, out, subprocess.Popen(cmd, cwd=VERIF_DIR, stdout=log, stderr=subprocess.STDOUT, env=env), log))
        limit = float(os.environ.get("VERIF_TIMEOUT", "1500" if tier == "quick" else "14400"))
        shards, errors, crashes = [], [], []
        for sh, out, p, log in procs:
            try:
                p.wait(timeout=max(1.0, limit - (time.time() - t0)))
            except subprocess.TimeoutExpired:
                p.kill()
                errors.append({"subcheck": "*", "error": "shard %d exceeded the time limit (inconclusive)" % sh})
                continue
            finally:
                log.close()
            if not os.path.exists(out):
                jpath = os.path.join(tmp, "shard%d.journal" % sh)
                if p.returncode is not None and p.returncode < 0 and os.path.exists(jpath):
                    # the interpreter was killed by a signal (e.g. SIGSEGV) inside the code under test: the journal holds
                    # the case that was running; it is reported as a violation with that case as the replay
                    try:
                        with open(jpath) as f:
                            j = json.load(f)
                        crashes.append({"subcheck": j["subcheck"] + "/crash", "case": j["case"],
                                        "message": "the worker process died with signal %d while running this case "
                                                   "(crash inside the code under test)" % (-p.returncode)})
                        continue
                    except Exception:  # noqa
                        pass
                with open(os.path.join(tmp, "shard%d.log" % sh)) as f:
                    errors.append({"subcheck": "*", "error": "shard %d died rc=%s: %s" % (sh, p.returncode, f.read()[-2000:])})
                continue
            with open(out) as f:
                shards.append(json.load(f))
    finally:
        for _, _, p, _ in procs:
            if p.poll() is None:
                p.kill()
        shutil.rmtree(tmp, ignore_errors=True)

    # ---- merge
    evaluations = sum(s["evaluations"] for s in shards)
    nt = set()
    labels, per_sub, samples, violations, info = {}, {}, [], [], {}
    violations.extend(crashes)
    for s in shards:
        nt.update(s["nt_hashes"])
        for k, v in s["labels"].items():
            labels[k] = labels.get(k, 0) + v
        for k, v in s["per_sub"].items():
            d = per_sub.setdefault(k, {"evaluations": 0, "nontrivial": 0, "wall_s": 0.0})
            for kk in d:
                d[kk] += v[kk]
        violations.extend(s["violations"])
        errors.extend(s["errors"])
        for k, v in s.get("info", {}).items():
            if isinstance(v, (int, float)) and not isinstance(v, bool):
                info[k] = info.get(k, 0) + v
            elif isinstance(v, dict):
                d = info.setdefault(k, {})
                for kk, vv in v.items():
                    if isinstance(vv, (int, float)):
                        d[kk] = round(d.get(kk, 0) + vv, 3)
    for k in per_sub:
        per_sub[k]["wall_s"] = round(per_sub[k]["wall_s"], 2)
    # samples: round-robin over sub-checks from the first shards that have them
    seen = {}
    for s in shards:
        for sub, lst in s["samples"].items():
            for x in lst:
                key = (sub, x["nontrivial"])
                if seen.get(key, 0) < (3 if x["nontrivial"] else 1):
                    seen[key] = seen.get(key, 0) + 1
                    samples.append(x)

    # ---- known findings: replay the probe of every open entry
    known_lines, known_report = [], []
    for f in findings.for_property(pid):
        if f["status"] != "open":
            known_report.append({"id": f["id"], "status": f["status"], "commit": f.get("commit"), "what": f["what"]})
            continue
        still = None
        if f.get("probe"):
            still = _probe_fails(mod, os.path.join(VERIF_DIR, f["probe"]))
        if still is None:
            errors.append({"subcheck": "*", "error": "open finding %s has no runnable probe" % f["id"]})
        elif still:
            known_lines.append("KNOWN-FINDING: property=%s %s [%s]" % (pid, f["what"], f["id"]))
        known_report.append({"id": f["id"], "status": "open", "probe_still_fails": still, "what": f["what"]})

    # ---- de-duplicate violations by sub-check (root-cause bucket), write replay files
    out_lines = []
    seen_sub = set()
    for v in violations:
        if v["subcheck"] in seen_sub:
            continue
        seen_sub.add(v["subcheck"])
        rdir = os.path.join(OUT_DIR, "replays", pid)
        os.makedirs(rdir, exist_ok=True)
        from .core import case_hash
        name = re.sub(r"[^A-Za-z0-9_.-]+", "_", v["subcheck"])[:80] + "-" + case_hash(v["case"]) + ".json"
        path = os.path.join(rdir, name)
        with open(path, "w") as f:
            json.dump({"property": pid, "subcheck": v["subcheck"].split("/")[0], "message": v["message"],
                       "case": v["case"], "seed": seed, "tier": tier}, f, indent=1)
        out_lines.append("VIOLATION property=%s replay=%s" % (pid, os.path.relpath(path, VERIF_DIR) if OUT_DIR == VERIF_DIR else path))
        print("[violation] %s: %s" % (v["subcheck"], v["message"][:1500]))

    required = getattr(mod, "REQUIRED_LABELS", [])
    if not violations:
        only_set = set(only.split(",")) if only else None
        for lab in required:
            if only_set and lab.split(":")[0] not in only_set:
                continue
            if labels.get(lab, 0) == 0:
                errors.append({"subcheck": "*", "error": "required class %r never generated (inconclusive)" % lab})

    wall = time.time() - t0
    cov = {"evaluations": int(evaluations), "distinct_nontrivial": len(nt), "rule": mod.RULE,
           "samples": samples[:24], "per_subcheck": per_sub,
           "class_histogram": dict(sorted(labels.items())), "shards": nshards, "build_s": round(bt, 1),
           "known_findings": known_report, "harness_errors": errors[:10], "info": info}
    if getattr(mod, "EXHAUSTIVE", False):
        cov["exhaustive"] = True
    if hasattr(mod, "TOLERANCES"):
        cov["tolerances"] = mod.TOLERANCES
    evidence = {"property_id": pid, "tier": tier, "seed": seed, "level": "exploration", "coverage": cov,
                "assumptions": list(getattr(mod, "ASSUMPTIONS", [])), "wall_s": round(wall, 2),
                "violations": len(seen_sub)}
    os.makedirs(os.path.join(OUT_DIR, "evidence"), exist_ok=True)
    with open(os.path.join(OUT_DIR, "evidence", "%s.json" % pid), "w") as f:
        json.dump(evidence, f, indent=1, sort_keys=True)

    for line in known_lines:
        print(line)
    print("[%s %s seed=%d] cases=%d distinct_nontrivial=%d violations=%d errors=%d wall=%.1fs"
          % (pid, tier, seed, evaluations, len(nt), len(seen_sub), len(errors), wall))
    for k, v in sorted(per_sub.items()):
        print("   %-28s cases=%-7d nontrivial=%-7d cpu=%.1fs" % (k, v["evaluations"], v["nontrivial"], v["wall_s"]))
    if out_lines:
        for line in out_lines:
            print(line)
        return 1
    if errors:
        for e in errors[:5]:
            print("[harness-error] %s: %s" % (e["subcheck"], e["error"][:3000]))
        return 2
    return 0


def _probe_fails(mod, path):
    from . import core
    if not os.path.exists(path):
        return None
    with open(path) as f:
        rp = json.load(f)
    sub = mod.SUBCHECKS[rp["subcheck"]]
    v = core.replay(rp["subcheck"], sub, core.unjson(rp["case"]), core.Evidence())
    return v is not None


def do_replay(pid, path):
    ok, bt, tail = build.ensure_built()
    if not ok:
        print("[harness] build failed:\n%s" % tail)
        return 2
    from .worker import load_module
    from . import core
    mod = load_module(pid)
    with open(path) as f:
        rp = json.load(f)
    sub = mod.SUBCHECKS[rp["subcheck"]]
    v = core.replay(rp["subcheck"], sub, core.unjson(rp["case"]), core.Evidence())
    if v is None:
        print("[replay] %s: case passes" % pid)
        return 0
    print("[replay] %s: %s" % (v.subcheck, v.message[:3000]))
    print("VIOLATION property=%s replay=%s" % (pid, path))
    return 1


if __name__ == "__main__":
    sys.exit(main(sys.argv[1:]))
