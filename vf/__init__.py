"""Property-based verification framework for vsnever/cherab-core (see /verif/DESIGN.md)."""
import os
import sys

VERIF_DIR = os.path.dirname(os.path.dirname(os.path.abspath(__file__)))
REPO = os.path.abspath(os.environ.get("VERIF_REPO", "/repo"))


def bootstrap_repo():
    """Make `import cherab` resolve to REPO (default /repo, the editable install).

    Only does something when VERIF_REPO points at a scratch copy (sensitivity probes);
    registered commands never set it.
    """
    if REPO != "/repo":
        import cherab  # namespace package pre-created by the nspkg .pth of the editable install
        cherab.__path__[:] = [os.path.join(REPO, "cherab")]
        for k in [k for k in sys.modules if k.startswith("cherab.")]:
            del sys.modules[k]
