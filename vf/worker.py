"""One shard of one property: python -m vf.worker <ID> <tier> <shard> <nshards> <seed> <out.json> [sub,sub]"""
import hashlib
import importlib
import json
import math
import os
import sys
import time
import warnings


def derive_seed(seed, pid, sub, shard):
    h = hashlib.sha1(("%d:%s:%s:%d" % (seed, pid, sub, shard)).encode()).hexdigest()
    return int(h[:12], 16)


def load_module(pid):
    from . import bootstrap_repo
    bootstrap_repo()
    return importlib.import_module("vf.props.%s" % pid.lower())


def main(argv):
    pid, tier, shard, nshards, seed, out = argv[0], argv[1], int(argv[2]), int(argv[3]), int(argv[4]), argv[5]
    only = set(argv[6].split(",")) if len(argv) > 6 and argv[6] else None
    warnings.simplefilter("ignore")
    from . import core
    ev = core.Evidence()
    t0 = time.time()
    try:
        mod = load_module(pid)
        scale = float(os.environ.get("VERIF_SCALE", "1"))
        for name, sub in mod.SUBCHECKS.items():
            if only and name not in only:
                continue
            ts = time.time()
            if sub.kind == "enum":
                core.drive_enum(name, sub, shard, nshards, tier, ev)
            else:
                total = sub.quick if tier == "quick" else sub.thorough
                n = int(math.ceil(total * scale / nshards))
                s = derive_seed(seed, pid, name, shard)
                if sub.kind == "given":
                    core.drive_given(name, sub, n, s, tier, ev)
                else:
                    core.drive_machine(name, sub, n, s, tier, ev)
            ev.info.setdefault("sub_wall_s", {})[name] = round(time.time() - ts, 2)
        if hasattr(mod, "shard_info"):
            ev.info.update(mod.shard_info())
    except BaseException as e:  # import errors etc.: harness error
        import traceback
        ev.errors.append({"subcheck": "*", "error": "worker crashed %s: %s\n%s"
                          % (type(e).__name__, e, traceback.format_exc()[-3000:])})
    ev.info["wall_s"] = round(time.time() - t0, 2)
    with open(out, "w") as f:
        json.dump(ev.to_json(), f)


if __name__ == "__main__":
    main(sys.argv[1:])
