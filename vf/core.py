"""Core of the framework: Violation, per-case context, evidence collection, Hypothesis drivers.

A property module (vf/props/cNN.py) exposes

    ID, RULE, ASSUMPTIONS, SUBCHECKS = {name: Given(...) | Machine(...) | Enum(...)}

Every sub-check works on a JSON-serialisable *case*; `run(case, ctx)` builds real objects from it,
runs the code under test and asserts the oracle through `ctx`.  A replay file is
{"property":..., "subcheck":..., "case":...} and is executed by calling `run` directly, without
Hypothesis.
"""
import contextlib
import hashlib
import json
import math
import os
import time
import traceback

import numpy as np


class Violation(Exception):
    def __init__(self, subcheck, message):
        super().__init__("%s: %s" % (subcheck, message))
        self.subcheck = subcheck
        self.message = message


class HarnessError(Exception):
    """Something is wrong with the machinery (never reported as a violation)."""


def jsonable(x):
    if isinstance(x, dict):
        return {str(k): jsonable(v) for k, v in x.items()}
    if isinstance(x, (list, tuple)):
        return [jsonable(v) for v in x]
    if isinstance(x, np.ndarray):
        return jsonable(x.tolist())
    if isinstance(x, (np.floating,)):
        return jsonable(float(x))
    if isinstance(x, (np.integer,)):
        return int(x)
    if isinstance(x, (np.bool_,)):
        return bool(x)
    if isinstance(x, float):
        if math.isnan(x):
            return {"__float__": "nan"}
        if math.isinf(x):
            return {"__float__": "inf" if x > 0 else "-inf"}
        return x
    if isinstance(x, (bytes, bytearray)):
        return {"__bytes__": bytes(x).hex()}
    return x


def unjson(x):
    if isinstance(x, dict):
        if set(x) == {"__float__"}:
            return float(x["__float__"])
        if set(x) == {"__bytes__"}:
            return bytes.fromhex(x["__bytes__"])
        return {k: unjson(v) for k, v in x.items()}
    if isinstance(x, list):
        return [unjson(v) for v in x]
    return x


def canon(case):
    return json.dumps(jsonable(case), sort_keys=True, separators=(",", ":"))


def case_hash(case):
    return hashlib.sha1(canon(case).encode()).hexdigest()[:16]


def abbreviate(x, maxlist=12, maxstr=200):
    """Shorten a case for the evidence samples (long lists are cut, marked with a count)."""
    if isinstance(x, dict):
        return {k: abbreviate(v, maxlist, maxstr) for k, v in x.items()}
    if isinstance(x, list):
        if len(x) > maxlist:
            return [abbreviate(v, maxlist, maxstr) for v in x[:maxlist]] + ["... %d more" % (len(x) - maxlist)]
        return [abbreviate(v, maxlist, maxstr) for v in x]
    if isinstance(x, str) and len(x) > maxstr:
        return x[:maxstr] + "...(%d chars)" % len(x)
    return x


class Ctx:
    """Per-case context handed to run(case, ctx)."""

    def __init__(self, ev, subcheck):
        self.ev = ev
        self.subcheck = subcheck
        self.labels = []
        self.nontrivial = False
        self.extra = {}

    def label(self, *labels):
        self.labels.extend(labels)

    def nt(self, flag=True):
        if flag:
            self.nontrivial = True

    def fail(self, what, message):
        raise Violation("%s/%s" % (self.subcheck, what), message)

    def check(self, cond, what, message):
        if not cond:
            self.fail(what, message() if callable(message) else message)

    def close(self, got, want, what, rtol=1e-9, atol=0.0, scale=None, info=""):
        """|got - want| <= atol + rtol * scale  (scale defaults to max|want|)."""
        g = np.asarray(got, dtype=float)
        w = np.asarray(want, dtype=float)
        if g.shape != w.shape:
            self.fail(what, "shape %s != %s %s" % (g.shape, w.shape, info))
        if g.size == 0:
            return
        if not (np.all(np.isfinite(g)) == np.all(np.isfinite(w))):
            self.fail(what, "finiteness differs: got %s want %s %s" % (_short(g), _short(w), info))
        if not np.all(np.isfinite(w)):
            if not np.array_equal(g, w, equal_nan=True):
                self.fail(what, "non-finite mismatch got %s want %s %s" % (_short(g), _short(w), info))
            return
        s = float(np.max(np.abs(w))) if scale is None else float(scale)
        err = float(np.max(np.abs(g - w)))
        if not err <= atol + rtol * s:
            i = int(np.argmax(np.abs(g - w)))
            self.fail(what, "max|got-want|=%.6g > tol %.3g (scale %.6g) at flat index %d: got %r want %r %s"
                      % (err, atol + rtol * s, s, i, float(g.flat[i]), float(w.flat[i]), info))

    @contextlib.contextmanager
    def cut(self, what, allowed=()):
        """Run code under test; any exception it raises (other than `allowed`) is a violation."""
        try:
            yield
        except Violation:
            raise
        except allowed:
            raise
        except Exception as e:  # noqa
            tb = traceback.format_exc(limit=6)
            raise Violation("%s/%s" % (self.subcheck, what),
                            "code under test raised %s: %s\n%s" % (type(e).__name__, e, tb[-1500:]))

    def raises(self, exc_types, what, fn, *a, **k):
        """fn must raise one of exc_types; anything else (incl. returning) is a violation."""
        try:
            r = fn(*a, **k)
        except exc_types as e:
            return e
        except Violation:
            raise
        except Exception as e:  # noqa
            self.fail(what, "expected %s, got %s: %s" % (_names(exc_types), type(e).__name__, e))
        self.fail(what, "expected %s, but call returned %r" % (_names(exc_types), _shortrepr(r)))


def _names(t):
    if isinstance(t, tuple):
        return "/".join(x.__name__ for x in t)
    return t.__name__


def _short(a):
    a = np.asarray(a)
    return np.array2string(a.ravel()[:6], precision=6)


def _shortrepr(r):
    s = repr(r)
    return s if len(s) < 120 else s[:120] + "..."


class Evidence:
    """Counters for one shard."""

    MAX_SAMPLES_PER_SUB = 4

    def __init__(self):
        self.evaluations = 0
        self.per_sub = {}
        self.labels = {}
        self.nt_hashes = set()
        self.samples = {}
        self.violations = []
        self.errors = []
        self.info = {}

    def _sub(self, name):
        return self.per_sub.setdefault(name, {"evaluations": 0, "nontrivial": 0, "wall_s": 0.0})

    def record(self, ctx, case, wall):
        self.evaluations += 1
        s = self._sub(ctx.subcheck)
        s["evaluations"] += 1
        s["wall_s"] += wall
        for lab in ctx.labels:
            key = "%s:%s" % (ctx.subcheck, lab)
            self.labels[key] = self.labels.get(key, 0) + 1
        if ctx.nontrivial:
            h = case_hash(case)
            if h not in self.nt_hashes:
                self.nt_hashes.add(h)
                s["nontrivial"] += 1
        lst = self.samples.setdefault(ctx.subcheck, [])
        n_nt = sum(1 for x in lst if x["nontrivial"])
        want = (ctx.nontrivial and n_nt < self.MAX_SAMPLES_PER_SUB - 1) or \
               (not ctx.nontrivial and len(lst) - n_nt < 1)
        if want:
            lst.append({"subcheck": ctx.subcheck, "nontrivial": ctx.nontrivial,
                        "labels": sorted(set(ctx.labels))[:12], "case": abbreviate(jsonable(case))})

    def to_json(self):
        return {"evaluations": self.evaluations, "per_sub": self.per_sub, "labels": self.labels,
                "nt_hashes": sorted(self.nt_hashes), "samples": self.samples,
                "violations": self.violations, "errors": self.errors, "info": self.info}


# ------------------------------------------------------------------------------------------------
# sub-check descriptors

def deep(quick, thorough):
    """size bound of a generator: the thorough tier explores deeper (bigger grids, matrices, histories); VERIF_TIER is exported
    by vf.run to its workers.  Replays carry the case itself and never consult this."""
    return thorough if os.environ.get("VERIF_TIER") == "thorough" else quick


class Given:
    """Input/configuration property: strategy() -> case ; run(case, ctx)."""
    kind = "given"

    def __init__(self, strategy, run, quick, thorough, shrink_s=(40, 240), doc=""):
        self.strategy, self.run, self.quick, self.thorough = strategy, run, quick, thorough
        self.shrink_s = shrink_s
        self.doc = doc


class Enum:
    """Finite domain, enumerated: cases(tier) -> iterable of cases (sharded by index); run(case, ctx)."""
    kind = "enum"

    def __init__(self, cases, run, doc=""):
        self.cases, self.run, self.doc = cases, run, doc


class Machine:
    """History property.  `model` is a class with

        def __init__(self, ctx, params)        # params: JSON-able dict drawn from params_strategy()
        OPS = {"opname": lambda: strategy_of_JSON_args, ...}
        def pre_<opname>(self) -> bool         # optional precondition
        def do_<opname>(self, args)            # apply to the real object AND the reference model
        def invariant(self)                    # runs after every step
        def finish(self)                       # final comparison + self.ctx.nt(...) / labels
        def close(self)                        # release resources

    The case is {"params": ..., "ops": [[name, args], ...]}; it is what the RuleBasedStateMachine logs
    while Hypothesis drives it, and what --replay interprets.
    """
    kind = "machine"

    def __init__(self, model, quick, thorough, steps=(20, 30), params=None, shrink_s=(40, 240), doc=""):
        self.model, self.quick, self.thorough, self.steps = model, quick, thorough, steps
        self.params = params
        self.shrink_s = shrink_s
        self.doc = doc

    def run(self, case, ctx):
        m = self.model(ctx, case["params"])
        try:
            for name, args in case["ops"]:
                pre = getattr(m, "pre_" + name, None)
                if pre is not None and not pre():
                    continue  # op no longer applicable after shrinking / replay on other code
                getattr(m, "do_" + name)(args)
                m.invariant()
            m.finish()
        finally:
            m.close()


# ------------------------------------------------------------------------------------------------
# drivers

def _settings(n, tier, extra=None):
    from hypothesis import settings, HealthCheck, Phase, Verbosity
    kw = dict(max_examples=max(1, n), database=None, deadline=None, derandomize=False,
              report_multiple_bugs=False, print_blob=False,
              suppress_health_check=[HealthCheck.too_slow, HealthCheck.data_too_large,
                                     HealthCheck.large_base_example, HealthCheck.filter_too_much],
              phases=[Phase.generate, Phase.shrink], verbosity=Verbosity.quiet)
    if extra:
        kw.update(extra)
    return settings(**kw)


_JOURNAL = os.environ.get("VERIF_JOURNAL")


def journal(sub_name, case):
    """Remember the case about to run, so that the parent can report it if this process dies (segfault in the
    code under test): written before every @given case / after every machine step."""
    if not _JOURNAL:
        return
    try:
        with open(_JOURNAL, "w") as f:
            json.dump({"subcheck": sub_name, "case": jsonable(case)}, f)
    except Exception:  # noqa
        pass


class _ShrinkGuard:
    """Bounds the time Hypothesis spends shrinking: after `budget` seconds past the first failure,
    every new candidate is declared passing without being run, and the best failing case so far is
    re-raised from memory, so Hypothesis terminates with that case."""

    def __init__(self, budget):
        self.budget = budget
        self.t_first = None
        self.best = None       # (canon(case), case, Violation)
        self.exhausted = False

    def before(self, case):
        """returns None to run the case, or a Violation to re-raise, or False to skip (pass)."""
        if self.t_first is None or time.time() - self.t_first <= self.budget:
            return None
        self.exhausted = True
        if self.best is not None and canon(case) == self.best[0]:
            return self.best[2]
        return False

    def failed(self, case, exc):
        if self.t_first is None:
            self.t_first = time.time()
        self.best = (canon(case), case, exc)


def _execute(sub_name, runfn, case, ev, guard):
    """Run one case under a fresh Ctx; record evidence; convert failure into Violation."""
    g = guard.before(case) if guard is not None else None
    if g is False:
        return
    if g is not None:
        raise g
    ctx = Ctx(ev, sub_name)
    t0 = time.time()
    journal(sub_name, case)
    try:
        runfn(case, ctx)
    except Violation as v:
        if guard is not None:
            guard.failed(case, v)
        raise
    ev.record(ctx, case, time.time() - t0)


def drive_given(sub_name, sub, n, seed_value, tier, ev):
    from hypothesis import given, seed
    import hypothesis.errors as herr
    guard = _ShrinkGuard(sub.shrink_s[0 if tier == "quick" else 1])

    @_settings(n, tier)
    @seed(seed_value)
    @given(sub.strategy())
    def test(case):
        _execute(sub_name, sub.run, case, ev, guard)

    _run_hyp(test, sub_name, guard, ev, herr)


def _run_hyp(test, sub_name, guard, ev, herr):
    try:
        test()
    except Violation as v:
        case = guard.best[1] if guard.best is not None else None
        ev.violations.append({"subcheck": v.subcheck, "message": v.message[:3000], "case": jsonable(case),
                              "shrink_budget_exhausted": guard.exhausted})
    except (herr.Flaky, herr.FlakyFailure) as e:  # e.g. shrink guard edge cases, or genuinely flaky code
        if guard.best is not None:
            v = guard.best[2]
            ev.violations.append({"subcheck": v.subcheck, "message": v.message[:3000],
                                  "case": jsonable(guard.best[1]), "flaky": str(e)[:500],
                                  "shrink_budget_exhausted": guard.exhausted})
        else:
            ev.errors.append({"subcheck": sub_name, "error": "Flaky without recorded failure: %s" % str(e)[:800]})
    except (herr.FailedHealthCheck, herr.Unsatisfiable, herr.InvalidArgument) as e:
        ev.errors.append({"subcheck": sub_name, "error": "%s: %s" % (type(e).__name__, str(e)[:800])})
    except BaseException as e:  # harness bug: never a violation
        if isinstance(e, (KeyboardInterrupt, SystemExit)):
            raise
        ev.errors.append({"subcheck": sub_name, "error": "harness exception %s: %s\n%s"
                          % (type(e).__name__, str(e)[:500], traceback.format_exc()[-2500:])})


def drive_enum(sub_name, sub, shard, nshards, tier, ev):
    for i, case in enumerate(sub.cases(tier)):
        if i % nshards != shard:
            continue
        try:
            _execute(sub_name, sub.run, case, ev, None)
        except Violation as v:
            ev.violations.append({"subcheck": v.subcheck, "message": v.message[:3000], "case": jsonable(case)})
            if len(ev.violations) >= 5:
                break
        except Exception as e:  # noqa
            ev.errors.append({"subcheck": sub_name, "error": "harness exception %s: %s\n%s"
                              % (type(e).__name__, str(e)[:500], traceback.format_exc()[-2500:])})
            break


def drive_machine(sub_name, sub, n, seed_value, tier, ev):
    """Real Hypothesis stateful testing: one rule per op; every executed op is logged so that the
    shrunk history is available as a JSON case."""
    from hypothesis import seed, strategies as st
    from hypothesis.stateful import RuleBasedStateMachine, rule, precondition, initialize, invariant, \
        run_state_machine_as_test
    import hypothesis.errors as herr
    guard = _ShrinkGuard(sub.shrink_s[0 if tier == "quick" else 1])
    model_cls = sub.model
    steps = sub.steps[0 if tier == "quick" else 1]
    params_strategy = sub.params() if sub.params is not None else st.just({})

    class M(RuleBasedStateMachine):
        def __init__(self):
            super().__init__()
            self.m = None
            self.case = None
            self.ctx = None
            self.t0 = time.time()
            self.skip = False
            self.failed = None

        @initialize(params=params_strategy)
        def init(self, params):
            if guard.t_first is not None and time.time() - guard.t_first > guard.budget:
                guard.exhausted = True     # stop shrinking: every further candidate "passes";
                self.skip = True           # Hypothesis then ends with Flaky, handled in _run_hyp
                return
            self.case = {"params": params, "ops": []}
            self.ctx = Ctx(ev, sub_name)
            self.m = model_cls(self.ctx, params)

        def _apply(self, name, args):
            if self.skip:
                return
            self.case["ops"].append([name, args])
            journal(sub_name, self.case)
            try:
                getattr(self.m, "do_" + name)(args)
                self.m.invariant()
            except Violation as v:
                self.failed = v
                raise

        def teardown(self):
            if self.m is None:
                return
            try:
                if self.failed is None:
                    try:
                        self.m.finish()
                    except Violation as v:
                        self.failed = v
                        raise
                    ev.record(self.ctx, self.case, time.time() - self.t0)
            finally:
                if self.failed is not None:
                    guard.failed(self.case, self.failed)
                self.m.close()
                self.m = None

    def make_rule(name, strat_fn):
        def r(self, args):
            self._apply(name, args)
        r.__name__ = "op_" + name
        r = rule(args=strat_fn())(r)
        if hasattr(model_cls, "pre_" + name):
            pre = getattr(model_cls, "pre_" + name)
            r = precondition(lambda self, pre=pre: self.skip or (self.m is not None and pre(self.m)))(r)
        return r

    for name, strat_fn in model_cls.OPS.items():
        setattr(M, "op_" + name, make_rule(name, strat_fn))

    def test():
        run_state_machine_as_test(seed(seed_value)(M),
                                  settings=_settings(n, tier, {"stateful_step_count": steps}))

    _run_hyp(test, sub_name, guard, ev, herr)


def replay(sub_name, sub, case, ev):
    """Run one stored case directly (no Hypothesis). Returns the Violation or None."""
    ctx = Ctx(ev, sub_name)
    try:
        sub.run(case, ctx)
    except Violation as v:
        return v
    return None
