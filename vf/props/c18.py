"""C18 - laser profiles integrate to the pulse energy, segments tile the laser, binned spectra integrate the
unit-power spectral density, and every setter history ends in the state of a freshly constructed object."""
import math
import os

import numpy as np
from hypothesis import strategies as st
from scipy import constants as SC
from scipy.special import ndtr

from ..core import Given, Machine
from ..findings import is_open

from raysect.optical import World, Vector3D  # noqa: E402
from raysect.primitive import Cylinder  # noqa: E402
from cherab.core.laser import Laser  # noqa: E402
from cherab.core.model.laser import (UniformEnergyDensity, ConstantBivariateGaussian, TrivariateGaussian,  # noqa: E402
                                     GaussianBeamAxisymmetric, ConstantSpectrum, GaussianSpectrum)
from cherab.core.model.laser.profile import generate_segmented_cylinder  # noqa: E402

ID = "C18"
SHARDS = {"quick": 8, "thorough": 16}

# ---- known findings: ONE switch per class.  While an entry is open its input class is excluded *in the generators*
# (run() itself never looks at these, so the committed probe replays keep failing until /repo is fixed).
# VERIF_C18_NO_EXCLUSIONS=1 switches every exclusion off (used to validate proposed patches on a scratch copy).
_NOEXCL = os.environ.get("VERIF_C18_NO_EXCLUSIONS", "") == "1"
F_GS = "C18-gaussian-spectrum-stale-bins"      # GaussianSpectrum.mean / .stddev setters do not rebin
F_MAX = "C18-get-max-wavelenth"                # get_max_wavelenth() returns the minimum
F_CS = "C18-constant-spectrum-half-bins"       # ConstantSpectrum first/last bin halved by rounding of the bin edges
F_PE = "C18-bivariate-pulse-energy-stale"      # ConstantBivariateGaussian.pulse_energy does not rebuild the density


def _open(fid):
    return (not _NOEXCL) and is_open(fid)


RULE = ("Hypothesis strategies. Profile objects are constructed with keyword arguments of which none / a random subset / "
        "all are OMITTED (the documented default then is the parameter value); every constructor and setter value is "
        "drawn from a log-uniform/uniform range 3 times out of 4 and otherwise is EXACTLY a constructor default or an "
        "internal preset of an __init__ (1.0, 0.01, 0.1, 1e-3, 1/c, 0.05, 1e3, (0,1,0) ...). xsec: one of the 4 profile "
        "classes (waist 3e-5..1e-2 m so that Rayleigh ranges from 0.5 mm to km occur) and 2 axial positions in [-2, 5] m; "
        "the energy density is integrated numerically (self-scaled trapezoid over +-9 measured half-widths; "
        "Gauss-Legendre x trapezoid over the disc for the uniform profile; 3-D for the trivariate pulse). segments: "
        "length/(2 radius) drawn by class ([0,1), [1,2), [2,3), [3,4), exactly 1, 2, 3, an integer 4..40, k+f with k in "
        "4..40) with the radius free, = 0.05 or the length = 1.0 (or omitted), for each profile class, through "
        "generate_segmented_cylinder, profile.generate_geometry() and a Laser node. spectrum: ConstantSpectrum / "
        "GaussianSpectrum (positional or keyword call) with range, bins (1..200), mean, stddev by class (line inside / "
        "cut / outside the range). hist: a state machine over every public setter of the 6 classes (20-30 steps); the "
        "object is fully observed (energy density / binned spectrum / geometry / accessors) before the first setter "
        "and immediately after EVERY setter, before the next one, and compared with an object freshly constructed "
        "with all arguments explicit. Non-trivial: xsec - every case (distinct parameter set actually integrated); "
        "segments - length < 2r or a non-integer length/(2r) with >= 2 segments; spectrum - a Gaussian line cut by the "
        "range, or >= 2 bins with the line inside, or a constant spectrum with >= 2 bins; hist - >= 2 setter steps, "
        "made after the object was already observed, that each changed the observable state.")
ASSUMPTIONS = [
    "scipy.constants.c is the speed of light the statement refers to; scipy.special.ndtr is the normal CDF",
    "UniformEnergyDensity has no pulse energy/length: its cross-section is the disc of laser_radius and "
    "E_p/(c tau) is read as energy_density * pi * laser_radius^2",
    "the transverse (and, for the trivariate pulse, axial) energy density is unimodal about the axis (about mean_z) and "
    "decays like a Gaussian, as documented: the quadrature scales itself from half-widths measured on the function, "
    "it does not use the generated widths, so the check does not depend on how sigma(z) is modelled",
    "'reported parameter' = the value handed to the constructor/setter (a fresh object built with max_wavelength=M "
    "must report M from every accessor), property getters compared for exact equality",
    "only valid parameter values are generated (rejected setters are outside the statement)",
    "the default values in the constructor signatures of profile.pyx are the documented defaults (DEFAULTS table)",
]
_EPS = float(np.finfo(float).eps)
TOLERANCES = {
    "xsec": "rtol 1e-9 of E_p/(c tau): trapezoid with step 0.5 sigma over +-9 sigma of an entire Gaussian has relative "
            "error 2exp(-2 pi^2/0.25)+erfc(9/sqrt2) < 1e-18 per axis, the rest is summation rounding (<1e-12)",
    "segments": "|z-mismatch| <= 1e-9 * length (i*segment_length vs running sum, n <= 400 segments); radius rtol 1e-12",
    "spectrum.power": "rtol 1e-9 + atol pdf_max*(bins+6)*ulp(max_wavelength) + 8eps: the code accumulates the bin edges "
                      "by repeated addition (<= 1/2 ulp each), an edge shift d changes a bin integral by <= pdf_max*d",
    "spectrum.wavelengths": "atol 1e-9*delta + 8 ulp(max_wavelength)",
    "spectrum.sum": "1e-9 (inside: mass beyond 9 sigma is 2e-19; bins*eps rounding)",
    "hist": "element-wise rtol 1e-9 (same arithmetic on the same parameters in both objects); reported parameters exact",
}
_KINDS = ["uniform", "bivariate", "trivariate", "gaussbeam"]
REQUIRED_LABELS = (["xsec:uniform", "xsec:bivariate", "xsec:trivariate", "xsec:gaussbeam", "xsec:gaussbeam:far",
                    "xsec:omit:none", "xsec:omit:some", "xsec:omit:all", "xsec:special-value",
                    "segments:short", "segments:single", "segments:int", "segments:nonint",
                    "segments:omit:some", "segments:omit:all",
                    "spectrum:const", "spectrum:gauss:inside", "spectrum:gauss:cut", "spectrum:gauss:outside",
                    "hist:kind:uniform", "hist:kind:bivariate", "hist:kind:trivariate", "hist:kind:gaussbeam",
                    "hist:kind:const_spectrum", "hist:kind:gauss_spectrum",
                    "hist:omit:some", "hist:omit:all", "hist:set-special-value"]
                   # every length/(2r) band and n_segments == 2, per profile class (each case goes through the function,
                   # profile.generate_geometry() and the Laser node)
                   + ["segments:%s:%s" % (k, b) for k in _KINDS
                      for b in ("band0", "band1", "band2", "band3", "int1", "int2", "int3", "n2")])

PROFILES = {"uniform": UniformEnergyDensity, "bivariate": ConstantBivariateGaussian,
            "trivariate": TrivariateGaussian, "gaussbeam": GaussianBeamAxisymmetric}
SPECTRA = {"const_spectrum": ConstantSpectrum, "gauss_spectrum": GaussianSpectrum}
PROFILE_KEYS = {
    "uniform": ["energy_density", "laser_length", "laser_radius"],
    "bivariate": ["pulse_energy", "pulse_length", "laser_radius", "laser_length", "stddev_x", "stddev_y"],
    "trivariate": ["pulse_energy", "pulse_length", "mean_z", "laser_length", "laser_radius", "stddev_x", "stddev_y"],
    "gaussbeam": ["pulse_energy", "pulse_length", "laser_length", "laser_radius", "waist_z", "stddev_waist", "laser_wavelength"],
}
SPECTRUM_KEYS = {"const_spectrum": ["min_wavelength", "max_wavelength", "bins"],
                 "gauss_spectrum": ["min_wavelength", "max_wavelength", "bins", "mean", "stddev"]}
# documented constructor defaults (signatures in cherab/core/model/laser/profile.pyx); the spectra have none
DEFAULTS = {
    "uniform": {"energy_density": 1.0, "laser_length": 1.0, "laser_radius": 0.05},
    "bivariate": {"pulse_energy": 1.0, "pulse_length": 1.0, "laser_radius": 0.05, "laser_length": 1.0,
                  "stddev_x": 0.01, "stddev_y": 0.01},
    "trivariate": {"pulse_energy": 1.0, "pulse_length": 1.0, "mean_z": 0.0, "laser_length": 1.0, "laser_radius": 0.05,
                   "stddev_x": 0.01, "stddev_y": 0.01},
    "gaussbeam": {"pulse_energy": 1.0, "pulse_length": 1.0, "laser_length": 1.0, "laser_radius": 0.05, "waist_z": 0.0,
                  "stddev_waist": 0.01, "laser_wavelength": 1e3},
}
DEFAULT_POL = [0.0, 1.0, 0.0]
# values equal to a constructor default or to an internal preset of an __init__ (profile classes and the
# Function3D helpers in math_functions.pyx; _stddev_z = 1 corresponds to pulse_length = 1/c)
SPECIAL = {
    "energy_density": [1.0], "pulse_energy": [1.0], "pulse_length": [1.0, 1.0 / SC.c],
    "stddev_x": [0.01, 0.1, 1.0], "stddev_y": [0.01, 0.1, 1.0], "mean_z": [0.0, 1.0], "waist_z": [0.0],
    "stddev_waist": [0.01, 0.1, 1e-3], "laser_wavelength": [1e3], "laser_radius": [0.05], "laser_length": [1.0],
}
GEOM_CLASSES = ["band0", "band1", "band2", "band3", "int1", "int2", "int3", "int", "nonint"]


# ------------------------------------------------------------------------------------------------ strategies
def _logu(a, b):
    return st.floats(math.log(a), math.log(b)).map(math.exp)


@st.composite
def _polarization(draw):
    v = [draw(st.floats(-1.0, 1.0)) for _ in range(3)]
    v[draw(st.integers(0, 2))] = draw(st.sampled_from([-1.0, 1.0]))     # never the zero vector
    s = draw(st.sampled_from([1.0, 1.0, 0.01, 37.5]))                    # setter must normalise
    return [x * s for x in v]


GENERAL = {
    "energy_density": lambda: _logu(1e-3, 1e6), "pulse_energy": lambda: _logu(1e-3, 1e2),
    "pulse_length": lambda: _logu(1e-10, 1e-6), "stddev_x": lambda: _logu(1e-4, 0.1), "stddev_y": lambda: _logu(1e-4, 0.1),
    "mean_z": lambda: st.floats(-5.0, 5.0), "waist_z": lambda: st.floats(-2.0, 3.0),
    "stddev_waist": lambda: _logu(3e-5, 1e-2), "laser_wavelength": lambda: _logu(200.0, 11000.0),
}


def _val(name, general=None):
    """general value 3 times out of 4, else a constructor default / internal preset, exactly."""
    g = general if general is not None else GENERAL[name]()
    return st.one_of(g, g, g, st.sampled_from(SPECIAL[name]))


def _pol():
    return st.one_of(_polarization(), _polarization(), _polarization(), st.just(list(DEFAULT_POL)))


def _ratio(cls):
    """laser_length / (2 laser_radius) by class."""
    if cls == "band0":
        return st.floats(0.05, 0.999)
    if cls.startswith("band"):
        return st.floats(0.001, 0.999).map(lambda f, k=int(cls[4:]): k + f)
    if cls == "int":
        return st.integers(4, 40).map(float)
    if cls.startswith("int"):
        return st.just(float(cls[3:]))
    return st.builds(lambda k, f: k + f, st.integers(4, 40), st.floats(0.02, 0.98))


@st.composite
def profile_case(draw, kind, geom_cls=None, modes=("none", "none", "some", "some", "all")):
    """-> (p, omit): p holds the effective value of every parameter, `omit` names the constructor keyword arguments
    that are left out (their value in p is the documented default)."""
    keys = PROFILE_KEYS[kind] + ["polarization"]
    mode = draw(st.sampled_from(list(modes)))
    omit = [] if mode == "none" else list(keys) if mode == "all" else [k for k in keys if draw(st.booleans())]
    if geom_cls is not None and "laser_radius" in omit and "laser_length" in omit:
        omit.remove("laser_length")            # a forced length/(2r) class needs one free parameter
    ro, lo = "laser_radius" in omit, "laser_length" in omit
    if ro and lo:
        r, length = 0.05, 1.0
    else:
        ratio = draw(_ratio(geom_cls or draw(st.sampled_from(GEOM_CLASSES))))
        anchor = "r" if ro else "L" if lo else draw(st.sampled_from(["free", "free", "free", "r", "L"]))
        if anchor == "r":
            r = 0.05
            length = 2.0 * r * ratio
        elif anchor == "L":
            length = 1.0
            r = length / (2.0 * ratio)
        else:
            r = draw(_logu(1e-3, 0.2))
            length = 2.0 * r * ratio
    p = {"laser_radius": r, "laser_length": length,
         "polarization": list(DEFAULT_POL) if "polarization" in omit else draw(_pol())}
    for k in PROFILE_KEYS[kind]:
        if k not in p:
            p[k] = DEFAULTS[kind][k] if k in omit else draw(_val(k))
    return p, omit


@st.composite
def xsec_strategy(draw):
    kind = draw(st.sampled_from(["uniform", "bivariate", "bivariate", "trivariate", "gaussbeam", "gaussbeam"]))
    p, omit = draw(profile_case(kind))
    return {"kind": kind, "p": p, "omit": omit, "z": [draw(st.floats(-2.0, 5.0)) for _ in range(2)]}


@st.composite
def segments_strategy(draw):
    kind = draw(st.sampled_from(sorted(PROFILES)))
    cls = draw(st.sampled_from(GEOM_CLASSES + ["default"]))
    p, omit = draw(profile_case(kind, cls) if cls != "default" else profile_case(kind, None, ("some", "all", "all")))
    return {"kind": kind, "cls": cls, "p": p, "omit": omit}


def const_halved(mn, mx, bins):
    """Replicates LaserSpectrum._update_cache's edge arithmetic: (first, last) bin evaluated outside [min, max]."""
    d = (mx - mn) / bins
    lo = (mn + 0.5 * d) - d * 0.5
    first = not (mn <= lo <= mx)
    up = lo
    for _ in range(bins):
        up = lo + d
        lo = up
    return first, not (mn <= up <= mx)


@st.composite
def spectrum_params(draw, kind, cls=None):
    mn = draw(st.floats(150.0, 2000.0))
    width = draw(_logu(0.02, 300.0))
    mx = mn + width
    bins = draw(st.one_of(st.integers(1, 6), st.integers(1, 200)))
    p = {"min_wavelength": mn, "max_wavelength": mx, "bins": bins}
    if kind == "gauss_spectrum":
        cls = cls or draw(st.sampled_from(["inside", "cut", "cut", "outside"]))
        w = mx - mn
        if cls == "inside":
            sd = max(1e-3, w * draw(_logu(0.003, 1.0 / 19.0)))
            lo, hi = mn + 9.2 * sd, mx - 9.2 * sd
            mean = lo + draw(st.floats(0.0, 1.0)) * (hi - lo) if hi > lo else 0.5 * (mn + mx)
        elif cls == "cut":
            sd = max(1e-3, w * draw(_logu(0.02, 3.0)))
            mean = mn + draw(st.floats(-0.2, 1.2)) * w
        else:
            sd = max(1e-3, w * draw(_logu(0.003, 0.2)))
            k = draw(st.floats(9.5, 40.0))
            mean = mx + k * sd if (draw(st.booleans()) or mn - k * sd < 1.0) else mn - k * sd
        p["mean"], p["stddev"] = max(1.0, mean), sd
    return p


@st.composite
def spectrum_strategy(draw):
    kind = draw(st.sampled_from(["const_spectrum", "gauss_spectrum", "gauss_spectrum"]))
    p = draw(spectrum_params(kind))
    case = {"kind": kind, "p": p, "xs": [draw(st.floats(-0.5, 1.5)) for _ in range(4)], "acc_max": not _open(F_MAX),
            "kw": draw(st.booleans())}
    if kind == "const_spectrum" and _open(F_CS) and any(const_halved(p["min_wavelength"], p["max_wavelength"], p["bins"])):
        case["known_halfbin"] = True      # excluded class: first/last bin and the sum are not compared
    return case


# ------------------------------------------------------------------------------------------------ builders
def effective(kind, p, omit):
    """parameters the object must have: the documented default wherever the keyword argument is omitted."""
    q = dict(p)
    for k in omit:
        q[k] = list(DEFAULT_POL) if k == "polarization" else DEFAULTS[kind][k]
    return q


def build_profile(kind, p, omit=()):
    kw = {k: p[k] for k in PROFILE_KEYS[kind] if k not in omit}
    if "polarization" not in omit:
        kw["polarization"] = Vector3D(*p["polarization"])
    return PROFILES[kind](**kw)


def build_spectrum(kind, p, kw=False):
    if kw:
        a = {k: (int(p[k]) if k == "bins" else p[k]) for k in SPECTRUM_KEYS[kind]}
        return SPECTRA[kind](**a)
    if kind == "const_spectrum":
        return ConstantSpectrum(p["min_wavelength"], p["max_wavelength"], int(p["bins"]))
    return GaussianSpectrum(p["min_wavelength"], p["max_wavelength"], int(p["bins"]), p["mean"], p["stddev"])


def omit_labels(ctx, kind, p, omit):
    keys = PROFILE_KEYS[kind] + ["polarization"]
    ctx.label("omit:none" if not omit else "omit:all" if len(omit) == len(keys) else "omit:some")
    if any(k not in omit and p[k] in SPECIAL[k] for k in PROFILE_KEYS[kind]):
        ctx.label("special-value")


def unit(v):
    n = math.sqrt(sum(x * x for x in v))
    return [x / n for x in v]


# ------------------------------------------------------------------------------------------------ 1. cross-section
_H, _K = 0.5, 18                       # trapezoid step (in measured half-widths) and half-extent -> +-9 widths
_GRID = [k * _H for k in range(-_K, _K + 1)]
_GL_X, _GL_W = np.polynomial.legendre.leggauss(6)


def half_width(g, g0):
    """t > 0 with g(t) = g0 exp(-1/2) (= sigma for a Gaussian), by doubling + bisection; None if g does not decay."""
    target = g0 * math.exp(-0.5)
    lo, hi = 0.0, 1e-7
    for _ in range(90):
        if g(hi) < target:
            break
        lo, hi = hi, hi * 2.0
    else:
        return None
    for _ in range(60):
        mid = 0.5 * (lo + hi)
        if g(mid) < target:
            hi = mid
        else:
            lo = mid
    return 0.5 * (lo + hi)


def run_xsec(case, ctx):
    kind, omit = case["kind"], case.get("omit", [])
    p = effective(kind, case["p"], omit)
    ctx.label(kind)
    omit_labels(ctx, kind, p, omit)
    ctx.nt()
    with ctx.cut("construct"):
        prof = build_profile(kind, p, omit)
    check_reported(ctx, prof, kind, p, True, "reported")     # incl. the documented default of every omitted argument
    f = prof.get_energy_density
    pol = unit(p["polarization"])
    for z in case["z"]:
        with ctx.cut("get_polarization"):
            v = prof.get_polarization(0.3 * p["laser_radius"], -0.2 * p["laser_radius"], z)
        ctx.close([v.x, v.y, v.z], pol, "polarization", rtol=1e-12, scale=1.0)
    if kind == "uniform":
        r = p["laser_radius"]
        want = p["energy_density"] * math.pi * r * r
        m = 12
        for z in case["z"]:
            tot = 0.0
            with ctx.cut("get_energy_density"):
                for x, w in zip(_GL_X, _GL_W):
                    rho = 0.5 * r * (x + 1.0)
                    for j in range(m):
                        th = 2.0 * math.pi * (j + 0.37) / m
                        tot += w * 0.5 * r * rho * f(rho * math.cos(th), rho * math.sin(th), z) * (2.0 * math.pi / m)
            ctx.close(tot, want, "xsec:uniform", rtol=1e-9, info="z=%r" % z)
        return
    if kind == "trivariate":
        z0 = p["mean_z"]
        with ctx.cut("get_energy_density"):
            f0 = f(0.0, 0.0, z0)
        ctx.check(math.isfinite(f0) and f0 > 0, "volume", "energy density at (0,0,mean_z) is %r" % f0)
        with ctx.cut("get_energy_density"):
            wx = half_width(lambda t: f(t, 0.0, z0), f0)
            wy = half_width(lambda t: f(0.0, t, z0), f0)
            wz = half_width(lambda t: f(0.0, 0.0, z0 + t), f0)
        ctx.check(None not in (wx, wy, wz), "volume", "energy density does not decay away from (0,0,mean_z)")
        xs = [t * wx for t in _GRID]
        ys = [t * wy for t in _GRID]
        tot = 0.0
        with ctx.cut("get_energy_density"):
            for t in _GRID:
                z = z0 + t * wz
                tot += math.fsum(f(x, y, z) for x in xs for y in ys)
        tot *= (_H * wx) * (_H * wy) * (_H * wz)
        ctx.close(tot, p["pulse_energy"], "volume:trivariate", rtol=1e-9,
                  info="measured half-widths %r %r %r (c*tau=%r)" % (wx, wy, wz, SC.c * p["pulse_length"]))
        return
    want = p["pulse_energy"] / (SC.c * p["pulse_length"])
    for z in case["z"]:
        with ctx.cut("get_energy_density"):
            f0 = f(0.0, 0.0, z)
        ctx.check(math.isfinite(f0) and f0 > 0, "xsec:" + kind, "energy density on the axis at z=%r is %r" % (z, f0))
        with ctx.cut("get_energy_density"):
            wx = half_width(lambda t: f(t, 0.0, z), f0)
            wy = half_width(lambda t: f(0.0, t, z), f0)
        ctx.check(wx is not None and wy is not None, "xsec:" + kind, "energy density does not decay away from the axis at z=%r" % z)
        xs = [t * wx for t in _GRID]
        ys = [t * wy for t in _GRID]
        with ctx.cut("get_energy_density"):
            tot = math.fsum(f(x, y, z) for x in xs for y in ys) * (_H * wx) * (_H * wy)
        ctx.close(tot, want, "xsec:" + kind, rtol=1e-9, info="z=%r measured half-widths %r %r" % (z, wx, wy))
        if kind == "gaussbeam":
            zr = 2.0 * math.pi * p["stddev_waist"] ** 2 / (p["laser_wavelength"] * 1e-9)
            ctx.label("gaussbeam:far" if abs(z - p["waist_z"]) > zr else "gaussbeam:near")
        else:
            ratio = max(wx, wy) / min(wx, wy)
            ctx.label("bivariate:aniso" if ratio > 1.5 else "bivariate:round")


# ------------------------------------------------------------------------------------------------ 2. segments
def seg_triples(ctx, segs, what):
    """[(z0, height, radius)] sorted by z0; checks each primitive is an axis-aligned cylinder translated along z only."""
    out = []
    ctx.check(isinstance(segs, list) and len(segs) >= 1, what, "no segments returned: %r" % (segs,))
    for s in segs:
        ctx.check(isinstance(s, Cylinder), what, "segment %r is not a Cylinder" % (s,))
        m = s.transform
        for i in range(3):
            for j in range(4):
                if j == 3 and i == 2:
                    continue
                ctx.check(m[i, j] == (1.0 if i == j else 0.0), what, "segment transform is not a pure z translation: [%d,%d]=%r" % (i, j, m[i, j]))
        out.append((float(m[2, 3]), float(s.height), float(s.radius)))
    out.sort()
    return out


def check_tiling(ctx, segs, r, length, what):
    tr = seg_triples(ctx, segs, what)
    tol = 1e-9 * length
    for z0, h, rad in tr:
        ctx.check(h > 0 and math.isfinite(h), what, "segment height %r" % h)
        ctx.close(rad, r, what + ":radius", rtol=1e-12)
    ctx.check(abs(tr[0][0]) <= tol, what, "first segment starts at z=%r, not 0 (r=%r L=%r)" % (tr[0][0], r, length))
    for a, b in zip(tr, tr[1:]):
        gap = b[0] - (a[0] + a[1])
        ctx.check(abs(gap) <= tol, what, "segments [%r,%r] and [%r,..] %s by %r (r=%r L=%r, %d segments)"
                  % (a[0], a[0] + a[1], b[0], "are separated" if gap > 0 else "overlap", abs(gap), r, length, len(tr)))
    end = tr[-1][0] + tr[-1][1]
    ctx.check(abs(end - length) <= tol, what, "segments end at z=%r, laser length is %r (r=%r, %d segments)" % (end, length, r, len(tr)))
    return tr


def run_segments(case, ctx):
    kind, omit = case["kind"], case.get("omit", [])
    p = effective(kind, case["p"], omit)
    r, length = p["laser_radius"], p["laser_length"]
    with ctx.cut("generate_segmented_cylinder"):
        segs = generate_segmented_cylinder(r, length)
    tr = check_tiling(ctx, segs, r, length, "function")
    with ctx.cut("construct"):
        prof = build_profile(kind, p, omit)
    check_reported(ctx, prof, kind, p, True, "reported")
    with ctx.cut("generate_geometry"):
        segs2 = prof.generate_geometry()
    check_tiling(ctx, segs2, r, length, "profile:" + kind)
    with ctx.cut("Laser"):
        laser = Laser(parent=World())
        laser.laser_profile = prof
        segs3 = laser.get_geometry()
    check_tiling(ctx, segs3, r, length, "laser:" + kind)
    ratio = length / (2.0 * r)
    n = len(tr)
    if ratio < 1:
        cls = "short"
    elif n == 1:
        cls = "single"
    elif abs(ratio - round(ratio)) < 1e-6:
        cls = "int"
    else:
        cls = "nonint"
    ctx.label(cls)
    k = round(ratio)
    if k >= 1 and abs(ratio - k) <= 1e-12 * k:
        band = "int%d" % k if k <= 3 else "int4+"
    else:
        band = "band%d" % int(ratio) if ratio < 4 else "band4+"
    ctx.label("%s:%s" % (kind, band))                  # all three paths (function, profile, Laser node) ran above
    if n == 2:
        ctx.label("%s:n2" % kind)
    omit_labels(ctx, kind, p, omit)
    ctx.nt(cls in ("short", "nonint"))


# ------------------------------------------------------------------------------------------------ 3. spectra
def check_reported(ctx, obj, kind, p, acc_max, what):
    """Every property getter / accessor reports the parameter value."""
    keys = SPECTRUM_KEYS[kind] if kind in SPECTRA else PROFILE_KEYS[kind]
    for k in keys:
        with ctx.cut(what + ":getter"):
            got = getattr(obj, k)
        ctx.check(got == p[k], what + ":" + k, lambda: "%s reports %r, parameter is %r" % (k, got, p[k]))
    if kind in SPECTRA:
        with ctx.cut(what + ":accessors"):
            acc = {"get_min_wavelenth": (obj.get_min_wavelenth(), p["min_wavelength"]),
                   "get_spectral_bins": (obj.get_spectral_bins(), p["bins"])}
            if acc_max:
                acc["get_max_wavelenth"] = (obj.get_max_wavelenth(), p["max_wavelength"])
            d = (obj.delta_wavelength, obj.get_delta_wavelength())
        for k, (got, want) in acc.items():
            ctx.check(got == want, what + ":" + k, lambda: "%s() returns %r, parameter is %r" % (k, got, want))
        want = (p["max_wavelength"] - p["min_wavelength"]) / p["bins"]
        ctx.close(d[0], want, what + ":delta_wavelength", rtol=1e-12)
        ctx.check(d[0] == d[1], what + ":get_delta_wavelength", "get_delta_wavelength() %r != delta_wavelength %r" % (d[1], d[0]))


def gauss_bins(p):
    mn, mx, n, mu, sd = p["min_wavelength"], p["max_wavelength"], int(p["bins"]), p["mean"], p["stddev"]
    edges = mn + (mx - mn) / n * np.arange(n + 1)
    edges[-1] = mx
    z = (edges - mu) / sd
    # mass between edges, computed on the side of the mean where the CDF differences do not cancel
    want = np.where(z[:-1] > 0, ndtr(-z[:-1]) - ndtr(-z[1:]), ndtr(z[1:]) - ndtr(z[:-1]))
    total = ndtr(-z[0]) - ndtr(-z[-1]) if z[0] > 0 else ndtr(z[-1]) - ndtr(z[0])
    return want, float(total)


def run_spectrum(case, ctx):
    kind, p = case["kind"], case["p"]
    mn, mx, n = p["min_wavelength"], p["max_wavelength"], int(p["bins"])
    with ctx.cut("construct"):
        sp = build_spectrum(kind, p, case.get("kw", False))
    check_reported(ctx, sp, kind, p, case.get("acc_max", True), "reported")
    with ctx.cut("arrays"):
        wl = np.array(sp.wavelengths, dtype=float)
        psd = np.array(sp.power_spectral_density, dtype=float)
        delta = float(sp.delta_wavelength)
    ctx.check(wl.shape == (n,) and psd.shape == (n,), "shape", "wavelengths %s / psd %s for %d bins" % (wl.shape, psd.shape, n))
    d = (mx - mn) / n
    ulp = float(np.spacing(mx))
    ctx.close(wl, mn + (np.arange(n) + 0.5) * d, "wavelengths", rtol=0.0, atol=1e-9 * d + 8 * ulp)
    power = psd * delta
    width = mx - mn
    if kind == "const_spectrum":
        ctx.label("const")
        want = np.full(n, 1.0 / n)
        if case.get("known_halfbin"):
            ctx.label("excluded_known")
            if n > 2:
                ctx.close(power[1:-1], want[1:-1], "power:const", rtol=1e-9)
        else:
            ctx.close(power, want, "power:const", rtol=1e-9,
                      info="(min=%r max=%r bins=%d: sum of bin powers %.12g)" % (mn, mx, n, power.sum()))
            ctx.close(power.sum(), 1.0, "sum:const", rtol=1e-9)
        ctx.nt(n >= 2)
        for u in case["xs"]:
            if min(abs(u), abs(u - 1.0)) < 1e-6:
                continue
            with ctx.cut("call"):
                got = sp(mn + u * width)
            ctx.close(got, 1.0 / width if 0 < u < 1 else 0.0, "density:const", rtol=1e-9, scale=1.0 / width)
        return
    mu, sd = p["mean"], p["stddev"]
    pdf_max = 1.0 / (sd * math.sqrt(2.0 * math.pi))
    want, total = gauss_bins(p)
    atol = pdf_max * (n + 6) * ulp + 8 * _EPS
    ctx.close(power, want, "power:gauss", rtol=1e-9, atol=atol, scale=float(np.max(want)),
              info="(mean=%r stddev=%r range=[%r,%r] bins=%d)" % (mu, sd, mn, mx, n))
    spans = mn <= mu - 9.0 * sd and mu + 9.0 * sd <= mx
    cls = "inside" if spans else ("outside" if total < 1e-12 else "cut")
    ctx.label("gauss:" + cls)
    if spans:
        ctx.close(power.sum(), 1.0, "sum:gauss", rtol=1e-9, atol=2 * atol)
    else:
        ctx.close(power.sum(), total, "sum:gauss", rtol=1e-9, atol=2 * atol + 1e-9)
    ctx.nt(cls == "cut" or (cls == "inside" and n >= 2))
    for u in case["xs"]:
        x = mn + u * width
        with ctx.cut("call"):
            got = sp(x)
        ctx.close(got, pdf_max * math.exp(-0.5 * ((x - mu) / sd) ** 2), "density:gauss", rtol=1e-9, scale=pdf_max)


# ------------------------------------------------------------------------------------------------ 4. histories
def _refresh_flag(fid):
    # the repairing re-assignment is generated only while the finding is open: otherwise the state right after
    # the setter must already be correct (a cache refreshed one statement too early shows exactly there)
    return st.just(bool(_open(fid)))


def _geom_ratio():
    return st.sampled_from(GEOM_CLASSES).flatmap(_ratio)


# name -> (kinds, strategy of the JSON argument)
SETTERS = {
    "laser_radius": (tuple(PROFILES), lambda: _val("laser_radius", _logu(5e-3, 0.2))),
    "laser_length": (tuple(PROFILES), lambda: st.one_of(_logu(5e-3, 4.0), _geom_ratio().map(lambda q: -q),
                                                        _geom_ratio().map(lambda q: -q), st.just(1.0))),
    "polarization": (tuple(PROFILES), _pol),
    "energy_density": (("uniform",), lambda: _val("energy_density")),
    "pulse_energy": (("bivariate", "trivariate", "gaussbeam"), lambda: st.tuples(_val("pulse_energy"), _refresh_flag(F_PE))),
    "pulse_length": (("bivariate", "trivariate", "gaussbeam"), lambda: _val("pulse_length")),
    "stddev_x": (("bivariate", "trivariate"), lambda: _val("stddev_x")),
    "stddev_y": (("bivariate", "trivariate"), lambda: _val("stddev_y")),
    "mean_z": (("trivariate",), lambda: _val("mean_z")),
    "waist_z": (("gaussbeam",), lambda: _val("waist_z")),
    "stddev_waist": (("gaussbeam",), lambda: _val("stddev_waist")),
    "laser_wavelength": (("gaussbeam",), lambda: _val("laser_wavelength")),
    "min_wavelength": (tuple(SPECTRA), lambda: _logu(0.02, 150.0)),      # new min = max - arg
    "max_wavelength": (tuple(SPECTRA), lambda: _logu(0.02, 150.0)),      # new max = min + arg
    "bins": (tuple(SPECTRA), lambda: st.one_of(st.integers(1, 5), st.integers(1, 60))),
    "mean": (("gauss_spectrum",), lambda: st.tuples(st.floats(-0.3, 1.3), _refresh_flag(F_GS))),   # min + arg*(max-min)
    "stddev": (("gauss_spectrum",), lambda: st.tuples(_logu(0.01, 2.0), _refresh_flag(F_GS))),     # arg*(max-min)
}


@st.composite
def hist_params(draw):
    kind = draw(st.sampled_from(sorted(PROFILES) + sorted(SPECTRA)))
    omit = []
    if kind in PROFILES:
        p, omit = draw(profile_case(kind))
    else:
        p = draw(spectrum_params(kind))
        p["bins"] = min(p["bins"], 60)
    return {"kind": kind, "p": p, "omit": omit, "kw": draw(st.booleans()),
            "pts": [[draw(st.floats(-2.5, 2.5)), draw(st.floats(-2.5, 2.5)), draw(st.floats(-0.5, 1.5))] for _ in range(3)],
            "xs": [draw(st.floats(-0.5, 1.5)) for _ in range(3)],
            "acc_max": not _open(F_MAX), "acc_first": draw(st.booleans())}


def close_each(ctx, got, want, what, info):
    """element-wise |got_i - want_i| <= 1e-9 |want_i| (both objects do the same arithmetic on the same parameters)."""
    ctx.check(got.shape == want.shape, what, lambda: "shape %s, fresh object has %s %s" % (got.shape, want.shape, info))
    bad = ~(np.abs(got - want) <= 1e-9 * np.abs(want))
    if bad.any():
        i = int(np.argmax(bad))
        ctx.fail(what, "element %d: got %r, fresh object gives %r %s" % (i, float(got.flat[i]), float(want.flat[i]), info))


class Hist:
    """Real object + dict of its current parameters; after every step the real object is observed and compared with
    an object freshly constructed from the dict."""
    OPS = {}

    def __init__(self, ctx, params):
        self.ctx = ctx
        self.kind = params["kind"]
        self.omit = list(params.get("omit", [])) if self.kind in PROFILES else []
        self.kw = bool(params.get("kw", False))
        self.p = effective(self.kind, params["p"], self.omit) if self.kind in PROFILES else dict(params["p"])
        self.pts = params["pts"]
        self.xs = params["xs"]
        self.acc_max = params.get("acc_max", True)
        self.acc_first = bool(params.get("acc_first", False))
        self.is_profile = self.kind in PROFILES
        self.laser = self.obj = None
        self.n_set = 0
        self.n_eff = 0
        self.n_special = 0
        self.names = set()
        self.snap = None

    def _ensure(self):
        """Construct + first observation, done lazily inside the first step (a Violation raised from __init__
        would lose the case in the driver). The object is therefore always observed before any setter."""
        if self.obj is not None:
            return
        with self.ctx.cut("construct"):
            if self.is_profile:
                self.obj = build_profile(self.kind, self.p, self.omit)     # possibly with omitted keyword arguments
                self.laser = Laser(parent=World())
                self.laser.laser_profile = self.obj
            else:
                self.obj = build_spectrum(self.kind, self.p, self.kw)
        self.invariant()

    def close(self):
        self.obj = self.laser = None

    # -- observation
    def _observe(self, obj, laser=None):
        ctx, p, o = self.ctx, self.p, {}
        if self.is_profile:
            if self.kind == "uniform":
                sx = sy = p["laser_radius"]
            elif self.kind == "gaussbeam":
                sx = sy = p["stddev_waist"]
            else:
                sx, sy = p["stddev_x"], p["stddev_y"]
            z0 = p.get("mean_z", p.get("waist_z", 0.0))
            zs = SC.c * p["pulse_length"] if self.kind == "trivariate" else p["laser_length"]
            pts = [(0.0, 0.0, z0)] + [(a * sx, b * sy, z0 + c * zs) for a, b, c in self.pts]
            with ctx.cut("observe:profile"):
                o["energy_density"] = np.array([obj.get_energy_density(*q) for q in pts])
                v = obj.get_polarization(*pts[1])
                o["polarization"] = np.array([v.x, v.y, v.z])
                geo = obj.generate_geometry()
            o["geometry"] = np.array(seg_triples(ctx, geo, "observe:geometry")).ravel()
            if laser is not None:
                with ctx.cut("observe:laser"):
                    lgeo = laser.get_geometry()
                    kids = [c for c in laser.children if isinstance(c, Cylinder)]
                o["laser_geometry"] = np.array(seg_triples(ctx, lgeo, "observe:laser_geometry")).ravel()
                # what a ray meets is the scene graph: the segments the laser reports must be exactly its children
                ctx.check(len(kids) == len(lgeo) and all(any(k is g for g in lgeo) for k in kids), self.kind + ":laser_children",
                          lambda: "the laser reports %d segments but owns %d cylinder children in the scene graph" % (len(lgeo), len(kids)))
            with ctx.cut("observe:getters"):
                o["params"] = np.array([getattr(obj, k) for k in PROFILE_KEYS[self.kind]], dtype=float)
        else:
            w = p["max_wavelength"] - p["min_wavelength"]
            with ctx.cut("observe:spectrum"):
                if self.acc_first:
                    # the plain accessor methods before any property is read (a lazily refreshed cache must serve them too)
                    pre = [obj.get_delta_wavelength(), obj.get_min_wavelenth(), obj.get_spectral_bins()]
                o["wavelengths"] = np.array(obj.wavelengths, dtype=float)
                o["power_spectral_density"] = np.array(obj.power_spectral_density, dtype=float)
                o["power"] = o["power_spectral_density"] * obj.delta_wavelength
                o["density"] = np.array([obj(p["min_wavelength"] + u * w) for u in self.xs])
                acc = [obj.delta_wavelength, obj.get_delta_wavelength(), obj.get_min_wavelenth(), obj.get_spectral_bins()]
                if self.acc_max:
                    acc.append(obj.get_max_wavelenth())
                if self.acc_first:
                    acc[1], acc[2], acc[3] = pre
                o["accessors"] = np.array(acc, dtype=float)
                o["params"] = np.array([getattr(obj, k) for k in SPECTRUM_KEYS[self.kind]], dtype=float)
        return o

    def invariant(self):
        ctx = self.ctx
        if self.obj is None:
            return self._ensure()
        got = self._observe(self.obj, self.laser)
        with ctx.cut("construct-fresh"):
            fresh = build_profile(self.kind, self.p) if self.is_profile else build_spectrum(self.kind, self.p)
            if self.is_profile:
                # the reference lives in a laser of its own (same size, another world): two live lasers must not share anything
                fresh_laser = Laser(parent=World())
                fresh_laser.laser_profile = fresh
        want = self._observe(fresh, fresh_laser if self.is_profile else None)
        got = self._observe(self.obj, self.laser) if self.is_profile else got      # again, now that the second laser exists
        hist = "after %d setter(s) %s" % (self.n_set, sorted(self.names))
        for k in sorted(want):
            close_each(ctx, got[k], want[k], "%s:%s" % (self.kind, k), "[%s vs fresh object with %r]" % (hist, self.p))
        check_reported(ctx, self.obj, self.kind, self.p, self.acc_max, self.kind + ":reported")
        if self.is_profile:
            ctx.close(got["polarization"], unit(self.p["polarization"]), self.kind + ":polarization", rtol=1e-12, scale=1.0)
        # copies taken earlier (copy.copy / deepcopy / pickle) are objects of their own: whatever happened to the original since,
        # each still is what an object freshly constructed with the parameters it was copied with is
        for how, twin, tp, n_at in getattr(self, "twins", []):
            saved, self.p = self.p, tp
            try:
                tgot = self._observe(twin, None)
                with ctx.cut("construct-fresh"):
                    tfresh = build_profile(self.kind, tp) if self.is_profile else build_spectrum(self.kind, tp)
                twant = self._observe(tfresh, None)
            finally:
                self.p = saved
            for k in sorted(twant):
                close_each(ctx, tgot[k], twant[k], "%s:copy:%s" % (self.kind, k),
                           "[%s taken after %d setter(s), original now %s; vs fresh object with %r]" % (how, n_at, hist, tp))
        if self.snap is not None:
            changed = any(got[k].shape != self.snap[k].shape or not np.array_equal(got[k], self.snap[k]) for k in got)
            if changed:
                self.n_eff += 1
        self.snap = got

    def finish(self):
        self._ensure()
        self.ctx.label("kind:" + self.kind)
        if self.is_profile:
            omit_labels(self.ctx, self.kind, self.p, self.omit)
        if self.n_special:
            self.ctx.label("set-special-value")
        for n in sorted(self.names):
            self.ctx.label("set:%s.%s" % (self.kind, n))
        self.ctx.nt(self.n_eff >= 2)

    # -- setters
    def _set(self, name, arg):
        self._ensure()
        ctx, p, obj = self.ctx, self.p, self.obj
        refresh = False
        if name == "polarization":
            value = list(arg)
            with ctx.cut("set:polarization"):
                obj.set_polarization(Vector3D(*value))
        else:
            if name in ("pulse_energy", "mean", "stddev"):
                arg, refresh = arg[0], bool(arg[1])
            if name == "min_wavelength":
                value = p["max_wavelength"] - arg
                if value < 10.0:
                    value = 0.5 * p["max_wavelength"]
            elif name == "max_wavelength":
                value = p["min_wavelength"] + arg
            elif name == "mean":
                value = max(1.0, p["min_wavelength"] + arg * (p["max_wavelength"] - p["min_wavelength"]))
            elif name == "stddev":
                value = max(1e-3, arg * (p["max_wavelength"] - p["min_wavelength"]))
            elif name == "laser_length" and arg < 0:
                value = 2.0 * p["laser_radius"] * (-arg)       # chosen length/(2r) class
            elif name == "bins":
                value = int(arg)
            else:
                value = arg
            with ctx.cut("set:" + name):
                setattr(obj, name, value)
        p[name] = value
        if name in SPECIAL and value in SPECIAL[name]:
            self.n_special += 1
        if refresh:
            # user-level workaround generated only while the finding is open: a setter known to rebuild the cache
            with ctx.cut("set:refresh"):
                if self.kind == "gauss_spectrum":
                    obj.bins = p["bins"]
                elif self.kind == "bivariate":
                    obj.pulse_length = p["pulse_length"]
        self.n_set += 1
        self.names.add(name)


def _reassign(self, arg):
    """laser.laser_profile = <the profile it already has>: the final configuration is unchanged, later setters must still work."""
    self._ensure()
    with self.ctx.cut("set:laser_profile(same)"):
        self.laser.laser_profile = self.obj
    self.names.add("laser.laser_profile=same")


Hist.OPS["reassign_profile"] = lambda: st.just(None)


def _take_copy(self, how):
    import copy as _copy, pickle as _pickle
    self._ensure()
    try:
        twin = {"copy": _copy.copy, "deepcopy": _copy.deepcopy, "pickle": lambda o: _pickle.loads(_pickle.dumps(o))}[how](self.obj)
    except TypeError:
        self.ctx.label("copy:unsupported:%s:%s" % (how, self.kind))      # the class does not offer this kind of copy: nothing to check
        return
    if not hasattr(self, "twins"):
        self.twins = []
    self.twins.append((how, twin, dict(self.p), self.n_set))
    del self.twins[:-2]
    self.ctx.label("copy:" + how)


Hist.do_take_copy = _take_copy
Hist.OPS["take_copy"] = lambda: st.sampled_from(["copy", "copy", "deepcopy", "pickle"])
Hist.do_reassign_profile = _reassign
Hist.pre_reassign_profile = lambda self: self.is_profile


# setters documented / observed to refuse non-positive values (ValueError): a refused assignment is not a change - the object must
# keep reporting and using what it had, and later valid assignments must still work
REFUSABLE = {
    "laser_radius": tuple(PROFILES), "laser_length": tuple(PROFILES), "energy_density": ("uniform",),
    "pulse_energy": ("bivariate", "trivariate", "gaussbeam"), "pulse_length": ("bivariate", "trivariate", "gaussbeam"),
    "stddev_x": ("bivariate", "trivariate"), "stddev_y": ("bivariate", "trivariate"),
    "stddev_waist": ("gaussbeam",), "laser_wavelength": ("gaussbeam",),
    "min_wavelength": tuple(SPECTRA), "max_wavelength": tuple(SPECTRA), "bins": tuple(SPECTRA),
    "mean": ("gauss_spectrum",), "stddev": ("gauss_spectrum",),
}


def _refuse(self, arg):
    name, bad = arg
    self._ensure()
    if self.kind not in REFUSABLE[name]:
        return
    if name == "bins":
        bad = int(bad * 100)
    self.ctx.raises((ValueError,), "refuse:%s.%s" % (self.kind, name), setattr, self.obj, name, bad)
    self.names.add("refused:" + name)
    self.ctx.label("refused:%s.%s" % (self.kind, name))


Hist.OPS["refuse"] = lambda: st.tuples(st.sampled_from(sorted(REFUSABLE)), st.sampled_from([0.0, -0.02, -1.0]))
Hist.do_refuse = _refuse


def _install_ops():
    for name, (kinds, strat) in SETTERS.items():
        Hist.OPS["set_" + name] = strat
        setattr(Hist, "do_set_" + name, (lambda self, arg, name=name: self._set(name, arg)))
        setattr(Hist, "pre_set_" + name, (lambda self, kinds=kinds: self.kind in kinds))


_install_ops()

SUBCHECKS = {
    "xsec": Given(xsec_strategy, run_xsec, quick=2000, thorough=30000),
    "segments": Given(segments_strategy, run_segments, quick=2000, thorough=30000),
    "spectrum": Given(spectrum_strategy, run_spectrum, quick=6000, thorough=120000),
    "hist": Machine(Hist, quick=640, thorough=10000, steps=(20, 30), params=hist_params),
}
