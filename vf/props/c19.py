"""C19 - element / isotope registry is unambiguous and self-consistent (finite domain, enumerated)."""
import itertools

from hypothesis import strategies as st

from ..core import Enum, Given
from ..oracles.periodic_table import BY_SYMBOL, BY_NAME, NAME_ALIASES

from cherab.core.atomic import elements as E
from cherab.core.atomic import Element, Isotope, Line, lookup_element, lookup_isotope

ID = "C19"
EXHAUSTIVE = True
SHARDS = {"quick": 4, "thorough": 16}
RULE = ("Every Element/Isotope object exported by cherab.core.atomic.elements is enumerated (not sampled). One case = "
        "(object, identifier kind) carrying every letter-case spelling of that identifier (all 2^len case masks when "
        "len<=8 [quick] / <=16 [thorough], else lower/upper/title/swapcase + 64 deterministic masks); plus one case per "
        "ordered block of species pairs for ==, != and hash (each followed by look-ups after an equal copy and a user-defined species "
        "with the same atomic number were constructed); plus Hypothesis-drawn Line triples incl. other numeric spellings of a transition. Every case is a real "
        "obligation, so all are non-trivial; distinct = distinct (object, identifier kind) / pair blocks / line pairs. "
        "info.lookups counts the individual lookup calls made.")
ASSUMPTIONS = ["periodic table embedded in vf/oracles/periodic_table.py (118 entries) is correct",
               "the module namespace of cherab.core.atomic.elements is the set of species 'the package defines'"]

REQUIRED_LABELS = ["registry:cross-registry:miss-first", "registry:lookup-after-construction", "lines:equal:other-numeric-spelling"]

ELEMENTS = sorted([(n, getattr(E, n)) for n in dir(E) if type(getattr(E, n)) is Element], key=lambda x: x[0])
ISOTOPES = sorted([(n, getattr(E, n)) for n in dir(E) if type(getattr(E, n)) is Isotope], key=lambda x: x[0])
SPECIES = ELEMENTS + ISOTOPES
BYNAME = dict(SPECIES)
_counts = {"lookups": 0}


def shard_info():
    return dict(_counts)


def spellings(s, tier):
    """Letter-case variants of s."""
    idx = [i for i, ch in enumerate(s) if ch.isalpha()]
    limit = 8 if tier == "quick" else 16
    out = []
    if len(idx) <= limit:
        for mask in range(1 << len(idx)):
            chars = list(s.lower())
            for b, i in enumerate(idx):
                if mask >> b & 1:
                    chars[i] = chars[i].upper()
            out.append("".join(chars))
    else:
        out = [s.lower(), s.upper(), s.title(), s.swapcase(), s]
        x = 0x9E3779B97F4A7C15
        for k in range(64):
            x = (x * 6364136223846793005 + 1442695040888963407 + len(s) + k) % (1 << 64)
            chars = list(s.lower())
            for b, i in enumerate(idx):
                if x >> (b % 60) & 1:
                    chars[i] = chars[i].upper()
            out.append("".join(chars))
    return sorted(set(out))


def lookup_cases(tier):
    for n, e in ELEMENTS:
        for kind in ("name", "symbol", "number", "identity"):
            yield {"t": "elem", "obj": n, "kind": kind, "tier": tier}
    for n, i in ISOTOPES:
        for kind in ("name", "symbol", "elsym+A", "elname+A", "element,number", "identity"):
            yield {"t": "iso", "obj": n, "kind": kind, "tier": tier}
    yield {"t": "uniq", "tier": tier}
    yield {"t": "exports", "tier": tier}
    # species and lines that arrive BY VALUE from another interpreter (multiprocessing spawn, a results file): equal to the local
    # objects, so they must hash like them and find them in dictionaries.  String hashes are salted per interpreter.
    for hs in ("1", "2", "random"):
        yield {"t": "foreign", "hashseed": hs}
    # the two-argument form fed with short-lived first arguments (numpy integers, equal copies of the element): one after the other
    # through all isobars, so that whatever is remembered about a dead argument (its address, say) meets the next one
    for flavour in ("int64", "int32", "constructed", "deepcopy", "pickle"):
        for order in ("up", "down"):
            yield {"t": "isobars", "flavour": flavour, "order": order}
    names = [n for n, _ in SPECIES]
    B = 24
    blocks = [names[i:i + B] for i in range(0, len(names), B)]
    for a, b in itertools.product(range(len(blocks)), repeat=2):
        yield {"t": "pairs", "a": blocks[a], "b": blocks[b]}


def run_lookup(case, ctx):
    ctx.nt()
    t = case["t"]
    if t == "elem":
        e = BYNAME[case["obj"]]
        kind = case["kind"]
        ctx.label("elem:" + kind)
        if kind == "name":
            idents = spellings(e.name, case["tier"])
        elif kind == "symbol":
            idents = spellings(e.symbol, case["tier"])
        elif kind == "number":
            idents = [e.atomic_number, str(e.atomic_number)]
        else:
            idents = [e]
        for ident in idents:
            # a failed look-up of the same key in the OTHER registry first (an element identifier is usually not an isotope's):
            # whatever it does - it raises ValueError on the pinned tree - must not change what the right registry answers
            if kind != "identity":
                try:
                    lookup_isotope(ident)
                    ctx.label("cross-registry:found")
                except ValueError:
                    ctx.label("cross-registry:miss-first")
            _counts["lookups"] += 1
            with ctx.cut("lookup_element"):
                got = lookup_element(ident)
            ctx.check(got is e, "lookup_element", lambda: "lookup_element(%r) -> %r, expected %r" % (ident, got, e))
        # consistency with the periodic table
        if kind == "number":
            ctx.check(e.symbol in BY_SYMBOL, "periodic", "unknown element symbol %r" % e.symbol)
            z, nm = BY_SYMBOL[e.symbol]
            ctx.check(e.atomic_number == z, "periodic", "%s has atomic_number %d, periodic table says %d" % (e.name, e.atomic_number, z))
            ctx.check(NAME_ALIASES.get(e.name.lower(), e.name.lower()) == nm, "periodic", "symbol %s is %s, not %r" % (e.symbol, nm, e.name))
            ctx.check(e.atomic_weight > 0 and abs(e.atomic_weight - 2 * z) < 0.65 * z + 1.5 or z == 1, "periodic",
                      "implausible atomic weight %r for Z=%d" % (e.atomic_weight, z))
    elif t == "iso":
        i = BYNAME[case["obj"]]
        kind = case["kind"]
        ctx.label("iso:" + kind)
        el = i.element
        calls = []
        if kind == "name":
            calls = [((s,), {}) for s in spellings(i.name, case["tier"])]
        elif kind == "symbol":
            calls = [((s,), {}) for s in spellings(i.symbol, case["tier"])]
        elif kind == "elsym+A":
            calls = [((s + str(i.mass_number),), {}) for s in spellings(el.symbol, case["tier"])]
        elif kind == "elname+A":
            calls = [((s + str(i.mass_number),), {}) for s in spellings(el.name, case["tier"])]
        elif kind == "element,number":
            for ident in [el, el.atomic_number, str(el.atomic_number)] + spellings(el.symbol, case["tier"]) + spellings(el.name, "quick" if len(el.name) > 8 else case["tier"]):
                calls.append(((ident,), {"number": i.mass_number}))
                calls.append(((ident, i.mass_number), {}))
                calls.append(((ident,), {"number": str(i.mass_number)}))
        else:
            calls = [((i,), {})]
            # consistency
            ctx.check(type(el) is Element, "isotope", "%s.element is %r" % (i.name, el))
            ctx.check(BYNAME.get(el.name) is el, "isotope", "%s.element %r is not the exported element object" % (i.name, el))
            ctx.check(i.atomic_number == el.atomic_number, "isotope", "%s Z=%d but element Z=%d" % (i.name, i.atomic_number, el.atomic_number))
            ctx.check(i.mass_number >= i.atomic_number, "isotope", "%s A=%d < Z=%d" % (i.name, i.mass_number, i.atomic_number))
            ctx.check(abs(i.atomic_weight - i.mass_number) <= 0.1, "isotope", "%s weight %r vs A=%d" % (i.name, i.atomic_weight, i.mass_number))
        for a, k in calls:
            if kind in ("name", "symbol") and isinstance(a[0], str):
                try:
                    lookup_element(a[0])
                    ctx.label("cross-registry:found")
                except ValueError:
                    ctx.label("cross-registry:miss-first")
            _counts["lookups"] += 1
            with ctx.cut("lookup_isotope"):
                got = lookup_isotope(*a, **k)
            ctx.check(got is i, "lookup_isotope", lambda: "lookup_isotope(*%r, **%r) -> %r, expected %r" % (a, k, got, i))
    elif t == "uniq":
        seen = {}
        for n, s in SPECIES:
            key = s.name.lower()
            ctx.check(key not in seen, "unique-name", lambda: "%r and %r share the name %r" % (seen[key], n, s.name))
            seen[key] = n
        for group, label in ((ELEMENTS, "element"), (ISOTOPES, "isotope")):
            seen = {}
            for n, s in group:
                key = s.symbol.lower()   # repository file names use symbol.lower()
                ctx.check(key not in seen, "unique-symbol", lambda: "%ss %r and %r share the symbol %r" % (label, seen[key], n, s.symbol))
                seen[key] = n
        zs = {}
        for n, e in ELEMENTS:
            ctx.check(e.atomic_number not in zs, "unique-Z", lambda: "%r and %r share Z=%d" % (zs[e.atomic_number], n, e.atomic_number))
            zs[e.atomic_number] = n
        am = {}
        for n, i in ISOTOPES:
            key = (i.element.name, i.mass_number)
            ctx.check(key not in am, "unique-(element,A)", lambda: "%r and %r share %r" % (am[key], n, key))
            am[key] = n
    elif t == "exports":
        # every species is reachable as an attribute of cherab.core.atomic too, and is the same object
        import cherab.core.atomic as A
        for n, s in SPECIES:
            ctx.check(getattr(A, n, None) is s, "exports", "cherab.core.atomic.%s is not elements.%s" % (n, n))
            ctx.check(n == s.name, "exports", "attribute %s holds species named %r" % (n, s.name))
    elif t == "isobars":
        import copy as _copy, pickle as _pickle
        import numpy as _np2
        mk = {"int64": lambda e: _np2.int64(e.atomic_number), "int32": lambda e: _np2.int32(e.atomic_number),
              "constructed": lambda e: Element(e.name, e.symbol, e.atomic_number, e.atomic_weight),
              "deepcopy": lambda e: _copy.deepcopy(e), "pickle": lambda e: _pickle.loads(_pickle.dumps(e))}[case["flavour"]]
        by_a = {}
        for n, i in ISOTOPES:
            by_a.setdefault(i.mass_number, []).append(i)
        for A in (sorted(by_a) if case["order"] == "up" else sorted(by_a, reverse=True)):
            group = by_a[A] if case["order"] == "up" else by_a[A][::-1]
            for rep in range(2):
                for i in group:
                    with ctx.cut("lookup_isotope"):
                        got = lookup_isotope(mk(i.element), A) if rep == 0 else lookup_isotope(mk(i.element), number=A)
                    ctx.check(got is i, "lookup_isotope", lambda: "lookup_isotope(<%s of %s>, %d) returned %r, expected %s"
                              % (case["flavour"], i.element.name, A, getattr(got, "name", got), i.name))
        ctx.label("isobars:" + case["flavour"])
    elif t == "foreign":
        import os, pickle, subprocess, sys
        from .. import VERIF_DIR
        code = ("import vf, sys, pickle; vf.bootstrap_repo()\n"
                "from cherab.core.atomic import elements as E, Line\n"
                "names = sorted(n for n in dir(E) if type(getattr(E, n)).__name__ in ('Element', 'Isotope'))\n"
                "sp = [getattr(E, n) for n in names]\n"
                "lines = [Line(s, min(1, s.atomic_number), (3, 2)) for s in sp[::7]]\n"
                "sys.stdout.buffer.write(pickle.dumps((names, sp, lines)))\n")
        env = dict(os.environ, PYTHONHASHSEED=case["hashseed"])
        pr = subprocess.run([sys.executable, "-c", code], cwd=VERIF_DIR, env=env, stdout=subprocess.PIPE, stderr=subprocess.PIPE, timeout=600)
        if pr.returncode != 0:
            raise RuntimeError("foreign interpreter failed: %s" % pr.stderr.decode()[-800:])      # harness error, not a violation
        with ctx.cut("unpickle"):
            names, sp, lines = pickle.loads(pr.stdout)
        local = {s_: n for n, s_ in SPECIES}
        for n, f in zip(names, sp):
            here = BYNAME.get(n)
            if here is None:
                continue
            with ctx.cut("eq/hash"):
                eq, ne, hf, hh = (f == here), (f != here), hash(f), hash(here)
                found = local.get(f)
                inset = f in {here}
            ctx.check(eq and not ne, "foreign-eq", lambda: "%s from another interpreter: == gives %r, != gives %r" % (n, eq, ne))
            ctx.check(hf == hh, "foreign-hash", lambda: "%s from another interpreter (PYTHONHASHSEED=%s) equals the local object but hashes "
                      "%r instead of %r" % (n, case["hashseed"], hf, hh))
            ctx.check(found == n and inset, "foreign-dict", lambda: "%s from another interpreter is not found in a dictionary / set keyed by the "
                      "local object (dict gives %r)" % (n, found))
        for fl in lines:
            with ctx.cut("eq/hash"):
                mine = Line(BYNAME[fl.element.name], fl.charge, (3, 2))
                ok = (fl == mine) and hash(fl) == hash(mine) and ({mine: 1}.get(fl) == 1)
            ctx.check(ok, "foreign-line", lambda: "Line of %s from another interpreter: == %r, hashes %r / %r" % (fl.element.name, fl == mine, hash(fl), hash(mine)))
    elif t == "pairs":
        for an in case["a"]:
            a = BYNAME[an]
            for bn in case["b"]:
                b = BYNAME[bn]
                same = a is b
                with ctx.cut("eq"):
                    eq, ne = (a == b), (a != b)
                ctx.check(eq is same or eq == same, "eq", "%s == %s is %r" % (an, bn, eq))
                ctx.check(ne == (not same), "ne", "%s != %s is %r" % (an, bn, ne))
                if eq:
                    ctx.check(hash(a) == hash(b), "hash", "%s == %s but hashes differ" % (an, bn))
            # an equal-but-not-identical copy must compare equal, hash equally and find the same dict slot
            if type(a) is Element:
                c = Element(a.name, a.symbol, a.atomic_number, a.atomic_weight)
            else:
                c = Isotope(a.name, a.symbol, a.element, a.mass_number, a.atomic_weight)
            ctx.check(c == a and a == c and not (c != a), "eq-copy", "reconstructed copy of %s does not compare equal" % an)
            ctx.check(hash(c) == hash(a), "hash-copy", "equal copies of %s hash differently" % an)
            # other ways an equal-but-not-identical object comes about: pickle round trip, deepcopy, an isotope built on an
            # equal copy of its parent element.  Whatever compares equal must hash equally and find the same dict slot.
            import copy as _copy, pickle as _pickle
            others = [("pickle", _pickle.loads(_pickle.dumps(a))), ("deepcopy", _copy.deepcopy(a))]
            if type(a) is Isotope:
                pe = a.element
                others.append(("cloned-parent", Isotope(a.name, a.symbol, Element(pe.name, pe.symbol, pe.atomic_number, pe.atomic_weight),
                                                        a.mass_number, a.atomic_weight)))
            # near twins: every field equal except an atomic weight one ulp away.  Whether they count as equal is the class's
            # business - but == / != / hash must agree about it
            import math as _math
            for direction in (_math.inf, -_math.inf):
                w = _math.nextafter(a.atomic_weight, direction)
                others.append(("ulp-twin", Element(a.name, a.symbol, a.atomic_number, w) if type(a) is Element
                               else Isotope(a.name, a.symbol, a.element, a.mass_number, w)))
            for how, o in others:
                if o == a:
                    ctx.check(a == o and not (o != a) and not (a != o), "eq-copy", "%s copy of %s: == and != disagree" % (how, an))
                    ctx.check(hash(o) == hash(a), "hash-copy", "%s copy of %s compares equal but hashes differently" % (how, an))
                    ctx.check({a: 1}.get(o) == 1, "dict", "dict lookup through the %s copy of %s failed" % (how, an))
                    ctx.label("copy:" + how + ":equal")
                else:
                    ctx.check((o != a) and (a != o) and not (a == o), "eq-copy", "%s copy of %s: == and != disagree" % (how, an))
                    ctx.label("copy:" + how + ":unequal")
            d = {BYNAME[bn]: bn for bn in case["b"]}
            d[a] = "A"
            ctx.check(d[c] == "A", "dict", "dict lookup through an equal copy of %s failed" % an)
            for bn in case["b"]:
                if BYNAME[bn] is not a:
                    ctx.check(d[BYNAME[bn]] == bn, "dict", "dict key %s clobbered by %s" % (bn, an))
            # constructing species objects (an equal copy, a user-defined species with the same atomic number) must not disturb
            # the registry: every identifier of the exported object still finds that very object
            if type(a) is Element:
                _user = Element(a.name + "_mix", a.symbol + "x", a.atomic_number, a.atomic_weight + 0.5)
                for ident in (a.name, a.symbol, a.atomic_number, str(a.atomic_number), a.name.upper(), a.symbol.lower()):
                    _counts["lookups"] += 1
                    with ctx.cut("lookup_element"):
                        got = lookup_element(ident)
                    ctx.check(got is a, "lookup-after-construction",
                              lambda: "after constructing a copy and a user-defined element with Z=%d, lookup_element(%r) -> %r (not the exported %s)"
                              % (a.atomic_number, ident, got, an))
            else:
                _user = Isotope(a.name + "_x", a.symbol + "x", a.element, a.mass_number, a.atomic_weight)
                for args in ((a.name,), (a.symbol,), (a.element, a.mass_number), (a.element.atomic_number, a.mass_number),
                             (a.element.symbol + str(a.mass_number),)):
                    _counts["lookups"] += 1
                    with ctx.cut("lookup_isotope"):
                        got = lookup_isotope(*args)
                    ctx.check(got is a, "lookup-after-construction",
                              lambda: "after constructing a copy and a user-defined isotope, lookup_isotope%r -> %r (not the exported %s)" % (args, got, an))
            ctx.label("lookup-after-construction")


# ---- Lines: hashing/equality agree with the (element, charge, transition) triple
import numpy as _np  # noqa: E402

# the last four are other numeric spellings of (3, 2) / (4, 2): Python compares them equal to the int tuples, so must Line
_TR = [(3, 2), (4, 2), (2, 1), ("3", "2"), ("2s1 3p1 3P4.0", "2s1 3s1 3S1.0"), ("2S1 3P1 3p4.0", "2s1 3s1 3S1.0"), (3, 1), ("a", "b"),
       (3.0, 2.0), (_np.int64(3), _np.int32(2)), (_np.float64(4.0), 2), (True + 2, 2.0)]


def line_strategy():
    sp = st.sampled_from([n for n, s in SPECIES])
    one = st.tuples(sp, st.integers(0, 3), st.integers(0, len(_TR) - 1))
    def mk(a, b, how):
        if how == "same":
            b = a
        elif how == "respell":          # same species and charge, a transition from the group of numeric spellings of (3,2) / (4,2)
            b = (a[0], a[1], b[2])
        return {"a": list(a), "b": list(b)}
    return st.builds(mk, one, one, st.sampled_from(["same", "other", "respell", "respell"]))


def run_line(case, ctx):
    def mk(t):
        el = BYNAME[t[0]]
        q = min(t[1], el.atomic_number - 1)
        return (el, q, _TR[t[2]]), Line(el, q, tuple(_TR[t[2]]))
    (ka, la), (kb, lb) = mk(case["a"]), mk(case["b"])
    # a line keeps the very species, charge and transition it was given (a line of protium is not a line of hydrogen)
    for k_, l_ in ((ka, la), (kb, lb)):
        ctx.check(l_.element is k_[0] and l_.charge == k_[1] and tuple(l_.transition) == tuple(k_[2]), "line-fields",
                  lambda: "Line(%s, %r, %r) holds element %r, charge %r, transition %r" % (k_[0].name, k_[1], k_[2], l_.element, l_.charge, l_.transition))
    same = (ka[0] is kb[0]) and ka[1] == kb[1] and tuple(ka[2]) == tuple(kb[2])
    ctx.nt()
    ctx.label("equal" if same else "distinct")
    if same and repr(ka[2]) != repr(kb[2]):
        ctx.label("equal:other-numeric-spelling")
    ctx.check((la == lb) == same, "line-eq", "Line%r == Line%r is %r" % (case["a"], case["b"], la == lb))
    ctx.check((la != lb) == (not same), "line-ne", "Line != inconsistent for %r %r" % (case["a"], case["b"]))
    if same:
        ctx.check(hash(la) == hash(lb), "line-hash", "equal lines hash differently %r" % (case["a"],))
    d = {la: 1}
    d[lb] = 2
    ctx.check(len(d) == (1 if same else 2) and d[lb] == 2 and d[la] == (2 if same else 1), "line-dict", "dict with line keys wrong for %r %r" % (case["a"], case["b"]))


SUBCHECKS = {
    "registry": Enum(lookup_cases, run_lookup),
    "lines": Given(line_strategy, run_line, quick=2000, thorough=40000),
}
