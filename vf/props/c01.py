"""C01 - no stale derived state: a scene reached through any history of mutators observes exactly like a scene
built from scratch in the final configuration.  Three state machines (plasma / beam / laser scenes)."""
import copy
import math

import numpy as np
from hypothesis import strategies as st
from scipy import constants as K

from raysect.core import Node, Point3D, Vector3D, translate, rotate_y, rotate_z, AffineMatrix3D
from raysect.optical import World, Ray
from raysect.optical.material.emitter.inhomogeneous import NumericalIntegrator
from raysect.primitive import Box, Sphere, Cylinder

from cherab.core import Plasma, Species, Maxwellian, Beam, Line
from cherab.core.laser import Laser
from cherab.core.atomic import elements as EL
from cherab.core.model import ExcitationLine, RecombinationLine, ThermalCXLine, Bremsstrahlung, TotalRadiatedPower, \
    GaussianLine, MultipletLineShape, ZeemanTriplet, ParametrisedZeemanTriplet, StarkBroadenedLine, \
    BeamCXLine, BeamEmissionLine, SingleRayAttenuator
from cherab.core.model.laser import SeldenMatobaThomsonSpectrum, UniformEnergyDensity, ConstantBivariateGaussian, \
    TrivariateGaussian, GaussianBeamAxisymmetric, ConstantSpectrum, GaussianSpectrum

from ..core import Machine
from ..findings import is_open
from ..mocks import MockAtomicData, profile

ID = "C01"
RULE = ("Three Hypothesis RuleBasedStateMachines (plasma scene with passive models; plasma + beam with attenuator and beam "
        "models; plasma + laser with Thomson scattering). Rules are the public mutators applied both to the live raysect scene "
        "and to a JSON configuration record, interleaved with observation rules (3 fixed sight lines traced, beam density / "
        "direction at 5 points, z_effective / ion_density); at every observation and at the end a fresh scene is built from the "
        "record by one canonical builder and observed identically; live and fresh must agree (1e-9 of max|fresh|, same exception "
        "type if one raises). Non-trivial = an observation, later a mutator that changes the fresh observation, later another "
        "observation; distinct by history hash.")
ASSUMPTIONS = ["the canonical builder (parameters, then attenuator, then models - the order of the docs/tests) defines 'built from scratch'",
               "mock atomic data (vf/mocks.py) with two distinguishable providers A/B",
               "profiles are Python callables rebuilt from the same JSON spec on both sides"]
TOLERANCES = {"live vs fresh": "1e-9 * max|fresh| (identical arithmetic on both sides; summation order of species may differ)"}
REQUIRED_LABELS = ["plasma:nt", "beam:nt", "laser:nt"]

AMU = K.atomic_mass
WL_MIN, WL_MAX, BINS = 440.0, 680.0, 48
PARAMS_AD = {"wavelengths": {"deuterium|0|3,2": 655.0, "deuterium|0|4,2": 486.1, "hydrogen|0|3,2": 656.3, "carbon|2|a,b": 465.0,
                             "helium|1|4,3": 468.6, "carbon|5|8,7": 529.1, "neon|9|11,10": 525.0, "carbon|5|7,6": 343.4,
                             "carbon|5|10,8": 490.2},
             "seed": 7, "beam_meta": [1, 2]}
LINES = [("deuterium", 0, [3, 2]), ("deuterium", 0, [4, 2]), ("carbon", 2, ["a", "b"]), ("helium", 1, [4, 3]),
         ("carbon", 5, [8, 7]), ("neon", 9, [11, 10]), ("carbon", 5, [10, 8])]
SPECIES = [("deuterium", 0), ("deuterium", 1), ("carbon", 2), ("carbon", 3), ("carbon", 6), ("helium", 1), ("helium", 2),
           ("neon", 9), ("neon", 10), ("hydrogen", 0), ("hydrogen", 1)]
SHAPES = ["default", "gaussian", "multiplet", "ztriplet", "pztriplet", "stark"]

RAYS = [((3.0, 0.4, 0.3), (0.0, 0.0, 0.0)), ((-0.5, 3.1, -0.4), (0.15, 0.0, 0.1)), ((0.6, -0.7, 2.9), (0.0, 0.1, -0.1)),
        ((2.4, 1.9, 0.2), (-0.6, 0.05, 0.0))]


# ------------------------------------------------------------------------------------------------ JSON strategies
def _tf():
    return st.fixed_dictionaries({"t": st.lists(st.sampled_from([0.0, 0.0, 0.1, -0.25, 0.4]), min_size=3, max_size=3),
                                  "rz": st.sampled_from([0.0, 0.0, 20.0, -65.0, 90.0]), "ry": st.sampled_from([0.0, 0.0, 15.0, -40.0])})


def _prof(lo, hi):
    v = st.floats(math.log10(lo), math.log10(hi)).map(lambda e: float("%.4g" % 10 ** e))
    p0 = st.lists(st.sampled_from([0.0, 0.1, -0.2, 0.3]), min_size=3, max_size=3)
    return st.one_of(st.fixed_dictionaries({"kind": st.just("const"), "v": v}),
                     st.fixed_dictionaries({"kind": st.just("gauss"), "v": v, "p0": p0, "w": st.sampled_from([0.4, 0.7, 1.2])}),
                     st.fixed_dictionaries({"kind": st.just("gauss"), "v": v, "p0": p0, "w": st.sampled_from([0.4, 0.7, 1.2])}))


def _species(idx=None):
    i = st.integers(0, len(SPECIES) - 1) if idx is None else st.just(idx)
    return st.fixed_dictionaries({"i": i, "n": _prof(1e17, 5e19), "t": _prof(5.0, 2e3),
                                  "v": st.lists(st.sampled_from([0.0, 0.0, 2e4, -6e4, 1.5e5]), min_size=3, max_size=3)})


def _vec():
    return st.lists(st.sampled_from([0.0, 0.0, 1.0, -2.5, 0.7]), min_size=3, max_size=3)


def _geom():
    return st.one_of(
        st.fixed_dictionaries({"kind": st.just("sphere"), "r": st.sampled_from([0.6, 0.9, 1.2])}),
        st.fixed_dictionaries({"kind": st.just("box"), "h": st.lists(st.sampled_from([0.5, 0.8, 1.1]), min_size=3, max_size=3)}),
        st.fixed_dictionaries({"kind": st.just("cyl"), "r": st.sampled_from([0.5, 0.9]), "h": st.sampled_from([0.8, 1.6])}))


def _pmodel():
    return st.fixed_dictionaries({"kind": st.sampled_from(["exc", "exc", "rec", "tcx", "brems", "trp"]),
                                  "line": st.integers(0, len(LINES) - 1), "shape": st.sampled_from(SHAPES),
                                  "trp": st.sampled_from([["carbon", 2], ["deuterium", 0], ["helium", 1], ["neon", 9]])})


# raysect's NumericalIntegrator.__init__ takes a C float but its step setter a double: only steps that are exact in
# float32 make "constructed with step s" and "step set to s" the same configuration
_step = st.sampled_from([0.03125, 0.0625, 0.125])


@st.composite
def plasma_cfg(draw, full=True):
    sp = [draw(_species(i)) for i in draw(st.lists(st.integers(0, len(SPECIES) - 1), min_size=3, max_size=6, unique=True))]
    return {"parent": draw(st.sampled_from(["world", "world", "mid"])), "tf": draw(_tf()), "b": draw(_vec()),
            "e": {"n": draw(_prof(1e18, 1e20)), "t": draw(_prof(5.0, 2e3))},
            "species": sp, "geom": draw(_geom()), "gt": draw(st.one_of(st.none(), _tf())),
            "integ": {"step": draw(_step)}, "ad": draw(st.sampled_from(["A", "B"])),
            "models": [remap_model(m, sp) for m in draw(st.lists(_pmodel(), min_size=1 if full else 0, max_size=3 if full else 0))]}


# ------------------------------------------------------------------------------------------------ builders
def mk_tf(tf):
    if tf is None:
        return AffineMatrix3D()
    return translate(*tf["t"]) * rotate_z(tf["rz"]) * rotate_y(tf["ry"])


def mk_species(s):
    name, q = SPECIES[s["i"]]
    el = getattr(EL, name)
    v = s["v"]
    return Species(el, q, Maxwellian(profile(s["n"]), profile(s["t"]), (lambda x, y, z: Vector3D(v[0], v[1], v[2])), el.atomic_weight * AMU))


def mk_electrons(e):
    return Maxwellian(profile(e["n"]), profile(e["t"]), (lambda x, y, z: Vector3D(0, 0, 0)), K.m_e)


def mk_geom(g):
    if g["kind"] == "sphere":
        return Sphere(g["r"])
    if g["kind"] == "box":
        h = g["h"]
        return Box(Point3D(-h[0], -h[1], -h[2]), Point3D(h[0], h[1], h[2]))
    return Cylinder(g["r"], g["h"], transform=None)


def mk_ad(tag):
    """Providers "A" and "B" differ in every rate (tag) and - by 0.2 % - in every wavelength."""
    p = dict(PARAMS_AD)
    p["tag"] = tag
    if tag == "B":
        p["wavelengths"] = {k: v * 1.002 for k, v in PARAMS_AD["wavelengths"].items()}
    return MockAtomicData(p)


def mk_line(i):
    name, q, tr = LINES[i]
    return Line(getattr(EL, name), q, tuple(tr))


def mk_gaunt(g):
    """None -> the provider's Gaunt factor; an int -> a user-supplied mock Gaunt factor distinguished by that seed."""
    if g is None:
        return None
    from ..mocks import MockGauntFactor, rate_fn
    return MockGauntFactor(rate_fn({"tag": "U", "seed": int(g)}, "free_free_gaunt_factor"))


def mk_pmodel(m):
    k = m["kind"]
    if k == "brems":
        if m.get("integ"):      # a user-supplied integrator (relative tolerance, orders) instead of the default one
            from cherab.core.math.integrators import GaussianQuadrature
            return Bremsstrahlung(gaunt_factor=mk_gaunt(m.get("gaunt")),
                                  integrator=GaussianQuadrature(relative_tolerance=m["integ"][0], max_order=m["integ"][1]))
        return Bremsstrahlung(gaunt_factor=mk_gaunt(m.get("gaunt")))
    if k == "trp":
        return TotalRadiatedPower(getattr(EL, m["trp"][0]), m["trp"][1])
    line = mk_line(m["line"])
    kw = {}
    sh = m["shape"]
    if sh == "gaussian":
        kw = {"lineshape": GaussianLine}
    elif sh == "multiplet":
        wl = PARAMS_AD["wavelengths"]["%s|%d|%s" % (LINES[m["line"]][0], LINES[m["line"]][1], ",".join(str(t) for t in LINES[m["line"]][2]))]
        kw = {"lineshape": MultipletLineShape, "lineshape_args": [[[wl - 0.3, wl + 0.45], [0.75, 0.25]]]}
    elif sh == "ztriplet":
        kw = {"lineshape": ZeemanTriplet}
    elif sh == "pztriplet":
        kw = {"lineshape": ParametrisedZeemanTriplet}
    elif sh == "stark":
        kw = {"lineshape": StarkBroadenedLine}
    cls = {"exc": ExcitationLine, "rec": RecombinationLine, "tcx": ThermalCXLine}[k]
    return cls(line, **kw)


def _model_valid(m, have):
    """have = set of SPECIES indices present. Does the model find the species it needs?"""
    def has(name, q):
        return (name, q) in SPECIES and SPECIES.index((name, q)) in have
    k = m["kind"]
    if k == "brems":
        return True
    if k == "trp":
        return has(m["trp"][0], m["trp"][1]) and has(m["trp"][0], m["trp"][1] + 1)
    name, q, _ = LINES[m["line"]]
    return has(name, q) if k == "exc" else has(name, q + 1)


_TRPS = [["carbon", 2], ["deuterium", 0], ["helium", 1], ["neon", 9]]


def remap_model(m, species):
    """Keep the drawn model if the composition supports it, otherwise move to the next line / TRP target that does
    (deterministic in the argument and the current record), so that most observations emit instead of raising."""
    have = {sp["i"] for sp in species}
    if _model_valid(m, have):
        return m
    for d in range(1, len(LINES)):
        c = dict(m)
        c["line"] = (m["line"] + d) % len(LINES)
        c["trp"] = _TRPS[(_TRPS.index(m["trp"]) + d) % len(_TRPS)]
        if _model_valid(c, have):
            return c
    return m


def _parent(which, world, mid):
    """'world' | 'mid' | 'none' (the node is detached from the scene graph)"""
    return world if which == "world" else mid if which == "mid" else None


def build_plasma(cfg, world, mid):
    plasma = Plasma(parent=_parent(cfg["parent"], world, mid), transform=mk_tf(cfg["tf"]))
    plasma.b_field = (lambda x, y, z, b=cfg["b"]: Vector3D(b[0], b[1], b[2]))
    plasma.electron_distribution = mk_electrons(cfg["e"])
    plasma.composition = [mk_species(s) for s in cfg["species"]]
    plasma.atomic_data = mk_ad(cfg["ad"])
    plasma.geometry = mk_geom(cfg["geom"])
    plasma.geometry_transform = mk_tf(cfg["gt"]) if cfg["gt"] is not None else None
    plasma.integrator = NumericalIntegrator(step=cfg["integ"]["step"])
    if cfg["models"]:
        plasma.models = [mk_pmodel(m) for m in cfg["models"]]
    return plasma


def mk_bmodel(m):
    if m["kind"] == "cx":
        return BeamCXLine(mk_line(m["line"]))
    return BeamEmissionLine(Line(getattr(EL, m["el"]), 0, (3, 2)))


def build_beam(cfg, world, mid, plasma):
    beam = Beam(parent=_parent(cfg["parent"], world, mid), transform=mk_tf(cfg["tf"]))
    beam.plasma = plasma
    beam.atomic_data = mk_ad(cfg["ad"])
    beam.energy = cfg["energy"]
    beam.power = cfg["power"]
    beam.temperature = cfg["temperature"]
    beam.element = getattr(EL, cfg["element"])
    beam.sigma = cfg["sigma"]
    beam.divergence_x = cfg["divx"]
    beam.divergence_y = cfg["divy"]
    beam.length = cfg["length"]
    beam.integrator = NumericalIntegrator(step=cfg["integ"]["step"])
    beam.attenuator = mk_attenuator(cfg["att"], beam)
    if cfg["models"]:
        beam.models = [mk_bmodel(m) for m in cfg["models"]]
    return beam


def mk_attenuator(a, beam):
    """The attenuator in one of its documented construction forms: bare, or with the beam / plasma / atomic_data keywords
    (it is attached with `beam.attenuator = ...` in both cases)."""
    if a.get("ctor") == "keywords":
        return SingleRayAttenuator(step=a["step"], clamp_to_zero=a["clamp"], clamp_sigma=a["clamp_sigma"],
                                   beam=beam, plasma=beam.plasma, atomic_data=beam.atomic_data)
    return SingleRayAttenuator(step=a["step"], clamp_to_zero=a["clamp"], clamp_sigma=a["clamp_sigma"])


def mk_profile(p):
    pol = Vector3D(*p["pol"])
    k = p["kind"]
    if k == "uniform":
        return UniformEnergyDensity(energy_density=p["ed"], laser_length=p["length"], laser_radius=p["radius"], polarization=pol)
    if k == "bivariate":
        return ConstantBivariateGaussian(pulse_energy=p["pe"], pulse_length=p["pl"], laser_radius=p["radius"], laser_length=p["length"],
                                         stddev_x=p["sx"], stddev_y=p["sy"], polarization=pol)
    if k == "trivariate":
        return TrivariateGaussian(pulse_energy=p["pe"], pulse_length=p["pl"], mean_z=p["mz"], laser_length=p["length"],
                                  laser_radius=p["radius"], stddev_x=p["sx"], stddev_y=p["sy"], polarization=pol)
    return GaussianBeamAxisymmetric(pulse_energy=p["pe"], pulse_length=p["pl"], laser_length=p["length"], laser_radius=p["radius"],
                                    waist_z=p["wz"], stddev_waist=p["sw"], laser_wavelength=p["lw"], polarization=pol)


def mk_spectrum(s):
    if s["kind"] == "const":
        return ConstantSpectrum(s["min"], s["max"], s["bins"])
    return GaussianSpectrum(s["min"], s["max"], s["bins"], s["mean"], s["stddev"])


def build_laser(cfg, world, mid, plasma):
    laser = Laser(parent=_parent(cfg["parent"], world, mid), transform=mk_tf(cfg["tf"]))
    laser.plasma = plasma
    laser.laser_profile = mk_profile(cfg["profile"])
    laser.laser_spectrum = mk_spectrum(cfg["spectrum"])
    laser.importance = cfg["importance"]
    laser.integrator = NumericalIntegrator(step=cfg["integ"]["step"])
    if cfg["models"]:
        laser.models = [SeldenMatobaThomsonSpectrum() for _ in range(cfg["models"])]
    return laser


class SceneObj:
    pass


def build_scene(rec):
    s = SceneObj()
    s.world = World()
    s.mid = Node(parent=s.world, transform=mk_tf(rec["mid"]))
    s.plasma = build_plasma(rec["plasma"], s.world, s.mid)
    # a second, different plasma the beam / laser can be re-attached to (never mutated itself)
    s.plasma_b = build_plasma(rec["plasma_b"], s.world, s.mid) if "plasma_b" in rec else None
    s.beam = build_beam(rec["beam"], s.world, s.mid, s.plasma_b if rec["beam"].get("pl") == "b" else s.plasma) if "beam" in rec else None
    s.aux = None
    if s.beam is not None and rec["beam"].get("aux"):
        # a second attenuator wired to the beam through its documented keywords only (not installed as beam.attenuator); it is
        # sampled directly
        a = rec["beam"]["aux"]
        # its plasma and atomic data are its own keyword arguments: they do not follow later changes of the beam's
        s.aux = SingleRayAttenuator(step=a["step"], clamp_to_zero=a["clamp"], clamp_sigma=a["clamp_sigma"],
                                    beam=s.beam, plasma=s.plasma_b if a.get("pl") == "b" else s.plasma, atomic_data=mk_ad(a.get("ad", "A")))
    s.laser = build_laser(rec["laser"], s.world, s.mid, s.plasma_b if rec["laser"].get("pl") == "b" else s.plasma) if "laser" in rec else None
    return s


# spectral settings of the observing rays: they alternate from one observation to the next (and differ between the rays of an
# observation), so that whatever a model remembers from the previous observation's rays (a normalisation by the spectral range,
# a bin width) meets another range in the live scene but not in the scene built from scratch
WINDOWS = [[(WL_MIN, WL_MAX, BINS)] * 4,
           [(WL_MIN + 30.0, WL_MAX - 90.0, BINS // 2), (WL_MIN, WL_MAX, BINS), (WL_MIN + 100.0, WL_MAX, BINS - 7), (WL_MIN, WL_MAX - 20.0, BINS)]]


def observe(s, rays, variant=0):
    out = []
    for k, (o, t) in enumerate(rays):
        d = Vector3D(t[0] - o[0], t[1] - o[1], t[2] - o[2]).normalise()
        w0, w1, nb = WINDOWS[variant % 2][k % 4]
        ray = Ray(Point3D(*o), d, min_wavelength=w0, max_wavelength=w1, bins=nb)
        out.append(np.array(ray.trace(s.world).samples))
    extra = []
    p = s.plasma
    for x, y, z in ((0.0, 0.0, 0.0), (0.2, -0.1, 0.3)):
        try:
            extra.append(p.z_effective(x, y, z))
        except ValueError:
            extra.append(-1.0)
        extra.append(p.ion_density(x, y, z))
    if s.beam is not None:
        L = s.beam.length
        for x, y, z in ((0, 0, 0.1 * L), (0.03, -0.02, 0.5 * L), (-0.05, 0.04, 0.9 * L), (0.0, 0.0, L), (0.01, 0.0, 1.2 * L)):
            extra.append(s.beam.density(x, y, z))
            d = s.beam.direction(x, y, z)
            extra.extend([d.x, d.y, d.z])
            if getattr(s, "aux", None) is not None:
                extra.append(s.aux.density(x, y, min(z, L)))
    out.append(np.array(extra))
    return out


def safe_observe(s, rays, variant=0):
    try:
        return observe(s, rays, variant), None
    except Exception as e:  # noqa: the type is compared between live and fresh
        return None, e


# ------------------------------------------------------------------------------------------------ base machine model
class SceneBase:
    FOCUS = "plasma"
    RAYS = RAYS[:3]

    def __init__(self, ctx, params):
        self.ctx = ctx
        self.rec = params          # the configuration record (mutated along the history)
        self.rec = _copy(params)
        self.live = build_scene(self.rec)
        self.n_obs = 0
        self.last_fresh = None
        self.mut_since_obs = 0
        self.nt = False
        self.n_mut = 0

    def close(self):
        self.live = None

    # -------- comparison
    def _compare(self, where):
        live, e_live = safe_observe(self.live, self.RAYS, self.n_obs)
        fresh_scene = build_scene(self.rec)
        fresh, e_fresh = safe_observe(fresh_scene, self.RAYS, self.n_obs)
        if (e_live is None) != (e_fresh is None) or (e_live is not None and type(e_live) is not type(e_fresh)):
            self.ctx.fail("exception", "%s: live scene %s, scene built from scratch %s" % (
                where, "raised %s: %s" % (type(e_live).__name__, e_live) if e_live else "observed fine",
                "raised %s: %s" % (type(e_fresh).__name__, e_fresh) if e_fresh else "observed fine"))
        if e_fresh is not None:
            self.ctx.label("observe:raises:" + type(e_fresh).__name__)
            fresh_key = "exc:" + type(e_fresh).__name__
        else:
            names = ["ray%d" % i for i in range(len(self.RAYS))] + ["samples"]
            for nm, a, b in zip(names, live, fresh):
                scale = float(np.max(np.abs(b))) if b.size else 0.0
                self.ctx.close(a, b, "stale:" + nm, rtol=1e-9, atol=1e-300, scale=scale,
                               info="(%s; live scene vs scene built from scratch in the final configuration)" % where)
            fresh_key = [np.round(b, 14).tolist() for b in fresh]
            self.ctx.label("observe:ok")
            if any(np.any(b[:] != 0) for b in fresh[:-1]):
                self.ctx.label("observe:emission")
        # non-trivial = some mutator changed what a from-scratch scene shows: compared with the previous observation made with the
        # same spectral settings (they alternate), so that the change of settings itself does not count
        var = self.n_obs % 2
        prev = (self.last_fresh or {}).get(var)
        if prev is not None and self.n_mut > prev[1] and fresh_key != prev[0]:
            self.nt = True
        self.last_fresh = dict(self.last_fresh or {})
        self.last_fresh[var] = (fresh_key, self.n_mut)
        self.mut_since_obs = 0
        self.n_obs += 1

    def _mut(self, name):
        self.n_mut += 1
        self.mut_since_obs += 1
        self.ctx.label("op:" + name)

    def invariant(self):
        pass

    def finish(self):
        self._compare("end of history")
        self.ctx.label("theme:%s" % (self.rec.get("theme") or "all-rules"))
        self.ctx.nt(self.nt)
        if self.nt:
            self.ctx.label("nt")

    # -------- observation (three identical rules: Hypothesis picks rules uniformly, this keeps ~15 % observations)
    def do_observe(self, a):
        self._compare("observation %d" % (self.n_obs + 1))

    do_observe_b = do_observe
    do_observe_c = do_observe

    # -------- plasma mutators (shared)
    def do_p_b(self, v):
        self.rec["plasma"]["b"] = v
        self.live.plasma.b_field = (lambda x, y, z, b=v: Vector3D(b[0], b[1], b[2]))
        self._mut("p_b")

    def do_p_electrons(self, e):
        self.rec["plasma"]["e"] = e
        self.live.plasma.electron_distribution = mk_electrons(e)
        self._mut("p_electrons")

    def do_p_comp_add(self, s):
        lst = self.rec["plasma"]["species"]
        for k, old in enumerate(lst):
            if old["i"] == s["i"]:
                lst[k] = s           # dict semantics: replaced in place
                break
        else:
            lst.append(s)
        self.live.plasma.composition.add(mk_species(s))
        self._mut("p_comp_add")

    def do_p_comp_set(self, lst):
        seen = {}
        for s in lst:
            seen[s["i"]] = s
        self.rec["plasma"]["species"] = list(seen.values())
        self.live.plasma.composition = [mk_species(s) for s in lst]
        self._mut("p_comp_set")

    def do_p_tf(self, tf):
        self.rec["plasma"]["tf"] = tf
        self.live.plasma.transform = mk_tf(tf)
        self._mut("p_tf")

    def do_p_parent(self, which):
        self.rec["plasma"]["parent"] = which
        self.live.plasma.parent = _parent(which, self.live.world, self.live.mid)
        self._mut("p_parent:" + which)

    def do_mid_tf(self, tf):
        self.rec["mid"] = tf
        self.live.mid.transform = mk_tf(tf)
        self._mut("mid_tf")

    BASE_OPS = {
        "observe": lambda: st.just(None),
        "observe_b": lambda: st.just(None),
        "observe_c": lambda: st.just(None),
        "p_b": _vec,
        "p_electrons": lambda: st.fixed_dictionaries({"n": _prof(1e18, 1e20), "t": _prof(5.0, 2e3)}),
        "p_comp_add": _species,
        "p_tf": _tf,
        "p_parent": lambda: st.sampled_from(["world", "mid", "world", "mid", "none"]),
        "mid_tf": _tf,
    }


def _copy(x):
    import json
    return json.loads(json.dumps(x))


# ------------------------------------------------------------------------------------------------ plasma machine
class PlasmaScene(SceneBase):
    FOCUS = "plasma"

    def do_p_comp_clear(self, a):
        if a != 0:           # only one draw in four really clears: an empty composition makes every line model raise
            return
        self.rec["plasma"]["species"] = []
        self.live.plasma.composition.clear()
        self._mut("p_comp_clear")

    def do_p_geom(self, g):
        self.rec["plasma"]["geom"] = g
        self.live.plasma.geometry = mk_geom(g)
        self._mut("p_geom")

    def do_p_gt(self, tf):
        self.rec["plasma"]["gt"] = tf
        self.live.plasma.geometry_transform = mk_tf(tf) if tf is not None else None
        self._mut("p_gt")

    def do_p_integrator(self, a):
        mode, step = a
        self.rec["plasma"]["integ"] = {"step": step}
        if mode == "swap":
            self.live.plasma.integrator = NumericalIntegrator(step=step)
        else:
            self.live.plasma.integrator.step = step
        self._mut("p_integrator:" + mode)

    def do_p_ad(self, tag):
        cur = self.rec["plasma"]["ad"]
        tag = {"other": "B" if cur == "A" else "A", "same": cur}.get(tag, tag)
        self.rec["plasma"]["ad"] = tag
        self.live.plasma.atomic_data = mk_ad(tag)
        self._mut("p_ad")

    def do_p_models_set(self, ms):
        ms = [remap_model(m, self.rec["plasma"]["species"]) for m in ms]
        self.rec["plasma"]["models"] = ms
        self.live.plasma.models = [mk_pmodel(m) for m in ms]
        self._mut("p_models_set")

    def do_p_models_add(self, m):
        m = remap_model(m, self.rec["plasma"]["species"])
        self.rec["plasma"]["models"].append(m)
        self.live.plasma.models.add(mk_pmodel(m))
        self._mut("p_models_add:" + m["kind"])

    def pre_p_brems_gaunt(self):
        return any(m["kind"] == "brems" for m in self.rec["plasma"]["models"])

    def do_p_brems_gaunt(self, g):
        for m, obj in zip(self.rec["plasma"]["models"], list(self.live.plasma.models)):
            if m["kind"] == "brems":
                if g == "toggle":        # set a user factor, or withdraw the one in use (override -> default -> provider changes ...)
                    g = 1 if m.get("gaunt") is None else None
                m["gaunt"] = g
                obj.gaunt_factor = mk_gaunt(g)
                break
        self._mut("p_brems_gaunt:" + ("provider" if g is None else "user"))

    def do_p_reassign(self, attr):
        """plasma.<attr> = plasma.<attr>: the very same object again.  The configuration is unchanged, every later change
        must still get through (a setter that unsubscribes the old object after subscribing the new one goes deaf here)."""
        pl = self.live.plasma
        if attr == "composition":
            pl.composition = list(pl.composition)
        elif attr == "models":
            pl.models = list(pl.models)
        else:
            setattr(pl, attr, getattr(pl, attr))
        self._mut("p_reassign:" + attr)

    def pre_p_brems_integrator(self):
        return self.pre_p_brems_gaunt()

    def do_p_brems_integrator(self, a):
        """model.integrator = <a new integrator> on a Bremsstrahlung model that may already have emitted"""
        from cherab.core.math.integrators import GaussianQuadrature
        for m, obj in zip(self.rec["plasma"]["models"], list(self.live.plasma.models)):
            if m["kind"] == "brems":
                m["integ"] = list(a)
                obj.integrator = GaussianQuadrature(relative_tolerance=a[0], max_order=a[1])
                break
        self._mut("p_brems_integrator")

    def do_p_models_reattach(self, a):
        """detach all models and attach the very same Python objects again (their caches were filled before)"""
        objs = list(self.live.plasma.models)
        if a == "clear-set":
            self.live.plasma.models.clear()
            self.live.plasma.models = objs
        elif a == "set-same":
            self.live.plasma.models = objs
        else:                       # reversed order
            objs.reverse()
            self.rec["plasma"]["models"].reverse()
            self.live.plasma.models = objs
        self._mut("p_models_reattach:" + a)

    def do_p_models_clear(self, a):
        self.rec["plasma"]["models"] = []
        self.live.plasma.models.clear()
        self._mut("p_models_clear")

    OPS = dict(SceneBase.BASE_OPS)
    OPS.update({
        "p_comp_set": lambda: st.lists(_species(), min_size=2, max_size=6),
        "p_comp_clear": lambda: st.integers(0, 3),
        "p_geom": _geom,
        "p_gt": lambda: st.one_of(st.none(), _tf()),
        "p_integrator": lambda: st.tuples(st.sampled_from(["swap", "inplace"]), _step),
        "p_ad": lambda: st.sampled_from(["other", "other", "same", "A", "B"]),
        "p_models_set": lambda: st.lists(_pmodel(), min_size=0, max_size=3),
        "p_models_add": _pmodel,
        "p_models_clear": lambda: st.just(None),
        "p_brems_gaunt": lambda: st.sampled_from([None, 1, 2, "toggle", "toggle", "toggle"]),
        "p_brems_integrator": lambda: st.tuples(st.sampled_from([1e-5, 1e-7, 1e-3]), st.sampled_from([50, 30, 64])),
        "p_reassign": lambda: st.sampled_from(["atomic_data", "integrator", "b_field", "electron_distribution", "geometry",
                                               "geometry_transform", "composition", "models", "parent", "transform"]),
        "p_models_reattach": lambda: st.sampled_from(["clear-set", "set-same", "reversed"]),
    })


@st.composite
def plasma_params(draw):
    return {"mid": draw(_tf()), "plasma": draw(plasma_cfg()), "theme": draw(_theme)}


# ------------------------------------------------------------------------------------------------ beam machine
BEAM_RAYS = [((-0.7, 2.8, 0.5), (-0.7, 0.0, 0.0)), ((0.1, -2.9, -0.4), (0.1, 0.0, 0.0)), ((0.9, 0.3, 3.0), (0.8, 0.02, 0.0)),
             ((3.0, 0.2, 0.1), (-1.5, 0.0, 0.0))]


@st.composite
def beam_cfg(draw):
    return {"parent": draw(st.sampled_from(["world", "world", "mid"])),
            "tf": {"t": [-1.6, draw(st.sampled_from([0.0, 0.05])), 0.0], "rz": 0.0, "ry": 90.0},
            "energy": draw(st.sampled_from([2e4, 5e4, 9e4])), "power": draw(st.sampled_from([1e5, 2e6])),
            "temperature": draw(st.sampled_from([5.0, 20.0])), "element": draw(st.sampled_from(["deuterium", "hydrogen"])),
            "sigma": draw(st.sampled_from([0.05, 0.1])), "divx": draw(st.sampled_from([0.0, 0.5, 2.0])),
            "divy": draw(st.sampled_from([0.0, 0.5, 3.0])), "length": draw(st.sampled_from([1.5, 2.5, 3.2])),
            "ad": draw(st.sampled_from(["A", "B"])), "integ": {"step": draw(_step)},
            "att": draw(_att()), "models": draw(st.lists(_bmodel(), min_size=1, max_size=2)),
            "aux": draw(st.one_of(st.none(), _att()))}


def _resolve_cfg(cfg):
    cfg["models"] = [resolve_bmodel(m, cfg["element"]) for m in cfg["models"]]
    return cfg


def _att():
    return st.fixed_dictionaries({"step": st.sampled_from([0.02, 0.05, 0.11]), "clamp": st.booleans(), "clamp_sigma": st.sampled_from([2.0, 3.5, 5.0]),
                                  "ctor": st.sampled_from(["bare", "bare", "keywords"])})


def _bmodel():
    return st.one_of(st.fixed_dictionaries({"kind": st.just("cx"), "line": st.sampled_from([4, 5, 6])}),
                     st.fixed_dictionaries({"kind": st.just("bes"), "el": st.sampled_from(["same", "same", "same", "deuterium", "hydrogen"])}))


def resolve_bmodel(m, beam_element):
    """'same' = Balmer-alpha of the element the beam has when the model is created (what a user would write)."""
    if m["kind"] == "bes" and m["el"] == "same":
        m = dict(m)
        m["el"] = beam_element
    return m


@st.composite
def beam_params(draw):
    p = draw(plasma_cfg(full=False))
    # make sure typical receivers / targets are present
    have = {s["i"] for s in p["species"]}
    for need in (1, 4, 8):          # D+, C6+, Ne10+
        if need not in have:
            p["species"].append(draw(_species(need)))
    pb = draw(plasma_cfg(full=False))
    have = {s["i"] for s in pb["species"]}
    for need in (1, 4, 8):
        if need not in have:
            pb["species"].append(draw(_species(need)))
    b = _resolve_cfg(draw(beam_cfg()))
    b["pl"] = draw(st.sampled_from(["a", "a", "b"]))
    if b.get("aux"):
        b["aux"] = dict(b["aux"], ad=draw(st.sampled_from(["A", "B"])), pl=draw(st.sampled_from(["a", "a", "b"])))
    return {"mid": draw(_tf()), "plasma": p, "plasma_b": pb, "beam": b, "theme": draw(st.one_of(_theme, _theme, st.just("attenuator")))}


class BeamScene(SceneBase):
    FOCUS = "beam"
    RAYS = BEAM_RAYS

    def _b(self):
        return self.live.beam

    def _num(self, key, attr, v):
        self.rec["beam"][key] = v
        setattr(self._b(), attr, v)
        self._mut("b_" + key)

    def do_b_energy(self, v):
        self._num("energy", "energy", v)

    def do_b_power(self, v):
        self._num("power", "power", v)

    def do_b_temperature(self, v):
        self._num("temperature", "temperature", v)

    def do_b_element(self, v):
        if v == "same":          # re-assignment of the current element (still a setter call); keeps BES models usable
            v = self.rec["beam"]["element"]
        self.rec["beam"]["element"] = v
        self._b().element = getattr(EL, v)
        self._mut("b_element")

    def pre_b_sigma(self):
        return not is_open("C01-beam-geometry-stale")

    def do_b_sigma(self, v):
        self._num("sigma", "sigma", v)

    def pre_b_div(self):
        return not is_open("C01-beam-geometry-stale")

    def do_b_div(self, a):
        self.rec["beam"]["divx"], self.rec["beam"]["divy"] = a
        self._b().divergence_x = a[0]
        self._b().divergence_y = a[1]
        self._mut("b_div")

    def pre_b_length(self):
        return not is_open("C01-beam-geometry-stale")

    def do_b_length(self, v):
        self._num("length", "length", v)

    def do_b_plasma(self, which):
        # attach the beam to the other plasma object (or re-assign the same one)
        self.rec["beam"]["pl"] = which
        self._b().plasma = self.live.plasma_b if which == "b" else self.live.plasma
        self._mut("b_plasma:" + which)

    def do_b_ad(self, tag):
        cur = self.rec["beam"]["ad"]
        tag = {"other": "B" if cur == "A" else "A", "same": cur}.get(tag, tag)
        self.rec["beam"]["ad"] = tag
        self._b().atomic_data = mk_ad(tag)
        self._mut("b_ad")

    def do_b_integrator(self, a):
        mode, step = a
        self.rec["beam"]["integ"] = {"step": step}
        if mode == "swap":
            self._b().integrator = NumericalIntegrator(step=step)
        else:
            self._b().integrator.step = step
        self._mut("b_integrator:" + mode)

    def pre_b_tf(self):
        return not is_open("C01-beam-modified-cdef")

    def do_b_tf(self, a):
        dy, rz = a
        tf = {"t": [-1.6, dy, 0.0], "rz": rz, "ry": 90.0}
        self.rec["beam"]["tf"] = tf
        self._b().transform = mk_tf(tf)
        self._mut("b_tf")

    def pre_b_parent(self):
        return not is_open("C01-beam-modified-cdef")

    def do_b_parent(self, which):
        self.rec["beam"]["parent"] = which
        self._b().parent = _parent(which, self.live.world, self.live.mid)
        self._mut("b_parent:" + which)

    def pre_mid_tf(self):
        return not is_open("C01-beam-modified-cdef")

    def do_b_att_swap(self, a):
        self._att_pool().append((self._b().attenuator, copy.deepcopy(self.rec["beam"]["att"])))
        del self._att_pool()[:-3]
        self.rec["beam"]["att"] = a
        self._b().attenuator = mk_attenuator(a, self._b())
        self._mut("b_att_swap:" + a.get("ctor", "bare"))

    def _att_pool(self):
        # attenuator objects this beam used earlier (with the settings they had when they were taken off)
        if not hasattr(self, "_attpool"):
            self._attpool = []
        return self._attpool

    def pre_b_att_back(self):
        return bool(self._att_pool())

    def do_b_att_back(self, k):
        # an attenuator object that was replaced earlier is put back (A, then B, then A again): it must follow the beam as it is now
        pool = self._att_pool()
        obj, cfg = pool.pop(k % len(pool))
        pool.append((self._b().attenuator, copy.deepcopy(self.rec["beam"]["att"])))
        self.rec["beam"]["att"] = cfg
        self._b().attenuator = obj
        self._mut("b_att_back")

    def pre_b_att_step(self):
        return not is_open("C01-beam-modified-cdef")

    def do_b_att_step(self, v):
        self.rec["beam"]["att"]["step"] = v
        self._b().attenuator.step = v
        self._mut("b_att_step")

    def pre_b_att_clamp_sigma(self):
        return not is_open("C01-beam-geometry-stale")

    def do_b_att_clamp_sigma(self, v):
        self.rec["beam"]["att"]["clamp_sigma"] = v
        self._b().attenuator.clamp_sigma = v
        self._mut("b_att_clamp_sigma")

    def do_b_models_set(self, ms):
        ms = [resolve_bmodel(m, self.rec["beam"]["element"]) for m in ms]
        self.rec["beam"]["models"] = ms
        self._b().models = [mk_bmodel(m) for m in ms]
        self._mut("b_models_set")

    def do_b_models_add(self, m):
        m = resolve_bmodel(m, self.rec["beam"]["element"])
        self.rec["beam"]["models"].append(m)
        self._b().models.add(mk_bmodel(m))
        self._mut("b_models_add")

    def do_b_models_clear(self, a):
        self.rec["beam"]["models"] = []
        self._b().models.clear()
        self._mut("b_models_clear")

    def pre_b_bes_line(self):
        return any(m["kind"] == "bes" for m in self.rec["beam"]["models"])

    def do_b_bes_line(self, el):
        for m, obj in zip(self.rec["beam"]["models"], list(self._b().models)):
            if m["kind"] == "bes":
                m["el"] = el
                obj.line = Line(getattr(EL, el), 0, (3, 2))
                break
        self._mut("b_bes_line")

    def pre_b_cx_line(self):
        return any(m["kind"] == "cx" for m in self.rec["beam"]["models"])

    def do_b_reassign(self, attr):
        """beam.<attr> = beam.<attr> (the same object again), see do_p_reassign"""
        b = self._b()
        if attr == "models":
            b.models = list(b.models)
        elif attr == "model.line":
            for obj in list(b.models):
                obj.line = obj.line
        else:
            setattr(b, attr, getattr(b, attr))
        self._mut("b_reassign:" + attr)

    def pre_b_aux_step(self):
        return bool(self.rec["beam"].get("aux"))

    def do_b_aux_step(self, v):
        self.rec["beam"]["aux"]["step"] = v
        self.live.aux.step = v
        self._mut("b_aux_step")

    def do_b_att_calculate(self, a):
        """the documented explicit trigger of the attenuation calculation (instead of the lazy one): changes nothing"""
        try:
            self._b().attenuator.calculate_attenuation()
        except Exception as e:  # noqa: a detached beam / missing data: the observation that follows meets the same condition in both scenes
            self.ctx.label("b_att_calculate:raised:" + type(e).__name__)
        self._mut("b_att_calculate")

    def do_b_refused(self, a):
        """an assignment the setter refuses (ValueError) is not a change: the scene must go on behaving as configured, and
        later valid changes must still get through"""
        attr, bad = a
        b = self._b()
        obj = b.attenuator if attr in ("step", "clamp_sigma") else b
        self.ctx.raises((ValueError,), "refused:beam." + attr, setattr, obj, attr, bad)
        self._mut("b_refused:" + attr)

    def do_b_cx_line(self, li):
        for m, obj in zip(self.rec["beam"]["models"], list(self._b().models)):
            if m["kind"] == "cx":
                m["line"] = li
                obj.line = mk_line(li)
                break
        self._mut("b_cx_line")

    OPS = dict(SceneBase.BASE_OPS)
    OPS.update({
        "b_energy": lambda: st.sampled_from([1.5e4, 4e4, 8e4]),
        "b_power": lambda: st.sampled_from([5e4, 1e6, 3e6]),
        "b_temperature": lambda: st.sampled_from([2.0, 10.0, 40.0]),
        "b_element": lambda: st.sampled_from(["same", "same", "deuterium", "hydrogen"]),
        "b_sigma": lambda: st.sampled_from([0.04, 0.08, 0.15]),
        "b_div": lambda: st.tuples(st.sampled_from([0.0, 0.7, 2.5]), st.sampled_from([0.0, 1.0, 4.0])),
        "b_length": lambda: st.sampled_from([1.0, 2.0, 3.4]),
        "b_plasma": lambda: st.sampled_from(["a", "b"]),
        "b_ad": lambda: st.sampled_from(["other", "other", "same", "A", "B"]),
        "b_integrator": lambda: st.tuples(st.sampled_from(["swap", "inplace"]), _step),
        "b_tf": lambda: st.tuples(st.sampled_from([0.0, 0.05, -0.1]), st.sampled_from([0.0, 4.0, -7.0])),
        "b_parent": lambda: st.sampled_from(["world", "mid", "world", "mid", "none"]),
        "b_att_swap": _att,
        "b_att_back": lambda: st.integers(0, 2),
        "b_att_step": lambda: st.sampled_from([0.02, 0.05, 0.11]),
        "b_att_clamp_sigma": lambda: st.sampled_from([2.0, 3.5, 5.0]),
        "b_models_set": lambda: st.lists(_bmodel(), min_size=0, max_size=2),
        "b_models_add": _bmodel,
        "b_models_clear": lambda: st.just(None),
        "b_reassign": lambda: st.sampled_from(["plasma", "atomic_data", "attenuator", "integrator", "element", "models", "model.line",
                                               "parent", "transform"]),
        "b_att_calculate": lambda: st.just(None),
        "b_aux_step": lambda: st.sampled_from([0.02, 0.05, 0.11, 0.4]),
        "b_refused": lambda: st.tuples(st.sampled_from(["step", "clamp_sigma", "energy", "power", "temperature", "sigma", "length",
                                                         "divergence_x", "divergence_y"]), st.sampled_from([-0.5, -1.0, -3.0])),
        "b_cx_line": lambda: st.sampled_from([4, 5, 6, 6]),        # 4 and 6: two transitions of the same receiver ion
        "b_bes_line": lambda: st.sampled_from(["deuterium", "hydrogen"]),
    })


# ------------------------------------------------------------------------------------------------ laser machine
LASER_RAYS = [((0.0, 2.9, 0.3), (0.0, 0.0, 0.3)), ((0.02, -3.0, -0.2), (0.0, 0.0, -0.2)), ((2.8, 0.01, 0.6), (0.0, 0.0, 0.55)),
              ((0.4, 0.5, 3.0), (0.0, 0.0, -1.0))]

_pol = st.sampled_from([[0.0, 1.0, 0.0], [1.0, 0.0, 0.0], [1.0, 1.0, 0.0]])


def _lprofile():
    base = {"pol": _pol, "length": st.sampled_from([1.8, 2.4, 3.0]), "radius": st.sampled_from([0.03, 0.06])}
    pe, pl = st.sampled_from([0.5, 2.0, 5.0, 1.0]), st.sampled_from([1e-8, 3e-8, 1e-8, 3e-8, 1.0])
    sx = st.sampled_from([0.01, 0.02])
    return st.one_of(
        st.fixed_dictionaries(dict(base, kind=st.just("uniform"), ed=st.sampled_from([1.0, 30.0]))),
        st.fixed_dictionaries(dict(base, kind=st.just("bivariate"), pe=pe, pl=pl, sx=sx, sy=sx)),
        st.fixed_dictionaries(dict(base, kind=st.just("trivariate"), pe=pe, pl=st.sampled_from([2e-9, 6e-9]), sx=sx, sy=sx,
                                   mz=st.sampled_from([0.8, 1.2, 1.6]))),
        st.fixed_dictionaries(dict(base, kind=st.just("gaussbeam"), pe=pe, pl=pl, wz=st.sampled_from([0.5, 1.2]),
                                   sw=st.sampled_from([0.003, 0.01]), lw=st.sampled_from([532.0, 1064.0]))))


def _lspectrum():
    return st.one_of(
        st.fixed_dictionaries({"kind": st.just("const"), "min": st.sampled_from([531.5, 559.0]), "max": st.sampled_from([560.5, 580.0]),
                               "bins": st.integers(1, 4)}),
        st.fixed_dictionaries({"kind": st.just("gauss"), "min": st.sampled_from([520.0, 540.0]), "max": st.sampled_from([570.0, 600.0]),
                               "bins": st.integers(1, 5), "mean": st.sampled_from([545.0, 560.0]), "stddev": st.sampled_from([2.0, 8.0])}))


@st.composite
def laser_cfg(draw):
    return {"parent": draw(st.sampled_from(["world", "world", "mid"])),
            "tf": {"t": [0.0, draw(st.sampled_from([0.0, 0.01])), -1.2], "rz": 0.0, "ry": 0.0},
            "profile": draw(_lprofile()), "spectrum": draw(_lspectrum()), "importance": draw(st.sampled_from([1.0, 3.0])),
            "integ": {"step": draw(st.sampled_from([0.0078125, 0.015625]))}, "models": draw(st.sampled_from([1, 1, 2, 0]))}


@st.composite
def laser_params(draw):
    lz = draw(laser_cfg())
    lz["pl"] = draw(st.sampled_from(["a", "a", "b"]))
    return {"mid": draw(_tf()), "plasma": draw(plasma_cfg(full=False)), "plasma_b": draw(plasma_cfg(full=False)), "laser": lz,
            "theme": draw(_theme)}


_PROFILE_SETTERS = {
    # the last entries are constructor defaults / internal presets of the profile classes, exactly (pulse_length = 1 s and all)
    "length": ("laser_length", ["uniform", "bivariate", "trivariate", "gaussbeam"], [1.8, 2.4, 3.0, 1.0]),
    "radius": ("laser_radius", ["uniform", "bivariate", "trivariate", "gaussbeam"], [0.03, 0.06, 0.05]),
    "ed": ("energy_density", ["uniform"], [1.0, 30.0, 7.0]),
    "pe": ("pulse_energy", ["bivariate", "trivariate", "gaussbeam"], [0.5, 2.0, 5.0, 1.0]),
    "pl": ("pulse_length", ["bivariate", "trivariate", "gaussbeam"], [1e-8, 3e-8, 5e-9, 1.0]),
    "sx": ("stddev_x", ["bivariate", "trivariate"], [0.01, 0.02]),
    "sy": ("stddev_y", ["bivariate", "trivariate"], [0.01, 0.02]),
    "mz": ("mean_z", ["trivariate"], [0.8, 1.2, 1.6, 0.0, 1.0]),
    "wz": ("waist_z", ["gaussbeam"], [0.5, 1.2]),
    "sw": ("stddev_waist", ["gaussbeam"], [0.003, 0.01]),
    "lw": ("laser_wavelength", ["gaussbeam"], [532.0, 1064.0]),
}
_SPECTRUM_SETTERS = {
    "min": ("min_wavelength", ["const", "gauss"], [520.0, 531.5, 540.0]),
    "max": ("max_wavelength", ["const", "gauss"], [560.5, 580.0, 600.0]),
    "bins": ("bins", ["const", "gauss"], [1, 2, 3, 5]),
    "mean": ("mean", ["gauss"], [545.0, 560.0]),
    "stddev": ("stddev", ["gauss"], [2.0, 8.0]),
}


class LaserScene(SceneBase):
    FOCUS = "laser"
    RAYS = LASER_RAYS

    def _l(self):
        return self.live.laser

    def _lpool(self, what):
        # profile / spectrum objects this laser used earlier, each with the settings it had when it was replaced
        if not hasattr(self, "_lpools"):
            self._lpools = {"profile": [], "spectrum": []}
        return self._lpools[what]

    def do_l_profile_swap(self, p):
        self._lpool("profile").append((self._l().laser_profile, copy.deepcopy(self.rec["laser"]["profile"])))
        del self._lpool("profile")[:-3]
        self.rec["laser"]["profile"] = p
        self._l().laser_profile = mk_profile(p)
        self._mut("l_profile_swap:" + p["kind"])

    def pre_l_profile_swap_back(self):
        return bool(self._lpool("profile"))

    def do_l_profile_swap_back(self, k):
        # a profile object that was replaced earlier is installed again (A, B, A)
        pool = self._lpool("profile")
        obj, cfg = pool.pop(k % len(pool))
        pool.append((self._l().laser_profile, copy.deepcopy(self.rec["laser"]["profile"])))
        self.rec["laser"]["profile"] = cfg
        self._l().laser_profile = obj
        self._mut("l_profile_swap_back")

    def pre_l_spectrum_swap_back(self):
        return bool(self._lpool("spectrum"))

    def do_l_spectrum_swap_back(self, k):
        pool = self._lpool("spectrum")
        obj, cfg = pool.pop(k % len(pool))
        pool.append((self._l().laser_spectrum, copy.deepcopy(self.rec["laser"]["spectrum"])))
        self.rec["laser"]["spectrum"] = cfg
        self._l().laser_spectrum = obj
        self._mut("l_spectrum_swap_back")

    def do_l_profile_set(self, a):
        key, idx = a
        attr, kinds, vals = _PROFILE_SETTERS[key]
        p = self.rec["laser"]["profile"]
        if p["kind"] not in kinds:
            return
        v = vals[idx % len(vals)]
        p[key] = v
        setattr(self._l().laser_profile, attr, v)
        self._mut("l_profile_set:" + attr)

    def do_l_polarization(self, v):
        self.rec["laser"]["profile"]["pol"] = v
        self._l().laser_profile.set_polarization(Vector3D(*v))
        self._mut("l_polarization")

    def do_l_spectrum_swap(self, s):
        self._lpool("spectrum").append((self._l().laser_spectrum, copy.deepcopy(self.rec["laser"]["spectrum"])))
        del self._lpool("spectrum")[:-3]
        self.rec["laser"]["spectrum"] = s
        self._l().laser_spectrum = mk_spectrum(s)
        self._mut("l_spectrum_swap:" + s["kind"])

    def do_l_spectrum_set(self, a):
        key, idx = a
        attr, kinds, vals = _SPECTRUM_SETTERS[key]
        s = self.rec["laser"]["spectrum"]
        if s["kind"] not in kinds:
            return
        v = vals[idx % len(vals)]
        new = dict(s)
        new[key] = v
        if not new["min"] < new["max"]:
            return
        s[key] = v
        setattr(self._l().laser_spectrum, attr, v)
        self._mut("l_spectrum_set:" + attr)

    def do_l_reassign(self, attr):
        """laser.<attr> = laser.<attr> (the same object again), see do_p_reassign"""
        la = self._l()
        if attr == "models":
            la.models = list(la.models)
        else:
            setattr(la, attr, getattr(la, attr))
        self._mut("l_reassign:" + attr)

    def do_l_importance(self, v):
        self.rec["laser"]["importance"] = v
        self._l().importance = v
        self._mut("l_importance")

    def do_l_integrator(self, a):
        mode, step = a
        self.rec["laser"]["integ"] = {"step": step}
        if mode == "swap":
            self._l().integrator = NumericalIntegrator(step=step)
        else:
            self._l().integrator.step = step
        self._mut("l_integrator:" + mode)

    def do_l_plasma(self, which):
        self.rec["laser"]["pl"] = which
        self._l().plasma = self.live.plasma_b if which == "b" else self.live.plasma
        self._mut("l_plasma:" + which)

    def pre_l_models(self):
        return True

    def do_l_models(self, n):
        if n == 0 and is_open("C01-laser-models-empty"):
            self.ctx.label("excluded_known:laser-models-empty")
            return
        self.rec["laser"]["models"] = n
        self._l().models = [SeldenMatobaThomsonSpectrum() for _ in range(n)]
        self._mut("l_models:%d" % n)

    def do_l_tf(self, a):
        dy, ry = a
        tf = {"t": [0.0, dy, -1.2], "rz": 0.0, "ry": ry}
        self.rec["laser"]["tf"] = tf
        self._l().transform = mk_tf(tf)
        self._mut("l_tf")

    def do_l_parent(self, which):
        self.rec["laser"]["parent"] = which
        self._l().parent = _parent(which, self.live.world, self.live.mid)
        self._mut("l_parent:" + which)

    OPS = dict(SceneBase.BASE_OPS)
    OPS.update({
        "l_profile_swap": _lprofile,
        "l_profile_swap_back": lambda: st.integers(0, 2),
        "l_spectrum_swap_back": lambda: st.integers(0, 2),
        "l_profile_set": lambda: st.tuples(st.sampled_from(sorted(_PROFILE_SETTERS)), st.integers(0, 5)),
        "l_polarization": lambda: _pol,
        "l_spectrum_swap": _lspectrum,
        "l_spectrum_set": lambda: st.tuples(st.sampled_from(sorted(_SPECTRUM_SETTERS)), st.integers(0, 5)),
        "l_reassign": lambda: st.sampled_from(["laser_profile", "laser_profile", "laser_spectrum", "plasma", "integrator", "models",
                                               "parent", "transform"]),
        "l_importance": lambda: st.sampled_from([1.0, 3.0, 0.5]),
        "l_integrator": lambda: st.tuples(st.sampled_from(["swap", "inplace"]), st.sampled_from([0.0078125, 0.015625, 0.03125])),
        "l_plasma": lambda: st.sampled_from(["a", "b"]),
        "l_models": lambda: st.sampled_from([0, 1, 1, 2]),
        "l_tf": lambda: st.tuples(st.sampled_from([0.0, 0.01, -0.02]), st.sampled_from([0.0, 1.0, -2.0])),
        "l_parent": lambda: st.sampled_from(["world", "mid", "world", "mid", "none"]),
    })


def _sandwich(cls):
    """Every mutator carries a flag 'observe right afterwards' (2 in 3): most mutators are then sandwiched between two
    observations, which is exactly the shape (cache filled -> one change -> read) a stale cache needs to show."""
    for name, strat in list(cls.OPS.items()):
        if name.startswith("observe"):
            continue
        cls.OPS[name] = (lambda strat=strat: st.tuples(strat(), st.sampled_from([False, True, True])))
        orig = getattr(cls, "do_" + name)

        def wrapped(self, a, orig=orig, name=name):
            arg, obs = a
            orig(self, arg)
            if obs:
                self._compare("observation %d, right after %s" % (self.n_obs + 1, name))
        setattr(cls, "do_" + name, wrapped)


# Themed histories.  With ~25 rules chosen uniformly, a defect that needs three particular mutators in a row (user Gaunt factor
# set, withdrawn, provider replaced) is met once in thousands of histories.  Half of the histories are therefore restricted to
# the rules of one theme - mutators acting on the same kind of derived state; the other half use every rule.
THEMES = {
    "provider": ("p_ad", "p_brems_gaunt", "p_brems_integrator", "p_models", "p_reassign", "p_comp_add", "b_ad", "b_cx_line", "b_bes_line", "b_models",
                 "b_reassign", "b_element", "b_plasma", "l_models", "l_plasma", "l_reassign", "l_spectrum_swap", "l_profile_swap"),
    "geometry": ("p_geom", "p_gt", "p_parent", "p_tf", "mid_tf", "p_integrator", "p_reassign", "b_tf", "b_parent", "b_length", "b_sigma",
                 "b_div", "b_att", "b_refused", "b_integrator", "b_reassign", "l_tf", "l_parent", "l_profile_set", "l_integrator", "l_reassign"),
    "profiles": ("p_b", "p_electrons", "p_comp", "p_ad", "b_energy", "b_power", "b_temperature", "b_att", "b_refused", "b_plasma", "l_polarization",
                 "l_importance", "l_spectrum_set", "l_plasma"),
}
# beam scenes only: the attenuator object's life (replaced, put back, reconfigured) between changes of what it depends on
THEMES["attenuator"] = ("b_att", "b_reassign", "b_energy", "b_power", "b_length", "b_sigma", "b_div", "b_tf", "b_plasma", "p_comp", "p_tf")
_theme = st.sampled_from([None, None, None, "provider", "geometry", "profiles"])


def _themed(cls):
    for name in list(cls.OPS):
        if name.startswith("observe"):
            continue
        orig = getattr(cls, "pre_" + name, None)

        def pre(self, name=name, orig=orig):
            th = self.rec.get("theme")
            if th is not None and not name.startswith(THEMES[th]):
                return False
            return orig(self) if orig is not None else True
        setattr(cls, "pre_" + name, pre)


for _cls in (PlasmaScene, BeamScene, LaserScene):
    _cls.OPS = dict(_cls.OPS)
    _sandwich(_cls)
    _themed(_cls)


SUBCHECKS = {
    "plasma": Machine(PlasmaScene, quick=100, thorough=4000, steps=(20, 25), params=plasma_params),
    "beam": Machine(BeamScene, quick=200, thorough=6000, steps=(20, 25), params=beam_params),
    "laser": Machine(LaserScene, quick=140, thorough=4000, steps=(20, 25), params=laser_params),
}
