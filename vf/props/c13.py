"""C13 - function wrappers and samplers are exact pointwise compositions everywhere (input property).

Every wrapper is given a *recording* Python callable.  What the callable received (the inner argument) is
compared with the mathematically mapped argument, and the wrapper's return value with the callable's own
value at the recorded argument.
"""
import math
import os
from fractions import Fraction

import numpy as np
from hypothesis import strategies as st

from ..core import Given, Enum
from ..findings import is_open

from raysect.core.math import Vector3D
import raysect.core.math.function.float as RF
import raysect.core.math.function.vector3d as RV
import cherab.core.math as M

ID = "C13"
SHARDS = {"quick": 8, "thorough": 16}

# Open findings (known_findings.json) whose input class is excluded by construction in the generators while open.
# VERIF_NO_EXCLUDE=<id>[,<id>] (or "all") switches an exclusion off by hand - used to confirm a proposed fix on a scratch
# copy before the entry is flipped to "fixed"; it can only make the check stricter.
_NOEX = set(filter(None, os.environ.get("VERIF_NO_EXCLUDE", "").split(",")))


def _excluded(fid):
    return is_open(fid) and not (fid in _NOEX or "all" in _NOEX)


EXCLUDE = _excluded("C13-remainder-returns-period")       # x < 0 with fl(fmod(x, p) + p) == p   (fixed in 4bec7b5)
EXCLUDE_DIAG = _excluded("C13-mask-hole-on-diagonal")      # points within rounding distance of a vertex-vertex chord
# raysect's triangulate2d finds no ear for some simple polygons whose non-adjacent vertices are (nearly) collinear - a rotated
# comb or zigzag - and PolygonMask2D cannot be built (same root cause as C17-ear-clipping-collinear); such cases are counted
EXCLUDE_EAR = _excluded("C13-ear-clipping-collinear")

RULE = ("Wrapped object = recording callable c3 + c0*asinh(x) + c1*asinh(y) + c2*asinh(z) (odd, strictly monotone, finite for "
        "every finite double; vectors use the three cyclic rotations of the coefficient row), coefficients drawn in the "
        "case, handed over as a callable object, a plain Python function or a raysect Function object (Constant + callable). "
        "Coordinates: all finite doubles (Hypothesis floats incl. subnormals and 1e308) mixed with +-0, +-5e-324, +-1e-20, "
        "0.1, 2.2, 1234.5678, +-1e39, +-1e-46 (not float32 values), +-1e15..1e300 and ordinary values. FORMS: call arguments and "
        "constructor values (slice value, clamp limits, periods, range ends) are passed as Python float / Python int / "
        "numpy.float64 / numpy.float32 scalars (the oracle uses the float64 value of what is passed); clamp limits "
        "positional, by keyword or omitted; Swizzle3D shapes as tuples of int or numpy ints; sampler points/axes and polygon "
        "vertices as list / tuple / ndarray float64, float32, int64, Fortran-ordered and strided views. "
        "Sub-checks: iso (IsoMapper2D/3D), swizzle (Swizzle2D; Swizzle3D: every case runs all 27 shapes, or all 8 invalid "
        "shapes), slice (Slice2D/3D: every case runs all int/str axis selectors of the class, or all 8 invalid ones; .axis/"
        ".value read back twice), clamp (ClampInput/ClampOutput 1D-3D, default/finite limits, inverted limits), cyl "
        "(AxisymmetricMapper, VectorAxisymmetricMapper, CylindricalTransform, VectorCylindricalTransform; y = +-0.0 with x < 0 "
        "generated on purpose), periodic ((Vector)PeriodicTransform1D-3D; x = k*period, its float neighbours, +-period*2^-e, "
        "subnormals, huge, any double; period 0 = axis not periodic; readable period attributes read back), mask "
        "(PolygonMask2D on star-shaped, convex, dart and U/zigzag/spiral/comb polygons, 3-16 vertices; polygons with <= 4 "
        "vertices are run from every starting vertex in both orientations inside one case, larger ones with a drawn "
        "rotation/orientation; probe points in the bounding box, beside vertices, beside edge mid-points and on chords), "
        "samplers (all 14 sample* functions, counts 1..5, 1-D up to 33). Wrapped VECTOR functions also come in two persistent-object flavours: "
        "a Python callable that returns one stored Vector3D on every call, and raysect's ConstantVector (returns its own stored "
        "object); after every evaluation the stored vector must still have its original components. "
        "NESTED: sub-check `nested` builds Outer(Inner(recorder)) for every ordered pair of wrapper "
        "classes whose dimensions fit (same class with other parameters - non-commuting swizzle shapes, overlapping clamps, "
        "other periods - or a different class; scalar and vector chains) and compares the innermost recorded argument and the "
        "value with the composition of the two mappings. "
        "CLAMP_SUBSETS (enumerated, not sampled): every subset of the optional bounds of the 6 clamp classes "
        "(4+16+64 input, 3x4 output, prefixes also positionally), all other bounds defaulted, at all 5^dim combinations of points "
        "below / on / inside / on / above each bound. "
        "RE-USE: every wrapper instance is evaluated twice in a row at each of 1-3 "
        "points and then again at the first point (value and inner argument must repeat bit for bit); every mask is evaluated "
        "forward, backward and twice in a row per point; every sampler is called twice (first result intact, equal, no shared "
        "memory). CALLER-OWNED: arrays / lists handed to samplers and PolygonMask2D are bit-identical afterwards and "
        "overwriting the vertex container after construction does not change the mask. "
        "Non-trivial: iso/swizzle/slice = pairwise distinct coordinates (so that any permutation is visible) or selectors that "
        "must be rejected; clamp = a coordinate/value outside or exactly on a limit, or rejected limits; cyl = point not in "
        "the open first quadrant (axis, branch cut y=+-0 & x<0, origin, other quadrants) or |coordinate| outside "
        "[1e-12, 1e15]; periodic = an argument that is negative, |x| < 1e-12*period, a non-zero exact multiple of the "
        "period, or |x| > 1e15; mask = concave polygon, clockwise orientation or rotated start vertex; samplers = a "
        "count of 1, pairwise different counts per axis, >= 2 scattered points, or a rejected range.")
ASSUMPTIONS = ["CPython's math.fmod/atan2/hypot/asinh and float + - are IEEE-754 double operations (same libm as the extension)",
               "a Python callable handed to a wrapper is invoked through raysect's autowrap with Python floats",
               "a Python int / numpy scalar argument means its exact float64 value; raysect Constant(0) + f evaluates to 0.0 + f(...)",
               "exact rational arithmetic of fractions.Fraction",
               "cyl: max(|x|,|y|) is 0 or within [1e-140, 1e150] - outside, sqrt(x*x+y*y) under/overflows (see notes/C13-hypot-range.py); "
               "coordinates are metres in every in-repo caller",
               "samplers: |range end| <= 8e307 so that max-min is finite (numpy.linspace limit)",
               "mask: probe points closer than 1e-9*size to a polygon edge are not judged; polygons have >= 3 non-coincident vertices"]
TOLERANCES = {
    "exact": "swizzle/slice/clamp/iso inner arguments, read-back attributes, all scalar return values, sampler entries: == (no tolerance)",
    "radius": "|r - hypot(x,y)| <= 4u*hypot, u=2^-53: sqrt(x*x+y*y) has 3 roundings under a square root (<= 2u), the hypot reference <= 1 ulp (<= 2u)",
    "angle": "|phi - math.atan2(y,x)| <= 2 ulp(phi) (two libm evaluations of the same function)",
    "rotation": "|v_got - Rz(phi) v| <= 1e-12*|v|: phi -> degrees -> radians -> sin/cos costs a few u*|phi| <= 1e-15, DESIGN asks 1e-12",
    "periodic": "x >= 0 or fmod(x,p) == 0: x - inner = k*p exactly (fmod is exact). x < 0: inner = fl(fmod(x,p) + p) (or 0 when that "
                "rounds to p), one rounding of a value < p, so |x - inner - k*p| <= ulp(p)/2. In both cases 0 <= inner < p is demanded strictly.",
    "linspace": "|x_i - (min + i*(max-min)/(n-1))| <= 4 ulp(max(|min|,|max|)) (delta, step, product, sum: 4 roundings of values <= 2*scale); "
                "end points exact",
}

_ONLY = set(filter(None, os.environ.get("VERIF_ONLY", "").split(",")))
_WRAP_SUBS = ["iso", "swizzle", "slice", "clamp", "cyl", "periodic"]
_NESTED_CLASSES = ["ClampInput1D", "ClampOutput1D", "PeriodicTransform1D", "Slice2D", "Swizzle2D", "ClampInput2D", "ClampOutput2D",
                   "IsoMapper2D", "PeriodicTransform2D", "Slice3D", "AxisymmetricMapper", "Swizzle3D", "ClampInput3D", "ClampOutput3D",
                   "IsoMapper3D", "CylindricalTransform", "PeriodicTransform3D", "VectorPeriodicTransform1D",
                   "VectorPeriodicTransform2D", "VectorPeriodicTransform3D", "VectorCylindricalTransform", "VectorAxisymmetricMapper"]
_SAMPLER_FNS = ["sample1d", "sample2d", "sample3d", "samplevector2d", "samplevector3d",
                "sample1d_points", "sample2d_points", "sample3d_points", "samplevector2d_points", "samplevector3d_points",
                "sample2d_grid", "sample3d_grid", "samplevector2d_grid", "samplevector3d_grid"]
REQUIRED_LABELS = [l for l in [
    # (e) every public class / function of the anchored files
    "iso:IsoMapper2D", "iso:IsoMapper3D",
    "swizzle:Swizzle2D", "swizzle:Swizzle3D", "swizzle:invalid", "swizzle:shape:int", "swizzle:shape:npint",
    "slice:Slice2D", "slice:Slice3D", "slice:invalid", "slice:str-axis", "slice:value-not-f32",
    "clamp:ClampInput1D", "clamp:ClampInput2D", "clamp:ClampInput3D", "clamp:ClampOutput1D", "clamp:ClampOutput2D", "clamp:ClampOutput3D",
    "clamp:in:clamped", "clamp:in:on-limit", "clamp:out:clamped", "clamp:invalid", "clamp:positional", "clamp:keyword", "clamp:default-limit",
    "clamp:limit-not-f32",
    "cyl:AxisymmetricMapper", "cyl:VectorAxisymmetricMapper", "cyl:CylindricalTransform", "cyl:VectorCylindricalTransform",
    "cyl:branch-cut", "cyl:origin", "cyl:on-axis",
    "cyl:VectorAxisymmetricMapper:y=+0,x<0", "cyl:VectorAxisymmetricMapper:y=-0,x<0",
    "cyl:VectorCylindricalTransform:y=+0,x<0", "cyl:VectorCylindricalTransform:y=-0,x<0",
    "cyl:CylindricalTransform:y=+0,x<0", "cyl:CylindricalTransform:y=-0,x<0",
    "periodic:P1", "periodic:P2", "periodic:P3", "periodic:VP1", "periodic:VP2", "periodic:VP3",
    "periodic:negative", "periodic:exact-multiple", "periodic:tiny", "periodic:huge", "periodic:period0", "periodic:invalid",
    "periodic:period-not-f32", "periodic:attr-read",
    "mask:concave", "mask:convex", "mask:cw", "mask:ccw", "mask:inside", "mask:outside", "mask:n=3", "mask:n=4", "mask:dart",
    "mask:allrot", "mask:form:list", "mask:form:tuple", "mask:form:ndarray", "mask:form:f32", "mask:form:int",
    "mask:form:strided", "mask:caller-mutates",
    "samplers:n=1", "samplers:n=2", "samplers:non-cubic", "samplers:nx!=nz", "samplers:invalid",
    "samplers:form:list", "samplers:form:tuple", "samplers:form:ndarray", "samplers:form:f32", "samplers:form:int",
    "samplers:form:fortran", "samplers:form:strided", "samplers:range:int", "samplers:range:np32",
    # persistent-object flavour of wrapped vector functions (one stored Vector3D handed out on every call)
    "cyl:wf:stored", "cyl:wf:const", "periodic:wf:stored", "periodic:wf:const", "samplers:wf:stored", "samplers:wf:const",
    "periodic:persistent", "samplers:persistent",
    # every subset of the optional clamp bounds (enumerated)
    "clamp_subsets:ClampInput2D:1-of-4-bounds", "clamp_subsets:ClampInput2D:2-of-4-bounds", "clamp_subsets:ClampInput3D:1-of-6-bounds",
    "clamp_subsets:ClampInput1D:1-of-2-bounds", "clamp_subsets:ClampOutput3D:1-of-2-bounds", "clamp_subsets:ClampInput3D:0-of-6-bounds",
    "clamp_subsets:positional", "clamp_subsets:keyword", "clamp_subsets:out:below-inside-above",
    "clamp_subsets:ClampInput1D", "clamp_subsets:ClampInput2D", "clamp_subsets:ClampInput3D", "clamp_subsets:ClampOutput1D", "clamp_subsets:ClampOutput2D", "clamp_subsets:ClampOutput3D",
    # wrappers wrapping wrappers
    "nested:same-class", "nested:mixed", "nested:swizzle-noncommuting", "nested:reuse",
    "cyl:VectorCylindricalTransform:persistent:phi!=0-twice", "cyl:VectorAxisymmetricMapper:persistent:phi!=0-twice",
] + ["samplers:" + f for f in _SAMPLER_FNS]
  + ["nested:%s:%s" % (r, c) for r in ("outer", "inner") for c in _NESTED_CLASSES]
  + ["%s:%s" % (s, k) for s in _WRAP_SUBS for k in ("af:int", "af:np32", "af:np64", "af:float", "wf:object", "wf:function", "wf:raysect", "reuse")]
  + ["%s:%s" % (s, k) for s in ("slice", "clamp", "periodic") for k in ("cf:int", "cf:np32", "cf:np64", "cf:float")]
    if not _ONLY or l.split(":")[0] in _ONLY]

U = 2.0 ** -53

# ------------------------------------------------------------------------------------------------ strategies
_NOT_F32 = [0.1, -0.1, 2.2, -2.2, 1234.5678, -1234.5678, 1e39, -1e39, 1e-46, -1e-46]
_SPECIAL = [0.0, -0.0, 5e-324, -5e-324, 2.2250738585072014e-308, -2.2250738585072014e-308, 1e-300, -1e-300,
            1e-20, -1e-20, 1e-12, -1e-12, 1.0, -1.0, 0.5, -0.5, 3.0, 0.01, 1e15, -1e15, 9007199254740993.0, 1e16, -1e16,
            1e150, -1e150, 1e300, -1e300, 1.7976931348623157e308, -1.7976931348623157e308] + _NOT_F32


def coord():
    return st.one_of(st.floats(allow_nan=False, allow_infinity=False, width=64),
                     st.sampled_from(_SPECIAL),
                     st.sampled_from(_NOT_F32),
                     st.floats(-10.0, 10.0),
                     st.floats(-10.0, 10.0).map(lambda v: float(round(v))))


def coeffs():
    return st.tuples(st.floats(0.5, 2.0), st.floats(5.0, 20.0), st.floats(50.0, 200.0), st.floats(-1.0, 1.0)).map(list)


def points(dim, lo=1, hi=3, c=None):
    return st.lists(st.lists(c or coord(), min_size=dim, max_size=dim), min_size=lo, max_size=hi)


_SFORMS = ["float", "float", "int", "np64", "np32"]


def forms():
    """af: form of the call arguments, cf: form of constructor values, wf: form of the wrapped function."""
    return st.fixed_dictionaries({"af": st.sampled_from(_SFORMS), "cf": st.sampled_from(_SFORMS),
                                  "wf": st.sampled_from(["object", "object", "function", "raysect", "stored", "const"])})


def _with(case, fm):
    case.update(fm)
    return case


def canon(form, v):
    """(object to pass, its exact float64 value) for scalar form `form`; falls back to the Python float when the form
    cannot hold the value (int beyond 2^53, float32 overflow)."""
    v = float(v)
    if form == "int" and abs(v) < 2.0 ** 53:
        i = int(v)
        return i, float(i)
    if form == "np32" and abs(v) <= 3.4028234663852886e38:
        w = np.float32(v)
        return w, float(w)
    if form == "np64":
        return np.float64(v), v
    return v, v


def _is_f32(v):
    """v is exactly representable as a float32."""
    return abs(v) <= 3.4028234663852886e38 and float(np.float32(v)) == v


# ------------------------------------------------------------------------------------------------ recording callables
def sval(co, args, rot=0):
    s = co[3]
    n = len(args)
    for i in range(n):
        s += co[(i + rot) % 3] * math.asinh(args[i])
    return s


def vval(co, args):
    return (sval(co, args, 0), sval(co, args, 1) + 0.25, sval(co, args, 2) - 0.5)


class Rec:
    """Scalar recording callable."""
    records = True
    flavour = "fresh"

    def __init__(self, co, rot=0):
        self.co, self.rot, self.calls = co, rot, []

    def __call__(self, *a):
        self.calls.append(a)
        return sval(self.co, a, self.rot)

    def value(self, a):
        return sval(self.co, a, self.rot)


class VRec:
    """Vector recording callable.  Flavour "fresh": a new Vector3D per call, depending on the arguments.  Persistent
    flavours: "stored" = the callable returns one stored Vector3D object on every call (raysect hands it through unchanged),
    "const" = raysect's ConstantVector (returns its own stored object, records nothing)."""
    records = True

    def __init__(self, co, flavour="fresh"):
        self.co, self.calls, self.flavour = co, [], flavour
        self.orig = vval(co, (0.3, -0.7, 1.1))
        self.vec = Vector3D(*self.orig)
        self.records = flavour != "const"

    def __call__(self, *a):
        self.calls.append(a)
        if self.flavour == "fresh":
            return Vector3D(*vval(self.co, a))
        return self.vec

    def value(self, a):
        return vval(self.co, a) if self.flavour == "fresh" else self.orig


def vrec(case):
    wf = case.get("wf", "object")
    return VRec(case["f"], wf if wf in ("stored", "const") else "fresh")


def wrapped(ctx, form, rec, dim):
    """The object handed to the code under test for recorder `rec`."""
    if form in ("stored", "const") and not isinstance(rec, VRec):
        form = "object"             # scalars are immutable Python floats: no persistent-object flavour
    ctx.label("wf:" + form)
    if form == "const":
        return getattr(RV, "Constant%dD" % dim)(Vector3D(*rec.orig))
    if form == "stored":
        return rec
    if form == "function":
        if dim == 1:
            def fn(x):
                return rec(x)
        elif dim == 2:
            def fn(x, y):
                return rec(x, y)
        else:
            def fn(x, y, z):
                return rec(x, y, z)
        return fn
    if form == "raysect":
        if isinstance(rec, VRec):
            return getattr(RV, "Constant%dD" % dim)(Vector3D(0, 0, 0)) + rec
        return getattr(RF, "Constant%dD" % dim)(0.0) + rec
    return rec


def _fl(seq):
    return [float(v) for v in seq]


def _distinct(vals):
    return len(set(vals)) == len(vals)


def _one_call(ctx, rec, what):
    """The wrapped callable has been called; all recorded calls carry the same argument. Returns it."""
    ctx.check(len(rec.calls) >= 1, what, "the wrapped callable was never called")
    a = rec.calls[0]
    for b in rec.calls[1:]:
        ctx.check(b == a, what, lambda: "wrapped callable called with different arguments %r and %r" % (a, b))
    return a


def _expect_args(ctx, got, want, what, info):
    ctx.check(len(got) == len(want) and all(type(g) is float for g in got) and all(g == w for g, w in zip(got, want)), what,
              lambda: "inner argument %r, expected exactly %r (%s)" % (got, tuple(want), info))


def _vec(v):
    return (v.x, v.y, v.z)


def _val(v):
    return _vec(v) if isinstance(v, Vector3D) else v


def _intact(ctx, f, fo, what):
    """A persistent wrapped vector function still returns its original value (the stored Vector3D is unchanged)."""
    if f.flavour == "stored":
        now = _vec(f.vec)
    elif f.flavour == "const":
        now = _vec(fo(*([0.5] * _ndim(fo))))
    else:
        return
    ctx.check(now == f.orig, "wrapped-function-intact",
              lambda: "%s: the wrapped function returned %r before the wrapper was evaluated, now it returns %r "
                      "(the wrapper modified the Vector3D object owned by the wrapped function)" % (what, f.orig, now))


def _ndim(fo):
    n = type(fo).__name__
    return int(n[-2]) if n[-1] == "D" and n[-2].isdigit() else 3


def _copy(v):
    return Vector3D(v.x, v.y, v.z) if isinstance(v, Vector3D) else v


def _eval(ctx, w, f, p_raw, af, fo=None):
    """Call w at the point given in form `af`, twice in a row (relation 'repeat'); returns (float64 point, result
    [a copy if it is a vector], recorded inner argument or None for a non-recording function, passed objects)."""
    pairs = [canon(af, v) for v in p_raw]
    objs = [o for o, _ in pairs]
    p = [c for _, c in pairs]
    f.calls.clear()
    with ctx.cut("call"):
        got = _copy(w(*objs))
    a = _one_call(ctx, f, "inner") if f.records else None
    _intact(ctx, f, fo, "after %r" % (p,))
    f.calls.clear()
    with ctx.cut("call-repeat"):
        got2 = _copy(w(*objs))
    a2 = _one_call(ctx, f, "repeat") if f.records else None
    ctx.check(_val(got2) == _val(got) and a2 == a, "repeat",
              lambda: "at %r: first call gave %r (inner %r), the immediate second call %r (inner %r)" % (p, _val(got), a, _val(got2), a2))
    _intact(ctx, f, fo, "after two calls at %r" % (p,))
    return p, got, a, objs


def _again(ctx, w, f, first, name, fo=None):
    """(c) the instance evaluated once more at its first point: same value, same inner argument, bit for bit."""
    if first is None:
        return
    p, got, a, objs = first
    f.calls.clear()
    with ctx.cut("call-again"):
        got2 = _copy(w(*objs))
    a2 = _one_call(ctx, f, "reuse") if f.records else None
    ctx.label("reuse")
    ctx.check(_val(got2) == _val(got) and a2 == a, "reuse",
              lambda: "%s at %r: first call gave %r (inner %r), the same call after other points gives %r (inner %r)"
                      % (name, p, _val(got), a, _val(got2), a2))
    _intact(ctx, f, fo, "%s after re-evaluation at %r" % (name, p))


def _attr_fn(ctx, w, attr, fobj, form):
    """readonly function attribute: the very object for a raysect Function, a callable otherwise."""
    with ctx.cut("attribute"):
        g = getattr(w, attr)
    if form == "raysect":
        ctx.check(g is fobj, "attribute", lambda: ".%s is %r, not the Function object passed in" % (attr, g))
    else:
        ctx.check(callable(g), "attribute", lambda: ".%s is %r" % (attr, g))


# ================================================================================================ iso
def iso_strategy():
    return st.one_of(
        st.builds(lambda p, f, g, fm: _with({"cls": "IsoMapper2D", "pts": p, "f": f, "g": g}, fm), points(2), coeffs(), coeffs(), forms()),
        st.builds(lambda p, f, g, fm: _with({"cls": "IsoMapper3D", "pts": p, "f": f, "g": g}, fm), points(3), coeffs(), coeffs(), forms()))


def run_iso(case, ctx):
    cls = case["cls"]
    af, wf = case.get("af", "float"), case.get("wf", "object")
    ctx.label(cls, "af:" + af)
    dim = int(cls[-2])
    f, g = Rec(case["f"]), Rec(case["g"], rot=1)
    fo, go = wrapped(ctx, wf, f, dim), wrapped(ctx, wf, g, 1)
    with ctx.cut("construct"):
        w = getattr(M, cls)(fo, go)
    _attr_fn(ctx, w, "function%dd" % dim, fo, wf)
    _attr_fn(ctx, w, "function1d", go, wf)
    first = None
    for p_raw in case["pts"]:
        g.calls.clear()
        p, got, fa, objs = _eval(ctx, w, f, p_raw, af)
        _expect_args(ctx, fa, p, "inner-field", cls)
        ga = _one_call(ctx, g, "inner-1d")
        _expect_args(ctx, ga, [f.value(tuple(p))], "inner-1d", "g must receive f(%r)" % (p,))
        want = g.value((f.value(tuple(p)),))
        ctx.check(got == want, "value", lambda: "%s%r = %r, g(f(x)) = %r" % (cls, tuple(p), got, want))
        ctx.nt(_distinct(p))
        first = first or (p, got, fa, objs)
    _again(ctx, w, f, first, cls)


# ================================================================================================ swizzle
_SHAPES3 = [[a, b, c] for a in range(3) for b in range(3) for c in range(3)]
_BAD_SHAPES = [{"shape": [0, 1, 3], "as": "tuple"}, {"shape": [-1, 0, 1], "as": "tuple"}, {"shape": [0, 1], "as": "tuple"},
               {"shape": [0, 1, 2, 0], "as": "tuple"}, {"shape": [0, 1, 2], "as": "list"}, {"shape": [3, 3, 3], "as": "tuple"},
               {"shape": [0, 7, 2], "as": "list"}, {"shape": [], "as": "tuple"}]


def swizzle_strategy():
    sf = st.sampled_from(["int", "npint"])
    return st.one_of(
        st.builds(lambda p, f, fm: _with({"cls": "Swizzle2D", "pts": p, "f": f}, fm), points(2), coeffs(), forms()),
        st.builds(lambda p, f, fm, s: _with({"cls": "Swizzle3D", "pts": p, "f": f, "sf": s}, fm), points(3, 1, 2), coeffs(), forms(), sf),
        st.builds(lambda p, f, fm, s: _with({"cls": "Swizzle3D", "pts": p, "f": f, "sf": s}, fm), points(3, 1, 2), coeffs(), forms(), sf),
        st.builds(lambda p, f: {"cls": "Swizzle3D", "pts": p, "f": f, "bad": True}, points(3, 1, 1), coeffs()))


def run_swizzle(case, ctx):
    """Swizzle3D: every case runs all 27 shapes (or all invalid selectors)."""
    cls = case["cls"]
    af, wf, sf = case.get("af", "float"), case.get("wf", "object"), case.get("sf", "int")
    f = Rec(case["f"])
    if case.get("bad"):
        ctx.label("invalid")
        ctx.nt()
        for b in _BAD_SHAPES:
            shape = tuple(b["shape"]) if b["as"] == "tuple" else list(b["shape"])
            ctx.raises((ValueError, TypeError), "invalid-shape", M.Swizzle3D, f, shape)
        return
    ctx.label(cls, "af:" + af)
    dim = int(cls[-2])
    fo = wrapped(ctx, wf, f, dim)
    if cls == "Swizzle3D":
        ctx.label("shape:" + sf)
    shapes = [[1, 0]] if cls == "Swizzle2D" else _SHAPES3
    for n_shape, shape in enumerate(shapes):
        if sf == "npint":
            shp = tuple([np.int64, np.int32, np.intp][k](i) for k, i in enumerate(shape))
        else:
            shp = tuple(shape)
        with ctx.cut("construct"):
            w = M.Swizzle2D(fo) if cls == "Swizzle2D" else M.Swizzle3D(fo, shp)
        ctx.check(cls == "Swizzle2D" or (shp == tuple(shape) and len(shp) == 3), "caller-owned", "shape tuple changed")
        if n_shape == 0:
            _attr_fn(ctx, w, "function%dd" % dim, fo, wf)
        first = None
        for p_raw in case["pts"]:
            p, got, fa, objs = _eval(ctx, w, f, p_raw, af)
            want_args = [p[i] for i in shape]
            _expect_args(ctx, fa, want_args, "inner", "%s shape %r at %r" % (cls, shape, p))
            want = f.value(tuple(want_args))
            ctx.check(got == want, "value", lambda: "%s shape %r at %r = %r, expected %r" % (cls, shape, p, got, want))
            ctx.nt(_distinct(p))
            first = first or (p, got, fa, objs)
        _again(ctx, w, f, first, "%s%r" % (cls, shape))


# ================================================================================================ slice
_AX2 = [0, 1, "x", "y", "X", "Y"]
_AX3 = [0, 1, 2, "x", "y", "z", "X", "Y", "Z"]
_BAD_AX2 = [2, -1, 3, "z", "w", "", "xy", "0"]
_BAD_AX3 = [3, -1, 7, "w", "", "xyz", "r", "2"]


def slice_strategy():
    return st.one_of(
        st.builds(lambda p, f, v, bad, fm: _with({"cls": "Slice2D", "pts": p, "f": f, "value": v, "bad": bad}, fm),
                  points(1), coeffs(), coord(), st.integers(0, 7).map(lambda i: i == 0), forms()),
        st.builds(lambda p, f, v, bad, fm: _with({"cls": "Slice3D", "pts": p, "f": f, "value": v, "bad": bad}, fm),
                  points(2), coeffs(), coord(), st.integers(0, 7).map(lambda i: i == 0), forms()))


def run_slice(case, ctx):
    """Every case runs all valid axis selectors of the class (or all invalid ones)."""
    cls = case["cls"]
    af, cf, wf = case.get("af", "float"), case.get("cf", "float"), case.get("wf", "object")
    vobj, value = canon(cf, case["value"])
    f = Rec(case["f"])
    if case.get("bad"):
        ctx.label("invalid")
        ctx.nt()
        for axis in (_BAD_AX2 if cls == "Slice2D" else _BAD_AX3):
            ctx.raises((ValueError,), "invalid-axis", getattr(M, cls), f, axis, value)
        return
    ctx.label(cls, "af:" + af, "cf:" + cf)
    if not _is_f32(value):
        ctx.label("value-not-f32")
    dim = 2 if cls == "Slice2D" else 3
    fo = wrapped(ctx, wf, f, dim)
    for axis in (_AX2 if cls == "Slice2D" else _AX3):
        if isinstance(axis, str):
            ctx.label("str-axis")
            ax = {"x": 0, "y": 1, "z": 2}[axis.lower()]
        else:
            ax = int(axis)
        with ctx.cut("construct"):
            w = getattr(M, cls)(fo, axis, vobj)
        for _ in range(2):      # getters read twice
            with ctx.cut("attribute"):
                rv, ra = w.value, w.axis
            ctx.check(type(rv) is float and rv == value and ra == ax, "attribute",
                      lambda: "%s(f, %r, %r): .value = %r, .axis = %r" % (cls, axis, vobj, rv, ra))
        first = None
        for p_raw in case["pts"]:
            p, got, fa, objs = _eval(ctx, w, f, p_raw, af)
            want_args = list(p)
            want_args.insert(ax, value)
            _expect_args(ctx, fa, want_args, "inner", "%s axis %r value %r at %r" % (cls, axis, value, p))
            want = f.value(tuple(want_args))
            ctx.check(got == want, "value", lambda: "%s axis %r value %r at %r = %r, expected %r" % (cls, axis, value, p, got, want))
            ctx.nt(_distinct(want_args))
            first = first or (p, got, fa, objs)
        _again(ctx, w, f, first, "%s axis %r" % (cls, axis))
        ctx.check(w.value == value and w.axis == ax, "attribute", "attributes changed by evaluation")


# ================================================================================================ clamp
def _limits(dim):
    """per axis [lo, hi] with None = not passed (default -inf/+inf); built so that lo < hi."""
    def mk(a, b, kind):
        lo, hi = (a, b) if a < b else (b, a)
        if lo == hi:
            hi = lo + max(abs(lo), 1.0)
        if not math.isfinite(hi):
            lo, hi = -1.0, 1.0
        return {"both": [lo, hi], "lo": [lo, None], "hi": [None, hi], "none": [None, None]}[kind]
    one = st.builds(mk, coord(), coord(), st.sampled_from(["both", "both", "both", "both", "lo", "hi", "none"]))
    return st.lists(one, min_size=dim, max_size=dim)


def _canon_lims(cf, lims):
    """Limits in constructor form cf -> (objects, float64 values); an axis whose limits collapse in that form stays float."""
    objs, vals = [], []
    for lo, hi in lims:
        ol, vl = (None, None) if lo is None else canon(cf, lo)
        oh, vh = (None, None) if hi is None else canon(cf, hi)
        if vl is not None and vh is not None and not vl < vh and float(lo) < float(hi):
            ol, vl, oh, vh = float(lo), float(lo), float(hi), float(hi)
        objs.append([ol, oh])
        vals.append([vl, vh])
    return objs, vals


@st.composite
def clamp_strategy(draw):
    dim = draw(st.integers(1, 3))
    kind = draw(st.sampled_from(["in", "in", "out", "invalid"]))
    co = draw(coeffs())
    fm = draw(forms())
    if kind == "invalid":
        io = draw(st.sampled_from(["in", "out"]))
        a = draw(coord())
        b = draw(st.one_of(st.just(a), coord()))
        lo, hi = (a, b) if a >= b else (b, a)         # lo >= hi: must be rejected
        n_ax = dim if io == "in" else 1
        lims = [[-1.0, 1.0] for _ in range(n_ax)]
        lims[draw(st.integers(0, n_ax - 1))] = [lo, hi]
        return _with({"kind": "invalid", "io": io, "dim": dim, "f": co, "lims": lims, "pos": draw(st.booleans())}, fm)
    pos = draw(st.booleans())
    if kind == "in":
        lims = draw(_limits(dim))
        _, clims = _canon_lims(fm["cf"], lims)
        pts = []
        for _ in range(draw(st.integers(1, 3))):
            p = []
            for ax in range(dim):
                fin = [v for v in clims[ax] if v is not None]
                if fin and draw(st.integers(0, 3)) == 0:
                    b = draw(st.sampled_from(fin))           # exactly on a limit or its float neighbours
                    p.append(draw(st.sampled_from([b, math.nextafter(b, math.inf), math.nextafter(b, -math.inf)])))
                elif len(fin) == 2 and draw(st.booleans()):
                    t = draw(st.floats(0.0, 1.0))
                    v = fin[0] + t * (fin[1] - fin[0])
                    p.append(v if math.isfinite(v) else fin[0])
                else:
                    p.append(draw(coord()))
            pts.append(p)
        return _with({"kind": "in", "dim": dim, "f": co, "lims": lims, "pts": pts, "pos": pos}, fm)
    # output clamp: limits in the value range of the recording function (|value| <= ~1e6)
    lv = st.one_of(st.floats(-1e3, 1e3), st.sampled_from([0.0, 0.1, -0.1, 2.2, -2.2, 1234.5678, -1234.5678, 1.0, -1.0]))
    a, b = draw(lv), draw(lv)
    lo, hi = (a, b) if a < b else (b, a)
    if lo == hi:
        hi = lo + 1.0
    lim = draw(st.sampled_from([[lo, hi], [lo, hi], [lo, None], [None, hi], [None, None]]))
    return _with({"kind": "out", "dim": dim, "f": co, "lims": [lim], "pts": draw(points(dim)), "pos": pos}, fm)


_IN_NAMES = [("xmin", "xmax"), ("ymin", "ymax"), ("zmin", "zmax")]


def _clamp_args(ctx, objs, names, pos):
    """positional arguments as far as the limits are given without a gap (when pos), the rest by keyword."""
    flat = [(n, o) for (ol, oh), (nl, nh) in zip(objs, names) for n, o in ((nl, ol), (nh, oh))]
    args, kw = [], {}
    lead = True
    for n, o in flat:
        if o is None:
            lead = False
            ctx.label("default-limit")
            continue
        if pos and lead:
            args.append(o)
            ctx.label("positional")
        else:
            kw[n] = o
            ctx.label("keyword")
    return args, kw


def _clampv(v, lo, hi):
    if lo is not None and v < lo:
        return lo
    if hi is not None and v > hi:
        return hi
    return v


def run_clamp(case, ctx):
    dim, kind = int(case["dim"]), case["kind"]
    af, cf, wf = case.get("af", "float"), case.get("cf", "float"), case.get("wf", "object")
    pos = bool(case.get("pos"))
    f = Rec(case["f"])
    objs, lims = _canon_lims(cf, case["lims"])
    io = case["io"] if kind == "invalid" else kind
    name = ("ClampInput%dD" if io == "in" else "ClampOutput%dD") % dim
    names = _IN_NAMES if io == "in" else [("min", "max")]
    if kind == "invalid":
        ctx.label("invalid")
        ctx.nt()
        args, kw = _clamp_args(ctx, objs, names, pos)
        ctx.raises((ValueError,), "invalid-limits", lambda: getattr(M, name)(f, *args, **kw))
        return
    ctx.label(name, "af:" + af, "cf:" + cf)
    if any(v is not None and not _is_f32(v) for l in lims for v in l):
        ctx.label("limit-not-f32")
    fo = wrapped(ctx, wf, f, dim)
    args, kw = _clamp_args(ctx, objs, names, pos)
    with ctx.cut("construct"):
        w = getattr(M, name)(fo, *args, **kw)
    first = None
    for p_raw in case["pts"]:
        p, got, fa, pobjs = _eval(ctx, w, f, p_raw, af)
        if kind == "in":
            want_args = [_clampv(p[i], lims[i][0], lims[i][1]) for i in range(dim)]
            _expect_args(ctx, fa, want_args, "inner", "%s %r %r at %r" % (name, args, kw, p))
            want = f.value(tuple(want_args))
            clamped = any(w_ != v for w_, v in zip(want_args, p))
            on = any(v in [b for b in lims[i] if b is not None] for i, v in enumerate(p))
            if clamped:
                ctx.label("in:clamped")
            if on:
                ctx.label("in:on-limit")
            ctx.nt(clamped or on)
        else:
            _expect_args(ctx, fa, p, "inner", "%s %r %r at %r" % (name, args, kw, p))
            raw = f.value(tuple(p))
            want = _clampv(raw, lims[0][0], lims[0][1])
            if want != raw:
                ctx.label("out:clamped")
            ctx.nt(want != raw)
        ctx.check(got == want, "value", lambda: "%s %r %r at %r = %r, expected %r" % (name, args, kw, p, got, want))
        first = first or (p, got, fa, pobjs)
    _again(ctx, w, f, first, name)


# ================================================================================================ cyl
R_LO, R_HI = 1e-140, 1e150


def _xy():
    c = st.one_of(st.floats(-R_HI, R_HI), st.sampled_from([v for v in _SPECIAL if abs(v) <= R_HI]),
                  st.floats(-10.0, 10.0), st.floats(-10.0, 10.0).map(lambda v: float(round(v))))

    def fix(x, y, fb):
        m = max(abs(x), abs(y))
        if 0.0 < m < R_LO:          # below the range where x*x+y*y is a normal number: lift the larger one
            if abs(x) >= abs(y):
                x = math.copysign(fb, x)
            else:
                y = math.copysign(fb, y)
        return [x, y]
    general = st.builds(fix, c, c, st.floats(R_LO, 1.0))
    # the branch cut of atan2 and the axes, on purpose: y = +-0.0 with x < 0, x = +-0.0, the origin with all four zero signs
    neg = st.one_of(st.floats(-R_HI, -R_LO), st.sampled_from([-1.0, -0.1, -2.2, -1e-140, -1e150, -3.0]), st.floats(-10.0, -0.01))
    zero = st.sampled_from([0.0, -0.0])
    cut = st.builds(lambda x, y: [x, y], neg, zero)
    yaxis = st.builds(lambda x, y, s: [x, s * y], zero, neg, st.sampled_from([-1.0, 1.0]))
    origin = st.builds(lambda x, y: [x, y], zero, zero)
    return st.one_of(general, general, general, cut, yaxis, origin)


def cyl_strategy():
    pt = st.builds(lambda xy, z: xy + [z], _xy(), coord())
    return st.builds(lambda c, p, f, fm: _with({"cls": c, "pts": p, "f": f}, fm),
                     st.sampled_from(["AxisymmetricMapper", "VectorAxisymmetricMapper", "CylindricalTransform", "VectorCylindricalTransform"]),
                     st.lists(pt, min_size=1, max_size=3), coeffs(), forms())


def _rotz(v, phi):
    c, s = math.cos(phi), math.sin(phi)
    return (v[0] * c - v[1] * s, v[0] * s + v[1] * c, v[2])


def run_cyl(case, ctx):
    cls = case["cls"]
    af, wf = case.get("af", "float"), case.get("wf", "object")
    ctx.label(cls, "af:" + af)
    vector = cls.startswith("Vector")
    three = "Cylindrical" in cls
    f = vrec(case) if vector else Rec(case["f"])
    fo = wrapped(ctx, wf, f, 3 if three else 2)
    with ctx.cut("construct"):
        w = getattr(M, cls)(fo)
    _attr_fn(ctx, w, "function3d" if three else "function2d", fo, "raysect" if wf == "const" and vector else wf)
    n_rot = 0
    first = None
    for p_raw in case["pts"]:
        p_raw = _fl(p_raw)
        if af == "int":
            # an int cannot carry the sign of zero and truncation must not leave the accurate range of sqrt(x*x+y*y)
            pairs = [(v, v) if (v == 0 or abs(v) < 1.0) else canon("int", v) for v in p_raw]
            objs = [o for o, _ in pairs]
            p = [c for _, c in pairs]
            f.calls.clear()
            with ctx.cut("call"):
                got = _copy(w(*objs))
            a = _one_call(ctx, f, "inner") if f.records else None
            _intact(ctx, f, fo, "after %r" % (p,))
        else:
            p, got, a, objs = _eval(ctx, w, f, p_raw, af, fo)
        x, y, z = p
        if 0.0 < max(abs(x), abs(y)) < R_LO:      # float32 flush of a tiny value: outside the accurate range, not judged
            ctx.label("out-of-range-after-form")
            continue
        r_ref = math.hypot(x, y)
        phi_ref = math.atan2(y, x)
        if a is not None:
            ctx.check(len(a) == (3 if three else 2), "inner", lambda: "inner called with %r" % (a,))
            ctx.check(abs(a[0] - r_ref) <= 4 * U * r_ref, "inner-radius",
                      lambda: "%s(%r,%r,%r): inner r = %r, hypot = %r" % (cls, x, y, z, a[0], r_ref))
            ctx.check(a[-1] == z, "inner-z", lambda: "%s(%r,%r,%r): inner z = %r" % (cls, x, y, z, a[-1]))
            if three:
                ctx.check(abs(a[1] - phi_ref) <= 2 * math.ulp(phi_ref), "inner-angle",
                          lambda: "%s(%r,%r,%r): inner phi = %r, atan2 = %r" % (cls, x, y, z, a[1], phi_ref))
        if vector and f.flavour != "fresh" and phi_ref != 0:
            n_rot += 1
            if n_rot >= 2:
                ctx.label("%s:persistent:phi!=0-twice" % cls)
        if vector:
            v = f.value(a)
            want = _rotz(v, phi_ref)
            nrm = math.sqrt(v[0] ** 2 + v[1] ** 2 + v[2] ** 2)
            ctx.close(_vec(got), want, "vector", rtol=0.0, atol=1e-12 * nrm,
                      info="%s(%r,%r,%r) inner value %r phi %r" % (cls, x, y, z, v, phi_ref))
        else:
            want = f.value(a)
            ctx.check(got == want, "value", lambda: "%s(%r,%r,%r) = %r, f(inner) = %r" % (cls, x, y, z, got, want))
        # classes
        origin = x == 0 and y == 0
        cut = y == 0 and x < 0
        axis = (x == 0) != (y == 0)
        if origin:
            ctx.label("origin")
        if cut:
            ctx.label("branch-cut", "%s:y=%s0,x<0" % (cls, "-" if math.copysign(1.0, y) < 0 else "+"))
        if axis:
            ctx.label("on-axis")
        big = any(v != 0 and not (1e-12 <= abs(v) <= 1e15) for v in (x, y, z))
        if big:
            ctx.label("tiny-or-huge")
        ctx.nt(origin or axis or not (x > 0 and y > 0) or big)
        first = first or (p, got, a, objs)
    _again(ctx, w, f, first, cls, fo)


# ================================================================================================ periodic
_PERIODS = [1.0, 2 * math.pi, 360.0, 0.1, 0.75, 2.0, 1e-3, 1e3, 3.0, 5e-324, 2.2250738585072014e-308, 1e-300, 1e300,
            1.7976931348623157e308, 1 / 3, 2.2, 1234.5678, 1e39, 1e-46, 0.01]


def _period():
    return st.one_of(st.sampled_from(_PERIODS), st.floats(min_value=5e-324, max_value=1.7976931348623157e308),
                     st.floats(1e-3, 1e3))


def _canon_period(cf, p):
    """period in constructor form (positive periods stay positive: a form that would round it to 0 is not used)."""
    o, v = canon(cf, p)
    if p > 0 and not v > 0:
        return float(p), float(p)
    return o, v


def in_defect_class(x, p):
    """x < 0 whose float remainder r = fmod(x, p) is so small that fl(r + p) == p (finding C13-remainder-returns-period)."""
    if p <= 0:
        return False
    r = math.fmod(x, p)
    return r < 0 and r + p >= p


@st.composite
def _px(draw, p):
    """An argument for an axis of period p."""
    if p == 0:
        return draw(coord())
    kind = draw(st.sampled_from(["any", "any", "mult", "mult_nb", "tiny", "sub", "huge", "frac"]))
    if kind == "any":
        return draw(coord())
    if kind in ("mult", "mult_nb"):
        k = draw(st.one_of(st.integers(-8, 8), st.integers(-2 ** 20, 2 ** 20), st.integers(-2 ** 52, 2 ** 52)))
        x = k * p
        if not math.isfinite(x):
            x = math.copysign(p, k)
        if kind == "mult_nb":
            x = math.nextafter(x, draw(st.sampled_from([-math.inf, math.inf])))
            if not math.isfinite(x):
                x = p
        return x
    if kind == "tiny":
        return draw(st.sampled_from([-1.0, 1.0])) * p * 2.0 ** -draw(st.integers(30, 1080))
    if kind == "sub":
        return draw(st.sampled_from([-1.0, 1.0])) * 5e-324 * draw(st.integers(1, 4))
    if kind == "huge":
        return draw(st.sampled_from([-1.0, 1.0])) * draw(st.floats(1e15, 1.7976931348623157e308))
    v = draw(st.sampled_from([-1.0, 1.0])) * draw(st.floats(0.0, 4.0)) * p
    return v if math.isfinite(v) else p


@st.composite
def periodic_strategy(draw):
    cls = draw(st.sampled_from(["P1", "P2", "P3", "VP1", "VP2", "VP3"]))
    dim = int(cls[-1])
    co = draw(coeffs())
    fm = draw(forms())
    if draw(st.integers(0, 11)) == 0:
        # rejected periods: negative anywhere, or zero for the 1-D classes
        periods = [draw(st.one_of(st.just(0.0), _period())) if dim > 1 else 1.0 for _ in range(dim)]
        bad = draw(st.one_of(st.floats(max_value=-5e-324, allow_nan=False, allow_infinity=False), st.sampled_from([-1.0, -5e-324, -1e300])))
        if dim == 1 and draw(st.booleans()):
            bad = draw(st.sampled_from([0.0, -0.0]))
        periods[draw(st.integers(0, dim - 1))] = bad
        return {"cls": cls, "periods": periods, "f": co, "invalid": True}
    # periods are stored as the float64 value of the form they are passed in, so that x = k*period refers to the real period
    periods = [_canon_period(fm["cf"], draw(_period()))[1] if (dim == 1 or draw(st.integers(0, 4)) > 0) else 0.0 for _ in range(dim)]
    pts, excl = [], 0
    for _ in range(draw(st.integers(1, 3))):
        pt = []
        for ax in range(dim):
            x = draw(_px(periods[ax]))
            if EXCLUDE and in_defect_class(x, periods[ax]):
                x = -x                       # open finding: input class excluded by construction (mirrored to x > 0)
                excl += 1
            pt.append(x)
        pts.append(pt)
    case = _with({"cls": cls, "periods": periods, "f": co, "pts": pts}, fm)
    if excl:
        case["excluded_known"] = excl
    return case


_PCLS = {"P1": "PeriodicTransform1D", "P2": "PeriodicTransform2D", "P3": "PeriodicTransform3D",
         "VP1": "VectorPeriodicTransform1D", "VP2": "VectorPeriodicTransform2D", "VP3": "VectorPeriodicTransform3D"}


def _read_periods(ctx, w, dim, periods, name):
    """Readable period attributes (PeriodicTransform2D has none) report exactly the periods passed in."""
    attrs = ["period"] if dim == 1 else ["period_x", "period_y", "period_z"][:dim]
    for at, per in zip(attrs, periods):
        if hasattr(w, at):
            ctx.label("attr-read")
            for _ in range(2):
                got = getattr(w, at)
                ctx.check(type(got) is float and got == per, "attribute", lambda: "%s.%s = %r, constructed with %r" % (name, at, got, per))


def run_periodic(case, ctx):
    cls = case["cls"]
    name = _PCLS[cls]
    vector = cls.startswith("V")
    dim = int(cls[-1])
    af, cf, wf = case.get("af", "float"), case.get("cf", "float"), case.get("wf", "object")
    f = vrec(case) if vector else Rec(case["f"])
    if case.get("invalid"):
        ctx.label("invalid")
        ctx.nt()
        ctx.raises((ValueError,), "invalid-period", getattr(M, name), f, *_fl(case["periods"]))
        return
    pp = [_canon_period(cf, p) for p in case["periods"]]
    pobjs, periods = [o for o, _ in pp], [v for _, v in pp]
    ctx.label(cls, "af:" + af, "cf:" + cf)
    if any(per != 0 and not _is_f32(per) for per in periods):
        ctx.label("period-not-f32")
    if case.get("excluded_known"):
        ctx.label("excluded_known")
    fo = wrapped(ctx, wf, f, dim)
    with ctx.cut("construct"):
        w = getattr(M, name)(fo, *pobjs)
    _attr_fn(ctx, w, "function%dd" % dim, fo, "raysect" if wf == "const" and vector else wf)
    _read_periods(ctx, w, dim, periods, name)
    first = None
    for p_raw in case["pts"]:
        p, got, a, objs = _eval(ctx, w, f, p_raw, af, fo)
        ctx.check(a is None or (len(a) == dim and all(type(v) is float for v in a)), "inner", lambda: "inner called with %r" % (a,))
        for ax in range(dim if a is not None else 0):
            x, per, inner = p[ax], periods[ax], a[ax]
            info = "%s periods %r at %r axis %d" % (name, periods, p, ax)
            if per == 0:
                ctx.label("period0")
                ctx.check(inner == x, "inner-nonperiodic", lambda: "inner %r != x (%s)" % (inner, info))
                continue
            ctx.check(0.0 <= inner < per, "inner-range",
                      lambda: "inner argument %r is outside [0, %r) (%s)" % (inner, per, info))
            fx, fp, fi = Fraction(x), Fraction(per), Fraction(inner)
            d = fx - fi
            k = round(d / fp)
            resid = abs(d - k * fp)
            exact_mult = (fx / fp).denominator == 1
            rounded = x < 0 and not exact_mult
            tol = Fraction(math.ulp(per)) / 2 if rounded else Fraction(0)
            ctx.check(resid <= tol, "inner-congruent",
                      lambda: "x - inner = %r is not an integer multiple of the period: residual %.3g > %.3g (inner %r, %s)"
                              % (float(d), float(resid), float(tol), inner, info))
            edge = False
            if x < 0:
                ctx.label("negative")
                edge = True
            if abs(x) < 1e-12 * per:
                ctx.label("tiny")
                edge = True
            if exact_mult and x != 0:
                ctx.label("exact-multiple")
                edge = True
            if abs(x) > 1e15:
                ctx.label("huge")
                edge = True
            ctx.nt(edge)
        want = f.value(a)
        if vector and f.flavour != "fresh":
            ctx.label("persistent")
        if vector:
            ctx.check(_vec(got) == tuple(want), "vector", lambda: "%s at %r = %r, f(inner) = %r" % (name, p, _vec(got), want))
        else:
            ctx.check(got == want, "value", lambda: "%s at %r = %r, f(inner) = %r" % (name, p, got, want))
        first = first or (p, got, a, objs)
    _again(ctx, w, f, first, name, fo)
    _read_periods(ctx, w, dim, periods, name)


# ================================================================================================ mask
_TEMPLATES = {
    # not star-shaped
    "U": [[0, 0], [3, 0], [3, 3], [2, 3], [2, 1], [1, 1], [1, 3], [0, 3]],
    "zigzag": [[0, 0], [1, 1.5], [2, 0], [3, 1.5], [4, 0], [4, 1], [3, 2.5], [2, 1], [1, 2.5], [0, 1]],
    "spiral": [[0, 0], [5, 0], [5, 5], [1, 5], [1, 2], [3, 2], [3, 3], [2, 3], [2, 4], [4, 4], [4, 1], [0, 1]],
    "comb": [[0, 0], [7, 0], [7, 3], [6, 3], [6, 1], [5, 1], [5, 3], [4, 3], [4, 1], [3, 1], [3, 3], [2, 3], [2, 1], [1, 1], [1, 3], [0, 3]],
    # small integer polygons: triangle, square, dart (concave quadrilateral), arrow
    "tri": [[0, 0], [4, 0], [1, 3]],
    "square": [[0, 0], [2, 0], [2, 2], [0, 2]],
    "dart": [[0, 0], [4, 1], [0, 3], [1, 1]],
    "dart2": [[0, 0], [2, 1], [4, 0], [2, 5]],
}
# no Fortran-ordered float64 array: PolygonMask2D rejects it (ValueError "ndarray is not C-contiguous"); the in-repo caller
# efit.pyx documents "polygon mask requires an Nx2 array and it must be c contiguous" and converts before the call
_VFORMS = ["list", "tuple", "ndarray", "f32", "int", "strided"]


@st.composite
def mask_strategy(draw):
    vf = draw(st.sampled_from(_VFORMS))
    cx, cy = draw(st.floats(-10, 10)), draw(st.floats(-10, 10))
    scale = 10.0 ** draw(st.floats(-3, 3))
    th0 = draw(st.floats(0, 2 * math.pi))
    kind = draw(st.sampled_from(["star", "star", "star", "small", "dart", "convex", "template", "template"]))
    place = draw(st.sampled_from(["usual", "usual", "usual", "tiny", "far"])) if vf not in ("int", "f32") else "usual"
    if place == "tiny":            # a polygon in tiny units (micro- to picometres), at the origin
        scale, cx, cy = 10.0 ** draw(st.floats(-12, -6)), 0.0, 0.0
    elif place == "far":           # a small polygon far from the origin (offset 1e3 .. 1e5 sizes)
        off = scale * 10.0 ** draw(st.floats(3, 5))
        cx, cy = off * draw(st.sampled_from([-1.0, 1.0])), off * draw(st.floats(-1.0, 1.0))
    if vf == "int":
        # integer vertices: an integer template, shifted and scaled by integers
        name = draw(st.sampled_from(sorted(_TEMPLATES)))
        k, ox, oy = draw(st.integers(1, 1000)), draw(st.integers(-1000, 1000)), draw(st.integers(-1000, 1000))
        verts = [[float(round(2 * x) * k + ox), float(round(2 * y) * k + oy)] for x, y in _TEMPLATES[name]]
    elif kind == "template":
        name = draw(st.sampled_from(sorted(_TEMPLATES)))
        base = _TEMPLATES[name]
        c, s = math.cos(th0), math.sin(th0)
        verts = [[cx + scale * (c * x - s * y), cy + scale * (s * x + c * y)] for x, y in base]
    elif kind == "dart":
        # three outer vertices around the centre and a fourth one strictly inside their triangle: concave quadrilateral
        g1, g2 = draw(st.floats(1.6, 2.4)), draw(st.floats(1.6, 2.4))
        g3 = 2 * math.pi - g1 - g2
        r_in = draw(st.floats(0.1, 0.8)) * math.cos(g3 / 2)
        ang = [th0, th0 + g1, th0 + g1 + g2, th0 + g1 + g2 + g3 / 2]
        rad = [1.0, draw(st.floats(0.6, 1.0)), draw(st.floats(0.6, 1.0)), 0.6 * r_in]
        verts = [[cx + scale * r * math.cos(a), cy + scale * r * math.sin(a)] for r, a in zip(rad, ang)]
    else:
        n = draw(st.integers(3, 4)) if kind == "small" else draw(st.integers(3, 12))
        gaps = [draw(st.floats(0.25, 1.0)) for _ in range(n)]
        tot = sum(gaps)
        radii = [1.0 if kind == "convex" else draw(st.floats(0.25, 1.0)) for _ in range(n)]
        verts, th = [], th0
        for i in range(n):
            verts.append([cx + scale * radii[i] * math.cos(th), cy + scale * radii[i] * math.sin(th)])
            th += 2 * math.pi * gaps[i] / tot
    if vf == "f32":
        verts = [[float(np.float32(x)), float(np.float32(y))] for x, y in verts]
    if draw(st.booleans()):
        verts.reverse()
    k = draw(st.integers(0, len(verts) - 1))
    verts = verts[k:] + verts[:k]
    probes = draw(st.lists(st.one_of(
        st.tuples(st.just("box"), st.floats(-0.2, 1.2), st.floats(-0.2, 1.2)),
        st.tuples(st.just("vertex"), st.integers(0, 63), st.floats(0, 2 * math.pi), st.sampled_from([1e-6, 1e-3, 0.05])),
        st.tuples(st.just("edge"), st.integers(0, 63), st.floats(0.02, 0.98), st.sampled_from([-0.05, -1e-3, -1e-6, 1e-6, 1e-3, 0.05])),
        st.tuples(st.just("chord"), st.integers(0, 63), st.integers(0, 63), st.floats(0.01, 0.99),
                  st.sampled_from([0.0, 0.0, 1e-6, -1e-6, 1e-3, -1e-3])),
    ).map(list), min_size=4, max_size=10))
    case = {"verts": verts, "probes": probes, "rot": k, "vf": vf, "mutate": draw(st.booleans())}
    if place != "usual":
        # coordinates carry ~1e-11 of the polygon's size there: probes keep 1e-3 sizes away from edges and chords
        case["place"], case["margin"] = place, 1e-3
        for pr in probes:
            if pr[0] in ("vertex", "edge") and abs(pr[3]) < 1e-3:
                pr[3] = math.copysign(1e-3, pr[3])
            if pr[0] == "chord" and abs(pr[4]) < 2e-3:
                pr[4] = -2e-3 if pr[4] < 0 else 2e-3
    if EXCLUDE_DIAG:
        # open finding: points exactly on a chord joining two vertices (a possible triangulation diagonal) are excluded
        # by construction - they are moved 1e-6*size off the chord
        n_ex = 0
        for pr in probes:
            if pr[0] == "chord" and pr[4] == 0.0:
                pr[4] = 1e-6
                n_ex += 1
        if n_ex:
            case["excluded_known"] = n_ex
    return case


def _inside_exact(fverts, px, py):
    """Even-odd crossing test in exact rational arithmetic (point known not to lie on the boundary)."""
    inside = False
    n = len(fverts)
    for i in range(n):
        x1, y1 = fverts[i]
        x2, y2 = fverts[(i + 1) % n]
        if (y1 > py) != (y2 > py):
            xi = x1 + (py - y1) * (x2 - x1) / (y2 - y1)
            if xi > px:
                inside = not inside
    return inside


def _seg_dist(px, py, a, b):
    ax, ay = a
    bx, by = b
    dx, dy = bx - ax, by - ay
    L2 = dx * dx + dy * dy
    t = 0.0 if L2 == 0 else max(0.0, min(1.0, ((px - ax) * dx + (py - ay) * dy) / L2))
    return math.hypot(px - (ax + t * dx), py - (ay + t * dy))


def _near_chord(px, py, verts, tol):
    n = len(verts)
    for i in range(n):
        for j in range(i + 2, n):
            if (i == 0 and j == n - 1):
                continue
            if _seg_dist(px, py, verts[i], verts[j]) <= tol:
                return True
    return False


def _container(form, verts):
    """vertex / point list in container form; returns (object, snapshot function -> comparable copy)."""
    if form == "tuple":
        return tuple(tuple(v) for v in verts)
    if form == "list":
        return [list(v) for v in verts]
    if form == "f32":
        return np.array(verts, dtype=np.float32)
    if form == "int":
        return np.array(verts, dtype=np.int64)
    a = np.array(verts, dtype=np.float64)
    if form == "fortran":
        return np.asfortranarray(a)
    if form == "strided":
        big = np.full((2 * a.shape[0], 2 * a.shape[1]), 7.25)
        big[::2, ::2] = a
        return big[::2, ::2]
    return a


def _snapshot(obj):
    if isinstance(obj, np.ndarray):
        return (obj.dtype.str, obj.shape, obj.tobytes())
    return repr(obj)


def _probe_points(case, verts, size, bbox, ctx):
    n = len(verts)
    x0, x1, y0, y1 = bbox
    out = []
    for pr in case["probes"]:
        kind = pr[0]
        if kind == "box":
            px, py = x0 + float(pr[1]) * (x1 - x0), y0 + float(pr[2]) * (y1 - y0)
        elif kind == "vertex":
            v = verts[int(pr[1]) % n]
            d = float(pr[3]) * size
            px, py = v[0] + d * math.cos(float(pr[2])), v[1] + d * math.sin(float(pr[2]))
        elif kind == "edge":
            i = int(pr[1]) % n
            a, b = verts[i], verts[(i + 1) % n]
            t = float(pr[2])
            ex, ey = b[0] - a[0], b[1] - a[1]
            L = math.hypot(ex, ey) or 1.0
            d = float(pr[3]) * size
            px, py = a[0] + t * ex - d * ey / L, a[1] + t * ey + d * ex / L
        else:
            a, b = verts[int(pr[1]) % n], verts[int(pr[2]) % n]
            t = float(pr[3])
            ex, ey = b[0] - a[0], b[1] - a[1]
            L = math.hypot(ex, ey) or 1.0
            d = float(pr[4]) * size if len(pr) > 4 else 0.0
            px, py = a[0] + t * ex - d * ey / L, a[1] + t * ey + d * ex / L
            if d == 0:
                ctx.label("on-chord")
        if EXCLUDE_DIAG and kind != "chord" and _near_chord(px, py, verts, case.get("margin", 1e-9) * size):
            ctx.label("excluded_known")
            continue
        dist = min(_seg_dist(px, py, verts[i], verts[(i + 1) % n]) for i in range(n))
        if not dist > case.get("margin", 1e-9) * size * (0.999 if "margin" in case else 1.0):
            ctx.label("near-edge-skipped")
            continue
        out.append((px, py, dist))
    return out


def run_mask(case, ctx):
    if case.get("excluded_known"):
        ctx.label("excluded_known")
    base = [_fl(v) for v in case["verts"]]
    vf = case.get("vf", "list")
    n = len(base)
    xs, ys = [v[0] for v in base], [v[1] for v in base]
    bbox = (min(xs), max(xs), min(ys), max(ys))
    size = max(bbox[1] - bbox[0], bbox[3] - bbox[2])
    pts = _probe_points(case, base, size, bbox, ctx)
    fbase = [(Fraction(v[0]), Fraction(v[1])) for v in base]
    wants = [1.0 if _inside_exact(fbase, Fraction(px), Fraction(py)) else 0.0 for px, py, _ in pts]
    crosses = []
    for i in range(n):
        a, b, c = base[i - 1], base[i], base[(i + 1) % n]
        crosses.append((b[0] - a[0]) * (c[1] - b[1]) - (b[1] - a[1]) * (c[0] - b[0]))
    convex = all(c > 0 for c in crosses) or all(c < 0 for c in crosses)
    ctx.label("convex" if convex else "concave", "n=%d" % n, "form:" + vf)
    if n == 4 and not convex:
        ctx.label("dart")
    # polygons with <= 4 vertices: every starting vertex, both orientations; larger ones: as drawn
    if n <= 4:
        ctx.label("allrot")
        variants = [(base[k:] + base[:k])[::s] for k in range(n) for s in (1, -1)]
    else:
        variants = [base]
    for vi, verts in enumerate(variants):
        area2 = sum(verts[i][0] * verts[(i + 1) % n][1] - verts[(i + 1) % n][0] * verts[i][1] for i in range(n))
        ccw = area2 > 0
        ctx.label("ccw" if ccw else "cw")
        ctx.nt((not convex) or (not ccw) or int(case.get("rot", 0)) != 0 or vi > 0)
        obj = _container(vf, verts)
        before = _snapshot(obj)
        no_ear = False
        with ctx.cut("construct"):
            try:
                w = M.PolygonMask2D(obj)
            except RuntimeError as e:
                if "at least one ear" in str(e) and EXCLUDE_EAR and not case.get("probe_known"):
                    no_ear = True
                else:
                    raise
        if no_ear:
            ctx.label("excluded_known:ear-clipping")
            continue
        ctx.check(_snapshot(obj) == before, "caller-owned", lambda: "PolygonMask2D modified the vertex container it was given (%s)" % vf)

        def evaluate(order, what):
            for i in order:
                px, py, dist = pts[i]
                with ctx.cut("call"):
                    got = w(px, py)
                ctx.check(got == wants[i], what,
                          lambda: "PolygonMask2D(%r [%s])(%r, %r) = %r, point-in-polygon = %r (distance to boundary %.3g, size %.3g)"
                                  % (verts, vf, px, py, got, wants[i], dist, size))
        idx = list(range(len(pts)))
        evaluate(idx, "mask")
        # (c) re-use: backwards, and every point twice in a row (the mesh caches its last look-up)
        evaluate(idx[::-1], "mask-reuse")
        evaluate([i for i in idx for _ in (0, 1)], "mask-reuse")
        # (d) the caller overwrites its container after construction: the mask must not change
        if case.get("mutate") and vf != "tuple":
            ctx.label("caller-mutates")
            if isinstance(obj, np.ndarray):
                obj[...] = obj[::-1].copy() * 3 + 1
            else:
                for row in obj:
                    row[0], row[1] = row[1] * 3.0 + 1.0, -row[0]
                obj.reverse()
            evaluate(idx, "mask-after-caller-mutation")
    for wv in wants:
        ctx.label("inside" if wv else "outside")


# ================================================================================================ samplers
S_MAX = 8e307


def _srange(maxn=5):
    c = st.one_of(st.floats(-S_MAX, S_MAX), st.sampled_from([v for v in _SPECIAL if abs(v) <= S_MAX]),
                  st.floats(-10.0, 10.0), st.floats(-10.0, 10.0).map(lambda v: float(round(v))))
    n = st.integers(1, 5) if maxn <= 5 else st.one_of(st.integers(1, 5), st.integers(1, maxn))
    return st.builds(lambda a, b, same, n: [min(a, b), min(a, b) if same else max(a, b), n], c, c,
                     st.integers(0, 7).map(lambda v: v == 0), n)


_SCAL = {"sample1d": 1, "sample2d": 2, "sample3d": 3}
_VEC = {"samplevector2d": 2, "samplevector3d": 3}
_PTS = {"sample1d_points": 1, "sample2d_points": 2, "sample3d_points": 3, "samplevector2d_points": 2, "samplevector3d_points": 3}
_GRID = {"sample2d_grid": 2, "sample3d_grid": 3, "samplevector2d_grid": 2, "samplevector3d_grid": 3}
_ALLFN = {}
for _d in (_SCAL, _VEC, _PTS, _GRID):
    _ALLFN.update(_d)
_AFORMS = ["list", "tuple", "ndarray", "f32", "int", "fortran", "strided"]


@st.composite
def samplers_strategy(draw):
    fn = draw(st.sampled_from(sorted(_ALLFN)))
    dim = _ALLFN[fn]
    case = {"fn": fn, "f": draw(coeffs()), "wf": draw(st.sampled_from(["object", "function", "raysect", "stored", "const"]))}
    if fn in _SCAL or fn in _VEC:
        rs = [draw(_srange(33 if dim == 1 else 5)) for _ in range(dim)]
        case["rf"] = draw(st.sampled_from(["float", "float", "int", "np32", "np64"]))
        case["nf"] = draw(st.sampled_from(["int", "int", "npint"]))
        if draw(st.integers(0, 9)) == 0:
            ax = draw(st.integers(0, dim - 1))
            how = draw(st.sampled_from(["n=0", "n<0", "min>max", "len"]))
            if how == "n=0":
                rs[ax][2] = 0
            elif how == "n<0":
                rs[ax][2] = -draw(st.integers(1, 5))
            elif how == "min>max":
                lo = rs[ax][0]
                rs[ax][0], rs[ax][1] = math.nextafter(lo, math.inf) if draw(st.booleans()) else lo + max(1.0, abs(lo)), lo
            else:
                rs[ax] = rs[ax][:2] if draw(st.booleans()) else rs[ax] + [1]
            case["invalid"] = how
            case["rf"] = "float"
        case["ranges"] = rs
    elif fn in _PTS:
        case["points"] = draw(points(dim, 1, 6))
        if draw(st.integers(0, 3)) == 0:                       # equal neighbouring points
            case["points"].append(list(case["points"][-1]))
        case["as"] = draw(st.sampled_from(_AFORMS))
    else:
        case["axes"] = [draw(st.lists(coord(), min_size=1, max_size=4)) for _ in range(dim)]
        if draw(st.integers(0, 3)) == 0:                       # equal neighbouring coordinates
            case["axes"][0].append(case["axes"][0][-1])
        case["as"] = draw(st.sampled_from(_AFORMS))
    return case


def _check_linspace(ctx, got, lo, hi, n, axis):
    ctx.check(isinstance(got, np.ndarray) and got.shape == (n,) and got.dtype == np.float64, "grid",
              lambda: "axis %d: coordinate array is %r, expected float64 shape (%d,)" % (axis, got, n))
    g = [float(v) for v in got]
    ctx.check(g[0] == lo, "grid", lambda: "axis %d: first sample %r != min %r" % (axis, g[0], lo))
    if n == 1:
        return g
    ctx.check(g[-1] == hi, "grid", lambda: "axis %d: last sample %r != max %r (n=%d)" % (axis, g[-1], hi, n))
    flo, fhi = Fraction(lo), Fraction(hi)
    tol = 4 * Fraction(math.ulp(max(abs(lo), abs(hi))))
    for i in range(n):
        want = flo + (fhi - flo) * i / (n - 1)
        ctx.check(abs(Fraction(g[i]) - want) <= tol, "grid",
                  lambda: "axis %d: sample %d of linspace(%r, %r, %d) is %r, evenly spaced value is %r" % (axis, i, lo, hi, n, g[i], float(want)))
    return g


def _grid_check(ctx, fn, f, vector, axes, v):
    """v[i,j,k] == f(x_i, y_j, z_k) exactly; every grid point was evaluated."""
    shape = tuple(len(a) for a in axes)
    want_shape = shape + ((3,) if vector else ())
    ctx.check(isinstance(v, np.ndarray) and v.shape == want_shape and v.dtype == np.float64, "shape",
              lambda: "%s: result shape %r, expected %r" % (fn, getattr(v, "shape", None), want_shape))
    calls = list(f.calls)
    want_calls = []
    for idx in np.ndindex(*shape):
        args = tuple(axes[d][idx[d]] for d in range(len(axes)))
        want_calls.append(args)
        want = f.value(args)
        if vector:
            got = tuple(float(c) for c in v[idx])
            ctx.check(got == tuple(want), "entry", lambda: "%s: out%r = %r but f%r = %r" % (fn, list(idx), got, args, want))
        else:
            got = float(v[idx])
            ctx.check(got == want, "entry", lambda: "%s: out%r = %r but f%r = %r" % (fn, list(idx), got, args, want))
    ctx.check(not f.records or sorted(calls) == sorted(want_calls), "calls",
              lambda: "%s: the function was evaluated at %r, the grid is %r" % (fn, calls[:40], want_calls[:40]))


def _arr(kind, data, dim2=False):
    """(object to pass, float64 values it stands for)."""
    if kind == "list":
        return ([list(r) for r in data] if dim2 else list(data)), data
    if kind == "tuple":
        return (tuple(tuple(r) for r in data) if dim2 else tuple(data)), data
    if kind == "f32":
        a = np.array(data, dtype=np.float64)
        a = np.where(np.abs(a) <= 3.4028234663852886e38, a, 1.0).astype(np.float32)
        return a, a.astype(np.float64).tolist()
    if kind == "int":
        a = np.array(data, dtype=np.float64)
        a = np.where(np.abs(a) < 2.0 ** 53, a, 1.0).astype(np.int64)
        return a, a.astype(np.float64).tolist()
    a = np.array(data, dtype=np.float64)
    if kind == "fortran":
        return np.asfortranarray(a), data
    if kind == "strided":
        if dim2:
            big = np.full((2 * a.shape[0], 2 * a.shape[1]), 7.25)
            big[::2, ::2] = a
            return big[::2, ::2], data
        b = np.full(2 * len(data), 7.25)
        b[::2] = a
        return b[::2], data
    return a, data


def _same_result(ctx, fn, r1, r2, what):
    """Two returned tuples/arrays: equal bit for bit and not sharing memory."""
    a1 = r1 if isinstance(r1, tuple) else (r1,)
    a2 = r2 if isinstance(r2, tuple) else (r2,)
    ctx.check(len(a1) == len(a2), what, "%s: different number of results" % fn)
    for x, y in zip(a1, a2):
        ctx.check(x.shape == y.shape and x.tobytes() == y.tobytes(), what, lambda: "%s: the second call returns %r, the first %r" % (fn, y, x))
        ctx.check(not np.shares_memory(x, y), what, "%s: arrays returned by two calls share memory" % fn)


def run_samplers(case, ctx):
    fn = case["fn"]
    dim = _ALLFN[fn]
    vector = fn.startswith("samplevector")
    f = vrec(case) if vector else Rec(case["f"])
    func = getattr(M, fn)
    ctx.label(fn)
    if case.get("invalid"):
        rs = [tuple([float(r[0]), float(r[1])] + [int(v) for v in r[2:]]) for r in case["ranges"]]
        ctx.label("invalid")
        ctx.nt()
        ctx.raises((ValueError,), "invalid-range", func, f, *rs)
        return
    fo = wrapped(ctx, case.get("wf", "object"), f, dim)
    if vector and f.flavour != "fresh":
        ctx.label("persistent")
    if "ranges" in case:
        rf, nf = case.get("rf", "float"), case.get("nf", "int")
        ctx.label("range:" + rf)
        rs, rv = [], []
        for r in case["ranges"]:
            (ol, vl), (oh, vh) = canon(rf, r[0]), canon(rf, r[1])
            if not vl <= vh:
                ol, vl, oh, vh = float(r[0]), float(r[0]), float(r[1]), float(r[1])
            n = int(r[2])
            rs.append((ol, oh, np.int64(n) if nf == "npint" else n))
            rv.append((vl, vh, n))
        with ctx.cut("call"):
            out = func(fo, *rs)
        ctx.check(isinstance(out, tuple) and len(out) == dim + 1, "return", lambda: "%s returned %r" % (fn, type(out)))
        axes = [_check_linspace(ctx, out[d], rv[d][0], rv[d][1], rv[d][2], d) for d in range(dim)]
        _grid_check(ctx, fn, f, vector, axes, out[dim])
        keep = tuple(a.copy() for a in out)
        f.calls.clear()
        with ctx.cut("call-again"):
            out2 = func(fo, *rs)
        _same_result(ctx, fn, keep, out, "first-result-intact")
        _same_result(ctx, fn, out, out2, "second-call")
        _intact(ctx, f, fo, fn)
        ns = [r[2] for r in rv]
    elif "points" in case:
        pts = [_fl(p) for p in case["points"]]
        arg, vals = _arr(case["as"], [p[0] for p in pts] if dim == 1 else pts, dim2=dim > 1)
        ctx.label("form:" + case["as"])
        pts = [[v] for v in vals] if dim == 1 else [list(v) for v in vals]
        before = _snapshot(arg)
        with ctx.cut("call"):
            v = func(fo, arg)
        ctx.check(_snapshot(arg) == before, "caller-owned", lambda: "%s modified its points argument (%s)" % (fn, case["as"]))
        want_shape = (len(pts), 3) if vector else (len(pts),)
        ctx.check(isinstance(v, np.ndarray) and v.shape == want_shape and v.dtype == np.float64, "shape",
                  lambda: "%s: result shape %r, expected %r" % (fn, getattr(v, "shape", None), want_shape))
        for i, p in enumerate(pts):
            want = f.value(tuple(p))
            got = tuple(float(c) for c in v[i]) if vector else float(v[i])
            ctx.check(got == (tuple(want) if vector else want), "entry",
                      lambda: "%s: out[%d] = %r but f%r = %r" % (fn, i, got, tuple(p), want))
        ctx.check(not f.records or sorted(f.calls) == sorted(tuple(p) for p in pts), "calls",
                  lambda: "%s: evaluated at %r, points are %r" % (fn, f.calls, pts))
        keep = v.copy()
        with ctx.cut("call-again"):
            v2 = func(fo, arg)
        _same_result(ctx, fn, keep, v, "first-result-intact")
        _same_result(ctx, fn, v, v2, "second-call")
        _intact(ctx, f, fo, fn)
        if isinstance(arg, np.ndarray):
            ctx.check(not np.shares_memory(v, arg), "caller-owned", "%s: result shares memory with the points argument" % fn)
        ctx.nt(len(pts) >= 2 and _distinct([tuple(p) for p in pts]))
        return
    else:
        pairs = [_arr(case["as"], _fl(a)) for a in case["axes"]]
        ctx.label("form:" + case["as"])
        args, axes = [a for a, _ in pairs], [list(vv) for _, vv in pairs]
        before = [_snapshot(a) for a in args]
        with ctx.cut("call"):
            v = func(fo, *args)
        ctx.check([_snapshot(a) for a in args] == before, "caller-owned", lambda: "%s modified a coordinate argument (%s)" % (fn, case["as"]))
        _grid_check(ctx, fn, f, vector, axes, v)
        keep = v.copy()
        with ctx.cut("call-again"):
            v2 = func(fo, *args)
        _same_result(ctx, fn, keep, v, "first-result-intact")
        _same_result(ctx, fn, v, v2, "second-call")
        _intact(ctx, f, fo, fn)
        ns = [len(a) for a in axes]
    one = any(n == 1 for n in ns)
    noncubic = dim >= 2 and len(set(ns)) == dim
    if one:
        ctx.label("n=1")
    if any(n == 2 for n in ns):
        ctx.label("n=2")
    if noncubic:
        ctx.label("non-cubic")
    if dim == 3 and ns[0] != ns[2]:
        ctx.label("nx!=nz")
    ctx.nt(one or noncubic)


# ================================================================================================ nested
# Every wrapper class wraps ANOTHER wrapper (two levels, innermost = recording callable).  Oracle = composition of the two
# mappings: exact mapping code for swizzle / slice / clamp / iso layers; for the layers whose mapping carries a rounding
# (periodic for x < 0, sqrt/atan2 of the axisymmetric / cylindrical layers) the intermediate point is what a single-level
# instance of that layer hands to a recorder, itself checked against the single-level oracle (range + congruence, hypot/atan2).
_LAYERS = {  # class: (number of call arguments, number of arguments of the wrapped function)
    "ClampInput1D": (1, 1), "ClampOutput1D": (1, 1), "PeriodicTransform1D": (1, 1), "Slice2D": (1, 2),
    "Swizzle2D": (2, 2), "ClampInput2D": (2, 2), "ClampOutput2D": (2, 2), "IsoMapper2D": (2, 2), "PeriodicTransform2D": (2, 2),
    "Slice3D": (2, 3), "AxisymmetricMapper": (3, 2),
    "Swizzle3D": (3, 3), "ClampInput3D": (3, 3), "ClampOutput3D": (3, 3), "IsoMapper3D": (3, 3), "CylindricalTransform": (3, 3),
    "PeriodicTransform3D": (3, 3)}
_VLAYERS = {"VectorPeriodicTransform1D": (1, 1), "VectorPeriodicTransform2D": (2, 2), "VectorPeriodicTransform3D": (3, 3),
            "VectorCylindricalTransform": (3, 3), "VectorAxisymmetricMapper": (3, 2)}
_ALL_LAYERS = dict(_LAYERS, **_VLAYERS)
_PERMS3 = [[0, 1, 2], [0, 2, 1], [1, 0, 2], [1, 2, 0], [2, 0, 1], [2, 1, 0]]
_NPERIODS = [1.0, 2.2, 0.75, 2 * math.pi, 0.1, 360.0, 3.0, 0.5]


def ncoord():
    """moderate coordinates: 0 or 1e-12 <= |v| <= 1e100 (every intermediate point stays in the accurate range of every layer)."""
    return st.one_of(st.floats(-10.0, 10.0).filter(lambda v: v == 0 or abs(v) >= 1e-12),
                     st.floats(-10.0, 10.0).map(lambda v: float(round(v))),
                     st.sampled_from([0.0, -0.0, 1.0, -1.0, 0.1, -0.1, 2.2, -2.2, 1234.5678, -1234.5678, 1e15, -1e15, 1e-12, 1e100, -1e100, 0.5]))


@st.composite
def _layer(draw, cls):
    d_in, d_out = _ALL_LAYERS[cls]
    L = {"cls": cls}
    if cls == "Swizzle3D":
        L["shape"] = draw(st.one_of(st.sampled_from(_PERMS3), st.sampled_from(_PERMS3), st.sampled_from(_SHAPES3)))
    elif cls.startswith("ClampInput"):
        L["lims"] = [[lo, lo + wd] for lo, wd in (draw(st.tuples(st.floats(-5.0, 5.0), st.floats(0.1, 5.0))) for _ in range(d_in))]
    elif cls.startswith("ClampOutput"):
        lo, wd = draw(st.floats(-300.0, 300.0)), draw(st.floats(1.0, 300.0))
        L["lims"] = [[lo, lo + wd]]
    elif cls.startswith("IsoMapper"):
        L["g"] = draw(coeffs())
    elif cls.startswith("Slice"):
        L["axis"] = draw(st.sampled_from(_AX2 if cls == "Slice2D" else _AX3))
        L["value"] = draw(ncoord())
    elif "Periodic" in cls:
        L["periods"] = [draw(st.sampled_from(_NPERIODS if (d_in == 1 or k > 0) else [0.0]))
                        for k in (draw(st.integers(0, 4)) for _ in range(d_in))]
    return L


@st.composite
def nested_strategy(draw):
    vector = draw(st.integers(0, 3)) == 0
    table = _VLAYERS if vector else _LAYERS
    pick = draw(st.integers(0, 9))
    if pick == 0 and not vector:          # the pair whose order of composition matters most: swizzle in swizzle
        outer = inner = "Swizzle3D"
    elif pick == 1 and not vector:        # Slice2D can only sit inside a 1-D wrapper
        outer, inner = draw(st.sampled_from(["ClampInput1D", "ClampOutput1D", "PeriodicTransform1D"])), "Slice2D"
    else:
        outer = draw(st.sampled_from(sorted(table)))
        d_mid = table[outer][1]
        cands = sorted(c for c, (di, do) in table.items() if di == d_mid)
        same = draw(st.booleans()) and outer in cands
        inner = outer if same else draw(st.sampled_from(cands))
    L1, L2 = draw(_layer(outer)), draw(_layer(inner))
    pts = draw(points(table[outer][0], 1, 3, ncoord()))
    return {"outer": L1, "inner": L2, "vector": vector, "pts": pts, "f": draw(coeffs())}


def _lbuild(L, wrapped_fn):
    cls = L["cls"]
    c = getattr(M, cls)
    if cls == "Swizzle3D":
        return c(wrapped_fn, tuple(int(i) for i in L["shape"]))
    if cls.startswith("ClampInput"):
        return c(wrapped_fn, *[float(v) for l in L["lims"] for v in l])
    if cls.startswith("ClampOutput"):
        return c(wrapped_fn, float(L["lims"][0][0]), float(L["lims"][0][1]))
    if cls.startswith("IsoMapper"):
        return c(wrapped_fn, Rec(L["g"], rot=1))
    if cls.startswith("Slice"):
        return c(wrapped_fn, L["axis"], float(L["value"]))
    if "Periodic" in cls:
        return c(wrapped_fn, *_fl(L["periods"]))
    return c(wrapped_fn)


def _lmap(ctx, L, args):
    """The arguments layer L hands to the function it wraps when called with `args`."""
    cls = L["cls"]
    args = list(args)
    if cls == "Swizzle2D":
        return [args[1], args[0]]
    if cls == "Swizzle3D":
        return [args[int(i)] for i in L["shape"]]
    if cls.startswith("ClampInput"):
        return [_clampv(a, float(l[0]), float(l[1])) for a, l in zip(args, L["lims"])]
    if cls.startswith("ClampOutput") or cls.startswith("IsoMapper"):
        return args
    if cls.startswith("Slice"):
        ax = L["axis"]
        ax = {"x": 0, "y": 1, "z": 2}[ax.lower()] if isinstance(ax, str) else int(ax)
        out = list(args)
        out.insert(ax, float(L["value"]))
        return out
    # layers with a rounding in the mapping: measured on a single-level instance, checked against the single-level oracle
    d_out = _ALL_LAYERS[cls][1]
    probe = VRec([1.0, 10.0, 100.0, 0.0]) if cls.startswith("Vector") else Rec([1.0, 10.0, 100.0, 0.0])
    with ctx.cut("single-level"):
        _lbuild(L, probe)(*args)
    mid = list(_one_call(ctx, probe, "single-level"))
    ctx.check(len(mid) == d_out, "single-level", lambda: "%s handed over %r" % (cls, mid))
    if "Periodic" in cls:
        for x, per, inner in zip(args, _fl(L["periods"]), mid):
            if per == 0:
                ctx.check(inner == x, "single-level", lambda: "%s: non-periodic axis %r -> %r" % (cls, x, inner))
                continue
            resid = abs((Fraction(x) - Fraction(inner)) / Fraction(per))
            resid = abs(resid - round(resid)) * Fraction(per)
            ctx.check(0.0 <= inner < per and resid <= Fraction(math.ulp(per)) / 2, "single-level",
                      lambda: "%s period %r: %r -> %r" % (cls, per, x, inner))
    else:
        x, y, z = args
        r_ref = math.hypot(x, y)
        ok = abs(mid[0] - r_ref) <= 4 * U * r_ref and mid[-1] == z
        if d_out == 3:
            ok = ok and abs(mid[1] - math.atan2(y, x)) <= 2 * math.ulp(math.atan2(y, x))
        ctx.check(ok or not (max(abs(x), abs(y)) == 0 or R_LO <= max(abs(x), abs(y)) <= R_HI), "single-level",
                  lambda: "%s%r handed over %r" % (cls, tuple(args), mid))
    return mid


def _lpost(L, value, args):
    """What layer L makes of the value returned by the function it wraps (args = the layer's own call arguments)."""
    cls = L["cls"]
    if cls.startswith("ClampOutput"):
        return _clampv(value, float(L["lims"][0][0]), float(L["lims"][0][1]))
    if cls.startswith("IsoMapper"):
        return sval(L["g"], (value,), 1)
    if cls in ("VectorCylindricalTransform", "VectorAxisymmetricMapper"):
        return _rotz(value, math.atan2(args[1], args[0]))
    return value


def run_nested(case, ctx):
    L1, L2 = case["outer"], case["inner"]
    c1, c2 = L1["cls"], L2["cls"]
    vector = bool(case.get("vector"))
    ctx.label("same-class" if c1 == c2 else "mixed", "outer:" + c1, "inner:" + c2)
    f = VRec(case["f"]) if vector else Rec(case["f"])
    with ctx.cut("construct"):
        w = _lbuild(L1, _lbuild(L2, f))
    if c1 == c2 == "Swizzle3D":
        s1, s2 = [int(i) for i in L1["shape"]], [int(i) for i in L2["shape"]]
        if [s1[i] for i in s2] != [s2[i] for i in s1]:
            ctx.label("swizzle-noncommuting")
    n_rot = sum(1 for c in (c1, c2) if c in ("VectorCylindricalTransform", "VectorAxisymmetricMapper"))
    first = None
    for p_raw in case["pts"]:
        p = _fl(p_raw)
        f.calls.clear()
        with ctx.cut("call"):
            got = _copy(w(*p))
        e_got = _one_call(ctx, f, "inner")
        mid = _lmap(ctx, L1, p)
        e = _lmap(ctx, L2, mid)
        _expect_args(ctx, e_got, e, "inner",
                     "%s(%s(f)) at %r: %s maps it to %r, %s maps that to %r; outer %r inner %r" % (c1, c2, p, c1, mid, c2, e, L1, L2))
        want = _lpost(L1, _lpost(L2, f.value(tuple(e)), mid), p)
        if vector and n_rot:
            nrm = math.sqrt(sum(c * c for c in want))
            ctx.close(_vec(got), want, "vector", rtol=0.0, atol=n_rot * 1e-12 * nrm, info="%s(%s(f)) at %r" % (c1, c2, p))
        else:
            ctx.check(_val(got) == (tuple(want) if vector else want), "value",
                      lambda: "%s(%s(f)) at %r = %r, composition gives %r; outer %r inner %r" % (c1, c2, p, _val(got), want, L1, L2))
        ctx.nt(_distinct(p) and L1 != L2)
        first = first or (p, got, e_got, p)
    _again(ctx, w, f, first, "%s(%s(f))" % (c1, c2))


# ================================================================================================ clamp_subsets
# Deterministic sweep: every subset of the optional bounds of every clamp class (all other bounds left to their defaults),
# at every combination of points below / on / inside / on / above each bound.  Oracle = the exact clamp.
_CS_LIMS = [[-1.5, 2.25], [-0.75, 3.5], [0.1, 1234.5678]]
_CS_CO = [1.0, 10.0, 100.0, 0.25]
_CS_OUT = [-40.0, 55.5]


def clamp_subset_cases(tier):
    for io in ("in", "out"):
        for dim in (1, 2, 3):
            nb = 2 * dim if io == "in" else 2
            for mask in range(1 << nb):
                for pos in ((False, True) if mask == (1 << nb) - 1 or _leading(mask, nb) else (False,)):
                    yield {"io": io, "dim": dim, "mask": mask, "pos": pos}


def _leading(mask, nb):
    """the given bounds form a prefix of the parameter list (so that they can be passed positionally)"""
    return mask != 0 and (mask & (mask + 1)) == 0


def run_clamp_subsets(case, ctx):
    io, dim, mask, pos = case["io"], int(case["dim"]), int(case["mask"]), bool(case.get("pos"))
    name = ("ClampInput%dD" if io == "in" else "ClampOutput%dD") % dim
    names = [n for pair in (_IN_NAMES[:dim] if io == "in" else [("min", "max")]) for n in pair]
    vals = [v for l in (_CS_LIMS[:dim] if io == "in" else [_CS_OUT]) for v in l]
    given = [bool(mask >> i & 1) for i in range(len(names))]
    lims = [[vals[2 * a] if given[2 * a] else None, vals[2 * a + 1] if given[2 * a + 1] else None] for a in range(len(names) // 2)]
    ctx.label(name, "%s:%d-of-%d-bounds" % (name, sum(given), len(names)), "positional" if pos else "keyword")
    ctx.nt()
    f = Rec(_CS_CO)
    with ctx.cut("construct"):
        if pos:
            w = getattr(M, name)(f, *[v for v, g in zip(vals, given) if g])
        else:
            w = getattr(M, name)(f, **{n: v for n, v, g in zip(names, vals, given) if g})
    if io == "in":
        axes = [[lo - 1.0, lo, 0.5 * (lo + hi), hi, hi + 1.0] for lo, hi in _CS_LIMS[:dim]]
    else:
        axes = [[-3.0, -0.5, 0.0, 0.5, 3.0]] * dim
    seen = set()
    for idx in np.ndindex(*[len(a) for a in axes]):
        p = [axes[d][idx[d]] for d in range(dim)]
        f.calls.clear()
        with ctx.cut("call"):
            got = w(*p)
        fa = _one_call(ctx, f, "inner")
        if io == "in":
            want_args = [_clampv(p[i], lims[i][0], lims[i][1]) for i in range(dim)]
            want = f.value(tuple(want_args))
        else:
            want_args = p
            raw = f.value(tuple(p))
            want = _clampv(raw, lims[0][0], lims[0][1])
            seen.add("below" if raw < _CS_OUT[0] else "above" if raw > _CS_OUT[1] else "inside")
        _expect_args(ctx, fa, want_args, "inner", "%s bounds given %r at %r" % (name, {n: v for n, v, g in zip(names, vals, given) if g}, p))
        ctx.check(got == want, "value", lambda: "%s bounds given %r at %r = %r, expected %r"
                  % (name, {n: v for n, v, g in zip(names, vals, given) if g}, p, got, want))
    if io == "out" and seen == {"below", "inside", "above"}:
        ctx.label("out:below-inside-above")


SUBCHECKS = {
    "iso": Given(iso_strategy, run_iso, quick=600, thorough=15000),
    "swizzle": Given(swizzle_strategy, run_swizzle, quick=600, thorough=15000),
    "slice": Given(slice_strategy, run_slice, quick=600, thorough=15000),
    "clamp": Given(clamp_strategy, run_clamp, quick=1200, thorough=40000),
    "cyl": Given(cyl_strategy, run_cyl, quick=2000, thorough=60000),
    "periodic": Given(periodic_strategy, run_periodic, quick=3000, thorough=120000),
    "mask": Given(mask_strategy, run_mask, quick=1200, thorough=40000),
    "samplers": Given(samplers_strategy, run_samplers, quick=1600, thorough=45000),
    "nested": Given(nested_strategy, run_nested, quick=2400, thorough=60000),
    "clamp_subsets": Enum(clamp_subset_cases, run_clamp_subsets),
}
