"""C02 - line shapes are normalised: spectral integral = radiance x in-window fraction, bin-average spreading,
pi + sigma = unpolarised, stated component ratios, zero-width lines add nothing."""
import math

import numpy as np
from hypothesis import strategies as st
from scipy import constants as K
from scipy.special import ndtr, hyp2f1

from raysect.core import Point3D, Vector3D
from raysect.optical import Spectrum
from raysect.core.math.function.vector3d import Constant3D as ConstVec3D

from cherab.core import Plasma, Species, Maxwellian, Beam, Line
from cherab.core.atomic import AtomicData, ZeemanStructure
from cherab.core.atomic import elements as EL
from cherab.core.math.integrators import GaussianQuadrature
from cherab.core.model import GaussianLine, MultipletLineShape, StarkBroadenedLine, ZeemanTriplet, \
    ParametrisedZeemanTriplet, ZeemanMultiplet, BeamEmissionMultiplet

from ..core import Given
from ..findings import is_open

ID = "C02"
RULE = ("Case = line-shape class x plasma state (species T incl. <=0, flow, n_e/T_e incl. <=0, B built at a chosen angle "
        "to an un-normalised viewing direction) x model tables (dyadic multiplet ratios, ZeemanStructure functions of B, "
        "Stark / parametrised-Zeeman coefficients, MSE ratio functions) x spectral window placed relative to the line "
        "(containing, cutting at a mass quantile, beside, one bin, fine). Oracles: total on a covering window, "
        "bin-average by grid nesting, in-window fraction against an independently binned aligned reference, absolute "
        "erf / hyp2f1 bins from the documented formulas, pi+sigma=no and the sin^2/cos^2 weights, linearity, zero-width, and one model "
        "object asked at two points of a two-state plasma (state A, B, A again: each as a fresh model in a uniform plasma of that state). "
        "Non-trivial = 0.01 < in-window fraction < 0.99, or B oblique to the view (not within 1 deg of 0/90/180), or >= 2 "
        "components, or polarisation != no; distinct by case hash.")
ASSUMPTIONS = ["CODATA constants from scipy.constants; the code's older HC_EV_NM / Bohr magneton (rel. 1e-8) are covered by an "
               "interval oracle (expected bins recomputed with shifts scaled by 1 +- 3e-8)",
               "Stark: the documented pseudo-Voigt formulas of the StarkBroadenedLine docstring are the specification",
               "parameters are bounded so that every component lies within +-(0.16 lambda0 + 10 nm): the covering window"]
TOLERANCES = {
    "gaussian-built totals / nesting / pi+sigma / linearity": "1e-9 * radiance (erf differences telescope; +-10 sigma cut removes 1.5e-23)",
    "aligned-reference fraction": "1e-9 R + 2e-15 * lambda * max spectral density (bin edges of two grids differ by rounding)",
    "absolute erf oracle": "1e-9 R/dlambda + |expected(shift*(1+3e-8), sigma*(1+1e-9)) - expected| (constants interval)",
    "stark per-bin / totals, default GaussianQuadrature(1e-5), bins <= FWHM/2": "3e-4 R per bin and in total: the quadrature's stopping rule compares successive orders and the profile has a cusp at the line centre; measured worst error of the bin holding the centre over 2400 sub-bin offsets: 1e-6 R (bin = 0.1 FWHM), 2.1e-5 (0.25), 7.2e-5 (0.5), 3.2e-3 (0.85), 8e-4 (1), 3.8e-3 (2), 0.33 (50) -> bins > FWHM/2 belong to the known finding C02-stark-coarse-bins; + tail mass 5.05e-4 R allowed above (whole-bin treatment at the +-50 FWHM cut)",
    "stark with GaussianQuadrature(relative_tolerance=1e-10), bins <= FWHM/2": "2e-6 R",
}
REQUIRED_LABELS = ["starkfine:integrator:fixed-order", "shape:two-states:same-centre", "shape:two-states:moved", "shape:mse-resolved", "shape:win:cut", "shape:win:contain", "shape:B:oblique", "shape:pol:pi", "shape:pol:sigma", "shape:zero-width"]

C = K.c
AMU = K.atomic_mass
E = K.e
HC_EV_NM = K.h * K.c / K.e * 1e9
MU_B = K.physical_constants["Bohr magneton in eV/T"][0]
SIG2FWHM = 2 * math.sqrt(2 * math.log(2))
LCUT = 50.0
_STARK_C = 4 * LCUT * hyp2f1(0.4, 1, 1.4, -(2 * LCUT) ** 2.5)
STARK_TAIL = 5.05e-4

ELEMENTS = ["hydrogen", "deuterium", "tritium", "helium", "carbon", "nitrogen", "neon"]
CLASSES = ["gaussian", "multiplet", "ztriplet", "pztriplet", "zmultiplet", "stark", "mse"]
ZEEMAN = ("ztriplet", "pztriplet", "zmultiplet", "stark")

# ----------------------------------------------------------------------------------------------- strategy
_dy = st.integers(1, 16)   # dyadic numerators: ratios k/2^m sum exactly to 1.0 in binary floating point


@st.composite
def _multiplet(draw):
    n = draw(st.integers(1, 6))
    parts = [draw(_dy) for _ in range(n)]
    # scale numerators so that they sum to a power of two: pad the last one
    tot = sum(parts)
    p2 = 1 << (tot - 1).bit_length()
    parts[-1] += p2 - tot
    offs = [draw(st.floats(-8e-3, 8e-3)) for _ in range(n)]
    return {"offs": offs, "num": parts, "den": p2, "form": draw(st.sampled_from(["list", "ndarray"]))}


@st.composite
def _zcomp(draw):
    n = draw(st.integers(1, 3))
    lst = [[draw(st.floats(-4e-3, 4e-3)), draw(st.floats(-2e-4, 2e-4)), draw(st.sampled_from([0.0, 0.5, 1.0, 2.0, 3.0])),
            draw(st.sampled_from([0.0, 0.1, 0.5]))] for _ in range(n)]
    if lst[0][2] == 0.0:
        lst[0][2] = 0.5     # a group whose ratios are all zero cannot carry its share of the radiance: outside the domain
    if draw(st.integers(0, 3)) == 0:
        # "almost normalised" tables (ratios printed to three or four decimals): the documented re-normalisation still applies
        near = {1: [[1.0005], [0.9992]], 2: [[0.4995, 0.5], [0.333, 0.6675]], 3: [[0.333, 0.333, 0.333], [0.25, 0.2505, 0.5]]}[n]
        for comp, r in zip(lst, draw(st.sampled_from(near))):
            comp[2], comp[3] = r, 0.0
    return lst


@st.composite
def strategy(draw):
    cls = draw(st.sampled_from(CLASSES))
    wl = draw(st.floats(100.0, 2000.0))
    case = {"cls": cls, "wl": wl,
            "R": draw(st.one_of(st.just(0.0), st.floats(1e-6, 1e6), st.just(1.0))),
            "el": draw(st.sampled_from(ELEMENTS)),
            "ts": draw(st.one_of(st.sampled_from([0.0, -1.0]), st.floats(0.05, 2000.0), st.floats(0.05, 30.0), st.floats(0.05, 2000.0), st.floats(0.5, 300.0), st.floats(0.05, 5.0))),
            "v": [draw(st.floats(-1.5e6, 1.5e6)) for _ in range(3)],
            "ne": draw(st.one_of(st.sampled_from([0.0, -1e19]), st.floats(1e17, 1e21), st.floats(1e19, 1e21), st.floats(1e17, 1e21), st.floats(1e18, 1e20), st.floats(1e17, 1e21))),
            "te": draw(st.one_of(st.sampled_from([0.0, -1.0]), st.floats(0.2, 1e3), st.floats(0.2, 20.0), st.floats(0.2, 1e3), st.floats(0.2, 20.0), st.floats(1.0, 100.0))),
            "Bmag": draw(st.one_of(st.just(0.0), st.floats(0.05, 10.0), st.floats(0.5, 6.0))),
            "theta": draw(st.one_of(st.sampled_from([0.0, 90.0, 180.0, 45.0]), st.floats(0.0, 180.0), st.floats(0.0, 180.0))),
            "phi": draw(st.floats(0.0, 360.0)),
            "dir": [draw(st.floats(-1.0, 1.0)) for _ in range(3)],
            "dscale": draw(st.sampled_from([1.0, 1.0, 0.01, 37.5])),
            "pol": draw(st.sampled_from(["no", "no", "pi", "sigma"])),
            "base": draw(st.sampled_from([0.0, 0.5])),
            "win": {"mode": draw(st.sampled_from(["contain", "cut", "cut", "cutboth", "beside", "onebin", "fine"])),
                    "bins": draw(st.integers(1, 400)), "u": draw(st.floats(0.02, 0.98)), "u2": draw(st.floats(0.02, 0.98)),
                    "k": draw(st.integers(2, 5)), "pad": draw(st.floats(0.0, 3.0))}}
    # a second plasma state (same model object, other point of a non-uniform plasma): never wider / further shifted than the first
    case["alt"] = {"fne": draw(st.floats(0.3, 1.0)), "fte": draw(st.floats(1.0, 3.0)), "fts": draw(st.floats(0.3, 1.0)),
                   "fB": draw(st.sampled_from([1.0, 1.0, 0.5, 0.0])), "fv": draw(st.sampled_from([1.0, 1.0, 1.0, 0.5])),
                   "zero": draw(st.sampled_from(["", "", "", "ts", "ne"])), "default_integ": draw(st.booleans())}
    if cls == "multiplet":
        case["multiplet"] = draw(_multiplet())
    if cls == "zmultiplet":
        case["zs"] = {"pi": draw(_zcomp()), "sp": draw(_zcomp()), "sm": draw(_zcomp())}
    if cls == "pztriplet":
        case["pz"] = [draw(st.floats(1e-4, 0.2)), draw(st.floats(0.0, 1.0)), draw(st.floats(-0.5, 0.1))]
    if cls == "stark":
        # FWHM_L = c * ne^a / te^b ; FWHM_L / lambda in [1e-5, 1e-3] at the case's own (ne, te)
        case["stark"] = {"rel": draw(st.floats(1e-5, 1e-3)), "a": draw(st.floats(0.3, 1.2)), "b": draw(st.floats(0.01, 0.6)),
                         "hi": draw(st.booleans())}
        case["ts"] = min(case["ts"], 30.0)      # keeps +-50 FWHM inside the covering window
    if cls == "mse":
        case["mse"] = {"E": draw(st.floats(1e3, 1.2e5)), "Tb": draw(st.one_of(st.just(0.0), st.floats(0.01, 50.0))),
                       "bel": draw(st.sampled_from(["hydrogen", "deuterium", "tritium", "helium"])),
                       "bdir": [draw(st.floats(-1.0, 1.0)) for _ in range(3)],
                       "s2p": [draw(st.floats(0.0, 3.0)), draw(st.floats(0.0, 1e-5))],
                       "s1s0": draw(st.floats(0.0, 3.0)), "p2p3": draw(st.floats(0.0, 3.0)), "p4p3": draw(st.floats(0.0, 3.0))}
        if draw(st.booleans()):
            # 'resolved' class: cold beam, strong field perpendicular to the beam -> nine separated peaks
            case["mse"].update({"perp": True, "Tb": draw(st.floats(0.01, 0.3)), "E": draw(st.floats(2e4, 1.2e5)),
                                "s2p": [draw(st.floats(0.2, 3.0)), 0.0], "s1s0": draw(st.floats(0.2, 3.0)),
                                "p2p3": draw(st.floats(0.2, 3.0)), "p4p3": draw(st.floats(0.2, 3.0))})
            case["Bmag"] = draw(st.floats(2.0, 10.0))
            case["ne"], case["te"] = draw(st.floats(1e18, 1e20)), draw(st.floats(1.0, 100.0))
    if cls in ZEEMAN:
        case["polseq"] = draw(st.lists(st.sampled_from(["no", "pi", "sigma"]), min_size=2, max_size=5))
    return case


# ----------------------------------------------------------------------------------------------- building
def _unit(v):
    n = math.sqrt(sum(x * x for x in v))
    return [x / n for x in v]


def _direction(case):
    d = list(case["dir"])
    if math.sqrt(sum(x * x for x in d)) < 1e-3:
        d = [0.3, -0.4, 0.5]
    return _unit(d)


def _bvec(case, dhat):
    """B of magnitude Bmag at angle theta to the viewing direction."""
    a = [1.0, 0.0, 0.0] if abs(dhat[0]) < 0.9 else [0.0, 1.0, 0.0]
    n1 = _unit([dhat[1] * a[2] - dhat[2] * a[1], dhat[2] * a[0] - dhat[0] * a[2], dhat[0] * a[1] - dhat[1] * a[0]])
    n2 = [dhat[1] * n1[2] - dhat[2] * n1[1], dhat[2] * n1[0] - dhat[0] * n1[2], dhat[0] * n1[1] - dhat[1] * n1[0]]
    th, ph = math.radians(case["theta"]), math.radians(case["phi"])
    perp = [math.cos(ph) * n1[i] + math.sin(ph) * n2[i] for i in range(3)]
    return [case["Bmag"] * (math.cos(th) * dhat[i] + math.sin(th) * perp[i]) for i in range(3)]


class Built:
    pass


PT_A = {"plasma": (0.1, -0.2, 0.3), "mse_beam": (0.1, 0.2, 0.3), "mse_plasma": (0.3, 0.2, 0.1)}
PT_SHIFT = (0.5, -0.75, 1.25)        # state B lives at the same points shifted by this vector


def alt_case(case):
    """The second state of the two-state plasma: the case with scaled n_e, T_e, T_s, |B|, flow (the model's own parameters,
    e.g. the Stark coefficients derived from the first state, stay)."""
    a = case["alt"]
    c = dict(case, ne=case["ne"] * a["fne"], te=case["te"] * a["fte"], ts=case["ts"] * a["fts"], Bmag=case["Bmag"] * a["fB"],
             v=[x * a["fv"] for x in case["v"]])
    if case["cls"] != "mse":
        if a["zero"] == "ts":
            c["ts"] = 0.0
        elif a["zero"] == "ne":
            c["ne"] = 0.0
    if case["cls"] == "stark":
        c["stark_c"] = stark_coeffs(case)
    c["alt"] = {"default_integ": a.get("default_integ", False)}      # the reference model is constructed the same way
    return c


def _two(pts, va, vb, vc):
    """va at the first state's point, vb at the second state's, vc anywhere else (a model sampling the plasma at another
    point than the one it is given - mixed coordinates, a remembered point - reads vc and cannot agree with either oracle)."""
    pa = pts
    pb = tuple(p + sft for p, sft in zip(pts, PT_SHIFT))

    def f(x, y, z):
        if abs(x - pa[0]) + abs(y - pa[1]) + abs(z - pa[2]) < 1e-6:
            return va
        if abs(x - pb[0]) + abs(y - pb[1]) + abs(z - pb[2]) < 1e-6:
            return vb
        return vc
    return f


def build(case, pol=None, integrator=None, alt=None, frozen_n=False):
    b = Built()
    el = getattr(EL, case["el"])
    dhat = _direction(case)
    bv = _bvec(case, dhat)
    plasma = Plasma()
    if alt is None:
        plasma.b_field = ConstVec3D(Vector3D(*bv))
        plasma.electron_distribution = Maxwellian(case["ne"], case["te"], ConstVec3D(Vector3D(0, 0, 0)), K.m_e)
        sp = Species(el, 0, Maxwellian(1e18, case["ts"], ConstVec3D(Vector3D(*case["v"])), el.atomic_weight * AMU))
    else:
        pts = PT_A["mse_plasma"] if case["cls"] == "mse" else PT_A["plasma"]
        bvb = _bvec(alt, dhat)
        zero = Vector3D(0, 0, 0)
        plasma.b_field = _two(pts, Vector3D(*bv), Vector3D(*bvb), Vector3D(0.37 * bv[1] + 0.2, -0.6 * bv[2], 0.11 * bv[0] - 0.3))
        plasma.electron_distribution = Maxwellian(_two(pts, case["ne"], alt["ne"], 2.9e19), _two(pts, case["te"], alt["te"], 7.7),
                                                  _two(pts, zero, zero, zero), K.m_e)
        sp = Species(el, 0, Maxwellian(_two(pts, 1e18, 1e18, 1e18), _two(pts, case["ts"], alt["ts"], 0.61 * case["ts"] + 0.4),
                                       _two(pts, Vector3D(*case["v"]), Vector3D(*alt["v"]), Vector3D(1e4, -2e4, 3e4)),
                                       el.atomic_weight * AMU))
    plasma.composition = [sp]
    line = Line(el, 0, (3, 2))
    ad = AtomicData()
    wl = case["wl"]
    pol = pol or case["pol"]
    cls = case["cls"]
    b.direction = Vector3D(*[x * case["dscale"] for x in dhat])
    b.dhat, b.bv, b.el = dhat, bv, el
    b.beam = None
    if cls == "gaussian":
        m = GaussianLine(line, wl, sp, plasma, ad)
    elif cls == "multiplet":
        mu = case["multiplet"]
        table = [[wl * (1 + o) for o in mu["offs"]], [n / mu["den"] for n in mu["num"]]]
        if mu.get("form") == "ndarray":
            # a C-contiguous float64 array owned by the caller, who goes on using it: after the model is built the array is
            # overwritten (ratios x 4.5, wavelengths shifted) - the model must not have kept a reference to it
            table = np.array(table, dtype=np.float64)
            m = MultipletLineShape(line, wl, sp, plasma, ad, table)
            table[1, :] *= 4.5
            table[0, :] += 3.0
        else:
            m = MultipletLineShape(line, wl, sp, plasma, ad, table)
    elif cls == "ztriplet":
        m = ZeemanTriplet(line, wl, sp, plasma, ad, pol)
    elif cls == "pztriplet":
        m = ParametrisedZeemanTriplet(line, wl, sp, plasma, ad, tuple(case["pz"]), pol)
    elif cls == "zmultiplet":
        def comps(lst):
            return [((lambda B, o=o, ob=ob: wl * (1 + o) + ob * B), (lambda B, r=r, rb=rb: r + rb * B)) for o, ob, r, rb in lst]
        zs = ZeemanStructure(comps(case["zs"]["pi"]), comps(case["zs"]["sp"]), comps(case["zs"]["sm"]))
        m = ZeemanMultiplet(line, wl, sp, plasma, ad, zs, pol)
    elif cls == "stark":
        if integrator is None and case.get("alt", {}).get("default_integ"):
            # the integrator left to its default: every instance built this way shares the signature's default object
            m = StarkBroadenedLine(line, wl, sp, plasma, ad, tuple(stark_coeffs(case)), polarisation=pol)
        else:
            m = StarkBroadenedLine(line, wl, sp, plasma, ad, tuple(stark_coeffs(case)),
                                   integrator if integrator is not None else GaussianQuadrature(), pol)
    elif cls == "mse":
        ms = case["mse"]
        beam = Beam()
        beam.plasma = plasma
        beam.energy = ms["E"]
        beam.temperature = ms["Tb"]
        beam.element = getattr(EL, ms["bel"])
        b.beam = beam
        s2p = ms["s2p"]
        if frozen_n:
            nf0 = _nfac(case["ne"])
            m = BeamEmissionMultiplet(line, wl, beam, ad, (lambda n, e: (s2p[0] + s2p[1] * e) * nf0), (lambda n: ms["s1s0"] * nf0),
                                      (lambda n: ms["p2p3"] / nf0), (lambda n: ms["p4p3"] * nf0 ** 2))
        else:
            m = BeamEmissionMultiplet(line, wl, beam, ad, (lambda n, e: (s2p[0] + s2p[1] * e) * _nfac(n)), (lambda n: ms["s1s0"] * _nfac(n)),
                                      (lambda n: ms["p2p3"] / _nfac(n)), (lambda n: ms["p4p3"] * _nfac(n) ** 2))
        bd = list(ms["bdir"])
        if math.sqrt(sum(x * x for x in bd)) < 1e-3:
            bd = [0.0, 0.0, 1.0]
        if ms.get("perp") and case["Bmag"] > 0:
            a = [1.0, 0.0, 0.0] if abs(bv[0]) < 0.9 * case["Bmag"] else [0.0, 1.0, 0.0]
            bd = [bv[1] * a[2] - bv[2] * a[1], bv[2] * a[0] - bv[0] * a[2], bv[0] * a[1] - bv[1] * a[0]]
        b.beam_dir = Vector3D(*bd)
    b.model = m
    return b


def _nfac(n):
    """Electron-density dependence given to the MSE ratio functions (documented as functions of n_e)."""
    return (n / 1e19) ** 0.1


def stark_coeffs(case):
    if "stark_c" in case:
        return list(case["stark_c"])
    s = case["stark"]
    # c is chosen so that FWHM_L = rel * lambda at the case's own (ne, te)
    ne0 = case["ne"] if case["ne"] > 0 else 1e20
    te0 = case["te"] if case["te"] > 0 else 5.0
    c = s["rel"] * case["wl"] * te0 ** s["b"] / ne0 ** s["a"]
    return [c, s["a"], s["b"]]


def add(b, case, radiance, wmin, wmax, bins, base=0.0, state="A"):
    s = Spectrum(wmin, wmax, bins)
    if base:
        s.samples[:] = base
    sh = PT_SHIFT if state == "B" else (0.0, 0.0, 0.0)

    def pt(name):
        return Point3D(*[p + d for p, d in zip(PT_A[name], sh)])
    if case["cls"] == "mse":
        out = b.model.add_line(radiance, pt("mse_beam"), pt("mse_plasma"), b.beam_dir, b.direction, s)
    else:
        out = b.model.add_line(radiance, pt("plasma"), b.direction, s)
    return np.array(out.samples) - base


# ----------------------------------------------------------------------------------------------- documented formulas
def components(case, pol, hc=HC_EV_NM, mub=MU_B, sigscale=1.0, shiftscale=1.0):
    """(weight, centre, sigma, lorentz_weight, fwhm_full) per component, from the documented formulas.
    Returns None when the class has no absolute oracle (mse)."""
    cls = case["cls"]
    if cls == "mse":
        return None
    el = getattr(EL, case["el"])
    wl = case["wl"]
    ts = case["ts"]
    dhat = _direction(case)
    vproj = sum(case["v"][i] * dhat[i] for i in range(3))
    dop = 1 + vproj / C
    bv = _bvec(case, dhat)
    B = math.sqrt(sum(x * x for x in bv))
    sigma = math.sqrt(max(ts, 0.0) * E / (el.atomic_weight * AMU)) * wl / C * sigscale if ts > 0 else 0.0
    lor_w, fw = 0.0, 0.0
    if cls == "stark":
        cij, aij, bij = stark_coeffs(case)
        ne, te = case["ne"], case["te"]
        fl = cij * ne ** aij / te ** bij if (ne > 0 and te > 0) else 0.0
        fg = SIG2FWHM * sigma
        if fl == 0 and fg == 0:
            return []
        a = [1., 0.15882, 1.04388, -1.38281, 0.46251, 0.82325, -0.58026]
        bb = [1., 0, 0.57575, 0.37902, -0.42519, -0.31525, 0.31718]
        if fg <= fl:
            r = fg / fl
            fw = fl * sum(bb[i] * r ** i for i in range(7))
        else:
            r = fl / fg
            fw = fg * sum(a[i] * r ** i for i in range(7))
        sigma = fw / SIG2FWHM
        x = fl / fw
        if x < 0.01:
            lor_w, fw_l = 0.0, 0.0
        elif x > 0.999:
            lor_w, fw_l = 1.0, fw
            sigma = 0.0
        else:
            cc = [5.14820e-04, 1.38821e+00, -9.60424e-02, -3.83995e-02, -7.40042e-03, -5.47626e-04]
            lor_w = math.exp(sum(cc[i] * math.log(x) ** i for i in range(6)))
            fw_l = fw
        fw = fw_l
    elif ts <= 0:
        return []
    if cls == "pztriplet":
        al, be, ga = case["pz"]
        sigma *= math.sqrt(1 + be * be * ts ** (2 * ga))
    out = []

    def comp(w, centre_rest):
        out.append((w, (wl + (centre_rest - wl) * shiftscale) * dop, sigma, lor_w, fw))

    if cls == "gaussian":
        comp(1.0, wl)
        return out
    if cls == "multiplet":
        mu = case["multiplet"]
        for o, n in zip(mu["offs"], mu["num"]):
            out.append((n / mu["den"], wl * (1 + o) * dop, sigma, 0.0, 0.0))
        return out
    # Zeeman-type classes
    if B == 0:
        comp(1.0 if pol == "no" else 0.5, wl)
        return out
    cos2 = (sum(bv[i] * dhat[i] for i in range(3)) / B) ** 2
    sin2 = 1 - cos2
    wpi, wsig = 0.5 * sin2, 0.25 * sin2 + 0.5 * cos2
    if cls in ("ztriplet", "stark"):
        pe = hc / wl
        if pol != "sigma":
            comp(wpi, wl)
        if pol != "pi":
            comp(wsig, hc / (pe - mub * B))
            comp(wsig, hc / (pe + mub * B))
    elif cls == "pztriplet":
        al = case["pz"][0]
        if pol != "sigma":
            comp(wpi, wl)
        if pol != "pi":
            comp(wsig, wl + 0.5 * al * B)
            comp(wsig, wl - 0.5 * al * B)
    elif cls == "zmultiplet":
        def group(lst, w):
            rs = [r + rb * B for o, ob, r, rb in lst]
            tot = sum(rs)
            for (o, ob, r, rb), rr in zip(lst, rs):
                out.append((w * (rr / tot if tot > 0 else rr), (wl * (1 + o) + ob * B) * dop, sigma, 0.0, 0.0))
        if pol != "sigma":
            group(case["zs"]["pi"], wpi)
        if pol != "pi":
            group(case["zs"]["sp"], wsig)
            group(case["zs"]["sm"], wsig)
    return out


def _lor_cum(x, w):
    a = (0.5 * w) ** 2.5
    norm = (0.5 * w) ** 1.5 / _STARK_C
    x = np.asarray(x, dtype=float)
    X = np.minimum(np.abs(x), LCUT * w)          # documented truncation at +-50 FWHM
    return np.sign(x) * norm * X / a * hyp2f1(1, 0.4, 1.4, -X ** 2.5 / a)


def expected_bins(comps, radiance, wmin, wmax, bins):
    edges = wmin + (wmax - wmin) / bins * np.arange(bins + 1)
    d = (wmax - wmin) / bins
    out = np.zeros(bins)
    for w, c, sig, lw, fw in comps:
        if sig > 0 and (1 - lw) != 0:
            cdf = ndtr((edges - c) / sig)
            sf = ndtr(-(edges - c) / sig)
            diff = np.where(edges[:-1] > c, sf[:-1] - sf[1:], cdf[1:] - cdf[:-1])   # accurate in both tails
            out += radiance * w * (1 - lw) * diff / d
        if fw > 0 and lw != 0:
            cum = _lor_cum(edges - c, fw)
            out += radiance * w * lw * (cum[1:] - cum[:-1]) / d
    return out


def pol_factor(case, pol):
    """Fraction of the radiance carried by polarisation `pol` (my own trigonometry)."""
    if case["cls"] not in ZEEMAN or pol == "no":
        return 1.0
    dhat = _direction(case)
    bv = _bvec(case, dhat)
    B = math.sqrt(sum(x * x for x in bv))
    if B == 0:
        return 0.5
    cos2 = (sum(bv[i] * dhat[i] for i in range(3)) / B) ** 2
    sin2 = 1 - cos2
    return 0.5 * sin2 if pol == "pi" else 0.5 * sin2 + cos2


# ----------------------------------------------------------------------------------------------- the check
def run(case, ctx):
    cls = case["cls"]
    wl, R = case["wl"], case["R"]
    pol = case["pol"] if cls in ZEEMAN else "no"
    ctx.label(cls, "pol:" + pol)
    with ctx.cut("construct"):
        b = build(case)
    if cls == "mse":
        if case["ne"] <= 0 or case["te"] <= 0:
            ctx.label("mse-no-electrons")      # behaviour not covered by the statement
            return
        zero_width = case["mse"]["Tb"] <= 0
    elif cls == "stark":
        zero_width = case["ts"] <= 0 and (case["ne"] <= 0 or case["te"] <= 0)
    else:
        zero_width = case["ts"] <= 0
    # covering window: by construction of the generator every component lies inside
    half = 0.16 * wl + 10.0
    cmin, cmax = wl - half, wl + half
    comps = components(case, pol)
    stark = cls == "stark"
    fw_stark = 0.0
    if stark and comps:
        fw_stark = max(c[4] for c in comps)
        lw = comps[0][3]
        ctx.label("stark:lorentz-only" if lw == 1.0 else "stark:gauss-only" if lw == 0.0 else "stark:voigt")

    # ---- zero width: nothing may be added, anywhere
    if zero_width:
        ctx.label("zero-width")
        with ctx.cut("add_line"):
            got = add(b, case, R if R > 0 else 1.0, cmin, cmax, 64)
        ctx.check(np.all(got == 0.0), "zero-width", lambda: "a line without width added %r (max)" % float(np.max(np.abs(got))))
        return

    Rr = R if R > 0 else 1.0
    pf = pol_factor(case, pol)
    # ---- locate the line with a probe spectrum (placement only, not an oracle)
    if stark and fw_stark > 0:
        # Lorentzian part present: the probe grid must resolve the FWHM (coarser bins are mis-integrated, see the
        # known finding), so it is placed with the documented component positions: +-52 FWHM around them
        centres = [c[1] for c in comps]
        pmin, pmax = max(1.0, min(centres) - 52 * fw_stark), max(centres) + 52 * fw_stark
        nb = int(min(8000, max(64, math.ceil((pmax - pmin) / (0.5 * fw_stark)))))
    else:
        pmin, pmax, nb = cmin, cmax, 4096
    with ctx.cut("add_line"):
        probe = add(b, case, Rr, pmin, pmax, nb, base=0.0)
    ctx.check(np.all(np.isfinite(probe)), "finite", "non-finite samples")
    dref = (pmax - pmin) / nb
    # round-off of 1 - cos^2 may leave a component weight of -1e-16: allow that much
    ctx.check(np.all(probe * dref >= -1e-12 * Rr), "non-negative", lambda: "negative spectral radiance %r" % float(probe.min()))
    tot = probe.sum() * dref
    # (1) total on the covering window
    if not stark:
        ctx.close(tot, Rr * pf, "total", rtol=0, atol=1e-9 * Rr, info="(class %s pol %s)" % (cls, pol))
    if pf * Rr <= 1e-9 * Rr or tot <= 0:
        ctx.label("no-mass")
        return
    cum = np.cumsum(probe) * dref / tot
    edges = pmin + dref * np.arange(nb + 1)
    # 1e-13 quantiles: a component lighter than the 1e-9 R tolerance (e.g. the pi group at 0.003 degrees) must still be
    # inside the covering window of the aligned reference, several of them could otherwise add up to more than 1e-9
    lo = edges[max(0, int(np.searchsorted(cum, 1e-13)) - 1)]
    hi = edges[min(nb, int(np.searchsorted(cum, 1 - 1e-13)) + 2)]

    def quant(u):
        return float(edges[min(nb, int(np.searchsorted(cum, u)) + 1)])

    w = case["win"]
    width = max(hi - lo, 4 * dref)
    mode = w["mode"]
    if mode == "contain":
        wmin, wmax, bins = lo - (0.2 + w["pad"]) * width, hi + (0.2 + w["pad"]) * width, w["bins"]
    elif mode == "cut":
        q = quant(w["u"])
        if w["u2"] < 0.5:
            wmin, wmax = q, hi + (0.2 + w["pad"]) * width
        else:
            wmin, wmax = lo - (0.2 + w["pad"]) * width, q
        bins = w["bins"]
    elif mode == "cutboth":
        q1, q2 = sorted([quant(w["u"]), quant(w["u2"])])
        if q2 - q1 < 2 * dref:
            q2 = q1 + 2 * dref
        wmin, wmax, bins = q1, q2, w["bins"]
    elif mode == "beside":
        wmin, wmax, bins = hi + (0.5 + w["pad"]) * width, hi + (1.5 + 2 * w["pad"]) * width, w["bins"]
    elif mode == "onebin":
        wmin, wmax, bins = lo - (0.2 + w["pad"]) * width, hi + (0.2 + w["pad"]) * width, 1
    else:  # fine
        wmin, wmax, bins = lo - 0.1 * width, hi + 0.1 * width, 500 + w["bins"] * 3
    wmin = max(wmin, 1.0)
    if not wmax > wmin:
        wmax = wmin + width
    d = (wmax - wmin) / bins
    if stark and fw_stark > 0:
        # known finding C02-stark-coarse-bins: bins wider than ~FWHM/2 are mis-integrated by the default
        # quadrature; while it is open, the grid is refined so that every bin is <= FWHM/2
        if is_open("C02-stark-coarse-bins") and d > 0.5 * fw_stark and not case.get("probe_known"):
            bins_new = int(math.ceil((wmax - wmin) / (0.5 * fw_stark)))
            if bins_new > 6000:      # keep the case affordable: shrink the window around the line instead
                mid = 0.5 * (lo + hi)
                wmin, wmax = max(1.0, mid - 3000 * 0.5 * fw_stark * 0.5), mid + 3000 * 0.5 * fw_stark * 0.5
                bins_new = 3000
            bins = bins_new
            d = (wmax - wmin) / bins
            ctx.label("excluded_known:stark-coarse-bins")
    ctx.label("win:" + mode)

    with ctx.cut("add_line"):
        got = add(b, case, Rr, wmin, wmax, bins)
    ctx.check(np.all(np.isfinite(got)), "finite", "non-finite samples")
    dens = max(float(got.max()), float(probe.max()))
    frac = float(got.sum() * d / (Rr * pf))
    ctx.label("frac:in" if frac > 0.99 else "frac:out" if frac < 0.01 else "frac:partial")

    # 5e-5 R = 3x the worst error measured with the default integrator over 500 sub-bin offsets and bin widths of
    # 0.1 ... 1000 FWHM (1.5e-5 R); 3e-4 R applied while the coarse-bin finding was open and grids were refined instead
    st_tol = (3e-4 if is_open("C02-stark-coarse-bins") else 5e-5) * Rr
    # (2) bin average by nesting: coarse bin = mean of its k fine sub-bins
    k = w["k"]
    if bins * k <= 12000:
        with ctx.cut("add_line"):
            fine = add(b, case, Rr, wmin, wmax, bins * k)
        agg = fine.reshape(bins, k).mean(axis=1)
        if stark:
            ctx.close(got * d, agg * d, "nesting", rtol=0, atol=2 * st_tol + STARK_TAIL * Rr)
        else:
            ctx.close(got * d, agg * d, "nesting", rtol=0, atol=1e-9 * Rr + 2e-15 * wl * dens)

    # (3) in-window fraction against an aligned, independently binned reference covering everything
    covmin, covmax = max(1.0, lo - 0.5 * width), hi + 0.5 * width
    nl = int(math.ceil((wmin - covmin) / d)) if wmin > covmin else 0
    nr = int(math.ceil((covmax - wmax) / d)) if wmax < covmax else 0
    if nl + nr + bins <= 20000 and wmin - nl * d > 0:
        with ctx.cut("add_line"):
            big = add(b, case, Rr, wmin - nl * d, wmax + nr * d, nl + bins + nr)
        inside = big[nl:nl + bins]
        if stark:
            t = big.sum() * d
            ctx.check(-st_tol <= t - Rr * pf <= st_tol + STARK_TAIL * Rr * pf, "total",
                      lambda: "stark total %r vs radiance x pol-fraction %r" % (t, Rr * pf))
            ctx.close(got.sum() * d, inside.sum() * d, "window-fraction", rtol=0, atol=2 * st_tol + STARK_TAIL * Rr)
        else:
            ctx.close(big.sum() * d, Rr * pf, "total", rtol=0, atol=1e-9 * Rr)
            ctx.close(got * d, inside * d, "window-fraction", rtol=0, atol=1e-9 * Rr + 2e-15 * wl * dens)
        ctx.label("aligned-ref")

    # (4) absolute oracle from the documented formulas
    if comps is not None:
        exp0 = expected_bins(comps, Rr, wmin, wmax, bins)
        exp1 = expected_bins(components(case, pol, sigscale=1 + 1e-9, shiftscale=1 + 3e-8), Rr, wmin, wmax, bins)
        exp2 = expected_bins(components(case, pol, sigscale=1 - 1e-9, shiftscale=1 - 3e-8), Rr, wmin, wmax, bins)
        slack = np.maximum(np.abs(exp1 - exp0), np.abs(exp2 - exp0)) * d
        if stark:
            # the code integrates the whole bin that contains a +-50 FWHM cut: allow that bin's untruncated excess
            err = np.abs(got - exp0) * d
            tol = st_tol + slack + STARK_TAIL * Rr
            bad = err > tol
        else:
            err = np.abs(got - exp0) * d
            tol = 1e-9 * Rr + 2e-15 * wl * dens + 2 * slack
            bad = err > tol
        if np.any(bad):
            i = int(np.argmax(err - tol))
            ctx.fail("absolute", "bin %d [%.9g, %.9g] nm: got %r expected %r (x bin width: err %.3g > tol %.3g); components %r"
                     % (i, wmin + i * d, wmin + (i + 1) * d, float(got[i]), float(exp0[i]), float(err[i]), float(tol[i]), comps[:4]))
        ctx.label("absolute")

    # (5) polarisation: pi + sigma = no, bin by bin, and the stated fractions
    if cls in ZEEMAN:
        with ctx.cut("add_line"):
            s_no = add(build(case, "no"), case, Rr, wmin, wmax, bins)
            s_pi = add(build(case, "pi"), case, Rr, wmin, wmax, bins)
            s_sg = add(build(case, "sigma"), case, Rr, wmin, wmax, bins)
        ctx.close((s_pi + s_sg) * d, s_no * d, "pi+sigma=no", rtol=0, atol=(1e-9 * Rr if not stark else 3 * st_tol))
        ctx.label("pi+sigma")
        # (5b) one model object whose polarisation is switched through its public property, at an unchanged plasma state: after
        # every switch it answers as a model constructed with that polarisation (bit for bit: the arithmetic is the same)
        seq = case.get("polseq") or ["pi", "sigma", "no", "pi"]
        fresh = {"no": s_no, "pi": s_pi, "sigma": s_sg}
        with ctx.cut("construct"):
            bsw = build(case, seq[0])
        for step, p_ in enumerate(seq):
            with ctx.cut("polarisation-setter"):
                if step:
                    bsw.model.polarisation = p_
                got_p = bsw.model.polarisation
                ssw = add(bsw, case, Rr, wmin, wmax, bins)
            ctx.check(got_p == p_, "polarisation-switch", lambda: "polarisation reads %r after %r was assigned" % (got_p, p_))
            ctx.check(np.array_equal(ssw, fresh[p_]), "polarisation-switch",
                      lambda: "after the switches %r the spectrum differs from that of a model constructed with polarisation %r: "
                      "integral %r vs %r (x bin width: max diff %r)" % (seq[:step + 1], p_, float(ssw.sum() * d), float(fresh[p_].sum() * d),
                                                                        float(np.max(np.abs(ssw - fresh[p_])) * d)))
        ctx.label("pol-switch")

    # (6) linearity and a zero radiance
    with ctx.cut("add_line"):
        g2 = add(b, case, 2 * Rr, wmin, wmax, bins)
        g0 = add(b, case, 0.0, wmin, wmax, bins)
    ctx.close(g2 * d, 2 * got * d, "linearity", rtol=0, atol=1e-12 * Rr + 1e-15 * dens * d)
    ctx.check(np.all(g0 == 0), "zero-radiance", "radiance 0 added something")

    # (6a) the model that has served this window is asked for windows differing from it in ONE respect only (upper limit, lower limit,
    # bin count): anything it remembered under a partial key shows against a model that has never been used (same arithmetic: bit-equal)
    dw = wmax - wmin
    for lo2, hi2, nb2 in ((wmin, wmax + 0.37 * dw, bins), (wmin - 0.21 * dw, wmax, bins), (wmin, wmax, bins + 3)):
        if lo2 <= 0:
            continue
        with ctx.cut("add_line"):
            g_used = add(b, case, Rr, lo2, hi2, nb2)
            g_new = add(build(case), case, Rr, lo2, hi2, nb2)
        ctx.check(np.array_equal(g_used, g_new), "window-one-respect",
                  lambda: "window [%r, %r] x %d after [%r, %r] x %d on the same model: differs from a never-used model by %r (x bin width)"
                  % (lo2, hi2, nb2, wmin, wmax, bins, float(np.max(np.abs(g_used - g_new)) * (hi2 - lo2) / nb2)))
    ctx.label("window-one-respect")

    # (6b) the line is *added* to what the spectrum already holds
    if case["base"]:
        with ctx.cut("add_line"):
            gb = add(b, case, Rr, wmin, wmax, bins, base=case["base"])
        ctx.close(gb, got, "adds-to-existing", rtol=0, atol=1e-14 * (case["base"] + dens))   # <= ~20 accumulated roundings
        ctx.label("baseline")

    # (6c) one model object in a non-uniform plasma: state A, state B, state A again.  Each result depends on the state at the
    # point it was asked for only: A as before, B as a fresh model in a uniform plasma of state B, A bit for bit as the first time
    if "alt" in case:
        cb = alt_case(case)
        if not (cls == "mse" and (cb["ne"] <= 0 or cb["te"] <= 0)):
            with ctx.cut("construct"):
                b2 = build(case, alt=cb)
                bref = build(cb)
                if cls == "mse":
                    bref.beam_dir = b2.beam_dir      # the beam does not change between the two states
            with ctx.cut("add_line"):
                a1 = add(b2, case, Rr, wmin, wmax, bins, state="A")
                gb2 = add(b2, case, Rr, wmin, wmax, bins, state="B")
                a2 = add(b2, case, Rr, wmin, wmax, bins, state="A")
                refb = add(bref, cb, Rr, wmin, wmax, bins)
                a3 = add(b2, case, Rr, wmin, wmax, bins, state="A")       # after another instance of the class was used
            tol2 = 1e-12 * Rr + 1e-14 * dens * d
            ctx.close(a1 * d, got * d, "two-states", rtol=0, atol=tol2, info="(first state, model in the two-state plasma vs uniform plasma)")
            ctx.close(gb2 * d, refb * d, "two-states", rtol=0, atol=tol2 + 1e-14 * float(refb.max()) * d,
                      info="(second state %r after the first: same model object vs a fresh model in a uniform plasma of that state)"
                      % ({k: cb[k] for k in ("ne", "te", "ts", "Bmag")},))
            ctx.check(np.array_equal(a1, a2), "two-states", lambda: "first state again after the second: max diff %r x bin width"
                      % float(np.max(np.abs(a1 - a2)) * d))
            ctx.check(np.array_equal(a1, a3), "two-instances", lambda: "first state again after a second model instance was built and "
                      "used: max diff %r x bin width" % float(np.max(np.abs(a1 - a3)) * d))
            ctx.label("two-states", "two-states:same-centre" if (case["alt"]["fv"] == 1.0 and (case["Bmag"] == 0 or pol == "pi")) else "two-states:moved")

    # (7) MSE: resolved components carry the stated ratios
    if cls == "mse":
        _mse_ratios(case, ctx, b, Rr, lo, hi)
        # (7b) the ratio functions are documented as functions of the electron density (and beam energy): a model whose ratio
        # functions are *frozen* at the plasma's n_e must give the same spectrum, resolved or not (each function evaluated at
        # anything else - T_e, another density - shows, because the four functions depend on n_e differently)
        with ctx.cut("construct"):
            bf = build(case, frozen_n=True)
        with ctx.cut("add_line"):
            gf = add(bf, case, Rr, wmin, wmax, bins)
        ctx.close(got * d, gf * d, "mse-ratio-arguments", rtol=0, atol=1e-12 * Rr + 1e-14 * dens * d,
                  info="(ratio functions of n_e vs the same functions frozen at n_e = %r)" % case["ne"])
        ctx.label("mse-ratio-arguments")

    # ---- non-triviality
    th = case["theta"] % 180.0
    oblique = cls in ZEEMAN and case["Bmag"] > 0 and min(th, abs(th - 90), abs(th - 180)) > 1.0
    if cls in ZEEMAN and case["Bmag"] > 0:
        ctx.label("B:oblique" if oblique else "B:aligned")
    elif cls in ZEEMAN:
        ctx.label("B:zero")
    ncomp = len(comps) if comps is not None else 9
    ctx.nt((0.01 < frac < 0.99) or oblique or ncomp >= 2 or pol != "no")


def _mse_ratios(case, ctx, b, Rr, lo, hi):
    ms = case["mse"]
    nb = 8000
    pad = 0.02 * (hi - lo) + 1e-6
    with ctx.cut("add_line"):
        s = add(b, case, Rr, lo - pad, hi + pad, nb, base=0.0)
    d = (hi - lo + 2 * pad) / nb
    nz = s > 0
    # contiguous runs of non-zero bins
    runs = []
    i = 0
    while i < nb:
        if nz[i]:
            j = i
            while j < nb and nz[j]:
                j += 1
            runs.append((i, j))
            i = j
        else:
            i += 1
    nf = _nfac(case["ne"])
    s2p = (ms["s2p"][0] + ms["s2p"][1] * ms["E"]) * nf
    dd = 1 / (1 + s2p)
    i_sig, i_pi = s2p * dd, 0.5 * dd
    s1s0, p2p3, p4p3 = ms["s1s0"] * nf, ms["p2p3"] / nf, ms["p4p3"] * nf ** 2
    s0 = 1 / (1 + s1s0)
    s1 = 0.5 * s1s0 * s0
    p3 = 1 / (1 + p2p3 + p4p3)
    p2, p4 = p2p3 * p3, p4p3 * p3
    want = [i_pi * p4, i_pi * p3, i_pi * p2, i_sig * s1, i_sig * s0, i_sig * s1, i_pi * p2, i_pi * p3, i_pi * p4]
    ctx.close(sum(want), 1.0, "mse-oracle-selfcheck", rtol=0, atol=1e-12)
    masses = [float(s[a:bb].sum() * d) for a, bb in runs]
    # resolved = nine separated peaks each holding a plausible share (spurious denormal islands are not peaks)
    # resolved = nine separated peaks each holding a plausible share (spurious denormal islands are not peaks)
    if len(runs) == 9 and min(want) >= 0.01 and all(m >= 0.25 * min(want) * Rr for m in masses):
        ctx.close(masses, [Rr * x for x in want], "mse-ratios", rtol=0, atol=1e-9 * Rr)
        ctx.label("mse-resolved")
    else:
        ctx.label("mse-unresolved")


def strategy_fine_stark():
    """Stark with a tight user-supplied integrator on a fine grid: sharp tolerance."""
    @st.composite
    def s(draw):
        case = draw(strategy().filter(lambda c: True))
        case["cls"] = "stark"
        case["stark"] = {"rel": draw(st.floats(1e-6, 1e-3)), "a": draw(st.floats(0.3, 1.2)), "b": draw(st.floats(0.01, 0.6)), "hi": True}
        case["ne"] = draw(st.floats(1e19, 1e21))
        case["te"] = draw(st.floats(0.2, 20.0))
        case["ts"] = draw(st.one_of(st.just(0.0), st.floats(0.05, 30.0)))
        case["nfw"] = draw(st.integers(2, 6))
        case["span"] = draw(st.sampled_from([8.0, 30.0, 52.0, 60.0]))
        # the integrator is configured through its public setters in a drawn order (and must then behave exactly like
        # one constructed directly with the final settings)
        case["integ_ops"] = draw(st.lists(st.one_of(
            st.tuples(st.just("min_order"), st.integers(1, 30)), st.tuples(st.just("max_order"), st.integers(30, 64)),
            st.tuples(st.just("relative_tolerance"), st.sampled_from([1e-10, 1e-10, 1e-7]))), min_size=0, max_size=4).map(lambda l: [list(x) for x in l]))
        fixed = draw(st.sampled_from([0, 0, 0, 40, 50, 64]))
        if fixed:       # a fixed-order rule (min_order == max_order), which the documented parameters allow
            case["integ_ops"] = [["max_order", 64], ["min_order", fixed], ["max_order", fixed]]
        case.pop("multiplet", None), case.pop("zs", None), case.pop("pz", None), case.pop("mse", None)
        return case
    return s()


def run_fine_stark(case, ctx):
    pol = case["pol"]
    comps = components(case, pol)
    if not comps:
        ctx.label("zero-width")
        return
    fw = max(c[4] for c in comps)
    sig = max(c[2] for c in comps)
    width = fw if fw > 0 else sig * SIG2FWHM
    ctx.label("lorentz" if comps[0][3] > 0 else "gauss-only")
    centres = [c[1] for c in comps]
    span = case["span"]
    wmin, wmax = min(centres) - span * width, max(centres) + span * width
    d_target = width / case["nfw"]
    bins = int(math.ceil((wmax - wmin) / d_target))
    if bins > 9000:
        wmin, wmax = centres[0] - span * width, centres[0] + span * width
        bins = int(math.ceil((wmax - wmin) / d_target))
        if bins > 9000:
            bins = 9000
    d = (wmax - wmin) / bins
    Rr = case["R"] if case["R"] > 0 else 1.0
    with ctx.cut("construct"):
        integ = GaussianQuadrature(relative_tolerance=1e-10)
        final = {"min_order": 1, "max_order": 50, "relative_tolerance": 1e-10}
        for name, v in case.get("integ_ops", []):
            if (name == "min_order" and v > final["max_order"]) or (name == "max_order" and v < final["min_order"]):
                continue
            setattr(integ, name, v)
            final[name] = v
        b = build(case, integrator=integ)
    with ctx.cut("add_line"):
        got = add(b, case, Rr, wmin, wmax, bins)
    if case.get("integ_ops"):
        ctx.label("integrator-setters")
        with ctx.cut("construct"):
            b2 = build(case, integrator=GaussianQuadrature(relative_tolerance=final["relative_tolerance"],
                                                           max_order=final["max_order"], min_order=final["min_order"]))
        with ctx.cut("add_line"):
            got2 = add(b2, case, Rr, wmin, wmax, bins)
        ctx.check(np.array_equal(got, got2), "integrator-setters",
                  lambda: "integrator configured through setters %r differs from one constructed with %r: max diff %r x bin width"
                  % (case["integ_ops"], final, float(np.max(np.abs(got - got2)) * d)))
    if final["min_order"] == final["max_order"]:
        # a fixed-order Gauss-Legendre rule of order >= 40: no convergence control, so only the totals are judged, loosely
        # (the kink of the profile at the line centre costs such a rule up to a few 1e-3 of the radiance in one bin)
        ctx.label("integrator:fixed-order")
        tot_g, tot_e = float(got.sum() * d), float(expected_bins(comps, Rr, wmin, wmax, bins).sum() * d)
        ctx.check(abs(tot_g - tot_e) <= 2e-2 * Rr, "fixed-order-total",
                  lambda: "fixed-order rule (order %d): total %r, expected %r" % (final["max_order"], tot_g, tot_e))
        ctx.nt(comps[0][3] > 0)
        return
    if final["relative_tolerance"] > 1e-10:
        # the sharp absolute tolerance below is stated for relative_tolerance 1e-10 (any starting order: a rule that starts
        # at a higher order stops no earlier)
        ctx.nt(comps[0][3] > 0)
        return
    if final["min_order"] > 1:
        ctx.label("integrator:min_order>1")
    exp0 = expected_bins(comps, Rr, wmin, wmax, bins)
    exp1 = expected_bins(components(case, pol, sigscale=1 + 1e-9, shiftscale=1 + 3e-8), Rr, wmin, wmax, bins)
    slack = np.abs(exp1 - exp0) * d
    # whole-bin treatment at the cut: the two bins containing +-50 FWHM of each component may hold their untruncated mass
    err = np.abs(got - exp0) * d
    tol = 2e-6 * Rr + 2 * slack
    edges = wmin + d * np.arange(bins + 1)
    for w, c, sg, lw, f in comps:
        if f > 0:
            for cutpos in (c - LCUT * f, c + LCUT * f):
                j = int(math.floor((cutpos - wmin) / d))
                for jj in (j - 1, j, j + 1):
                    if 0 <= jj < bins:
                        tol[jj] += Rr * w * lw * 1.1e-5 * d / f      # density at the cut (1.0e-5 / FWHM) x bin width
    bad = err > tol
    if np.any(bad):
        i = int(np.argmax(err - tol))
        ctx.fail("absolute-fine", "bin %d: got %r expected %r (x width: err %.3g tol %.3g) fwhm %r comps %r"
                 % (i, float(got[i]), float(exp0[i]), float(err[i]), float(tol[i]), fw, comps[:3]))
    ctx.nt(comps[0][3] > 0)


SUBCHECKS = {
    "shape": Given(strategy, run, quick=6000, thorough=150000),
    "starkfine": Given(strategy_fine_stark, run_fine_stark, quick=400, thorough=10000),
}
