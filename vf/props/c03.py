"""C03 - passive emission models radiate exactly their documented totals.

ExcitationLine / RecombinationLine / ThermalCXLine / TotalRadiatedPower / Bremsstrahlung are built scene-free
(plasma=, atomic_data= constructor arguments) on a real Plasma with 1-6 Species and called directly:
model.emission(point, direction, Spectrum).  The atomic data are the parameterised mocks of vf/mocks.py, so every
rate is a different smooth function per (element, charge, transition, donor, ...) and of all its arguments; the
oracle evaluates the documented formula in plain Python from the same functions and the generated point values.
Every model INSTANCE is evaluated at a generated sequence of 2-4 points with different plasma states (a species present at
one point and absent at the next, and the reverse) and finally at the first point again: the emission at a point must not
depend on what was evaluated before."""
import math

import numpy as np
from hypothesis import strategies as st
from scipy import constants as K
from scipy.integrate import quad

from raysect.core import Point3D, Vector3D
from raysect.optical import Spectrum
from raysect.core.math.function.vector3d import Constant3D as ConstVec3D

from cherab.core import Plasma, Species, Maxwellian, Line
from cherab.core.model import ExcitationLine, RecombinationLine, ThermalCXLine, TotalRadiatedPower, Bremsstrahlung, \
    GaussianLine, MultipletLineShape, ZeemanTriplet, ParametrisedZeemanTriplet, ZeemanMultiplet

from ..core import Given
from .. import mocks as M

ID = "C03"
RULE = ("Case = model kind x composition of 1-6 distinct species from {H, D, T, He, C, Ne} x charge 0..Z (neutrals, bare nuclei, "
        "isotopes; species a wrong selection rule would pick are added on purpose) x per-species density / temperature / flow "
        "at each of 2-4 generated evaluation points (densities and temperatures log-uniform, 10 % zero, 10 % negative, electrons 6 % each, "
        "drawn independently per point, in half of the cases one species is forced present at one point and absent at the next; profiles are "
        "Voronoi tables around the points with a linear tilt, so the value is exact at each point and different elsewhere) x n_e, T_e (same) x mock provider (tag, seed, kinds with "
        "zero coefficient) x line (element, charge, transition) x line-shape class (default, Gaussian, multiplet, Zeeman triplet, "
        "parametrised triplet, Zeeman multiplet) x spectral window / bins x pre-filled spectrum x Gaunt source (provider mock, "
        "provider Maxwellian table, user supplied). The same model instance is evaluated at the points in order (plus the pre-filled-spectrum "
        "calls) and then at the first point again, which must reproduce the first result bit for bit - and once more after two further instances of the class (same constructor defaults, other plasmas) were built and evaluated. Oracle = documented formula in plain "
        "Python, per point. Non-trivial = at some point emission > 0 and "
        "the composition contains, with positive density, a species the formula must exclude or treat specially: lines - another "
        "charge state / isotope of the line's element (exc, rec) or a bare nucleus other than the receiver or a non-bare receiver "
        "(thermal CX); total radiated power - a hydrogen isotope (neutral: summed into n_hyd, ion: not); bremsstrahlung - a "
        "neutral (excluded from the ion sum) or a charged species with non-positive density (skipped). Distinct by case hash.")
ASSUMPTIONS = ["the mock rate functions (vf/mocks.py) are evaluated identically by the model (through cpdef dispatch) and by the oracle",
               "CODATA constants from scipy.constants (the code's 2018 values differ by < 1e-8, far below the bremsstrahlung tolerance)",
               "guards are read term-wise where the documented expression is a sum: a donor / ion / hydrogen term vanishes when its own "
               "density or temperature is non-positive (this is what TotalRadiatedPower and Bremsstrahlung implement)",
               "line totals need the line shape to have a width: a target species with T <= 0 emits nothing (C02), checked as an exact zero",
               "Hutchinson eq. 5.3.40 (sqrt(2 m_e / (pi T))) is the bremsstrahlung specification; the model docstring prints m_e^3 under the "
               "root, which is dimensionally impossible (see notes/C03-brems-docstring.py)"]
TOLERANCES = {
    "line totals, TRP bins, linearity of lines / TRP": "1e-9 relative: same few multiplications both sides; the Gaussian-built shapes integrate "
                                                       "to the radiance within 1e-9 on a window of +-5 %..12 % of the wavelength (C02; +-10 sigma cut-off 1.5e-23)",
    "pre-filled spectrum": "+ 4e-16 x base x bins (one rounding per bin when the base level is subtracted again)",
    "bremsstrahlung bins": "1e-4 relative per bin + 1e-290: the model's GaussianQuadrature stops when two successive orders agree to 1e-5 relative; for an "
                           "integrand analytic over the bin the order-to-order differences fall faster than geometrically with ratio <= 1/2, so the true "
                           "error is <= 1e-5; x3 safety + 1e-8 (scipy quad epsrel, its own estimate is asserted <= 1e-6) + 5e-7 (CODATA vintages 1e-8 x exponent hc/(e Te lambda) <= 41 in the generated domain) "
                           "< 1e-4. Bin widths are generated so that the integrand varies by at most e^20 over one bin (order 50 is ample); the Maxwellian table "
                           "is a C1 piecewise cubic in log u with knots 0.2 dex apart, its curvature jumps contribute < 1e-7; a bin that contains the table's seam u = u_min = 1e-4 "
                           "(3.5 % jump to the Born approximation at Te x lambda = 1.24e7 eV nm) has a discontinuous integrand and gets no verdict (label gaunt-seam-bin; measured model error there 2.4e-4). Measured worst model-vs-quad difference over 1000 generated cases: 1.1e-6",
    "history / instance independence (first point evaluated again at the end, and again after other instances were used)": "bit equality: the same deterministic arithmetic on the same inputs",
    "bremsstrahlung linearity": "2e-4 of the largest bin involved (three independent quadratures)",
}
REQUIRED_LABELS = ["lines:exc", "lines:rec", "lines:tcx", "lines:guard:ne", "lines:guard:te", "lines:guard:target-n", "lines:guard:target-t",
                   "lines:tcx:bare-excluded", "lines:tcx:receiver-not-bare", "lines:linearity", "trp:hyd-neutral", "trp:hyd-ion", "trp:guard:ne",
                   "trp:linearity", "brems:neutral", "brems:nonpos-ion", "brems:gaunt:user-mock", "brems:gaunt:provider-maxwellian",
                   "brems:gaunt:provider-mock", "brems:linearity",
                   "lines:seq:absent-after-present", "lines:seq:present-after-absent", "trp:seq:absent-after-present",
                   "trp:seq:present-after-absent", "brems:seq:absent-after-present", "brems:seq:present-after-absent",
                   "lines:tcx:seq:donor:absent-after-present"]

ELS = {"hydrogen": 1, "deuterium": 1, "tritium": 1, "helium": 2, "carbon": 6, "neon": 10}
HYD = ("hydrogen", "deuterium", "tritium")
FOUR_PI = 4.0 * math.pi
SHAPES = ["default", "gaussian", "multiplet", "ztriplet", "pztriplet", "zmultiplet"]


# ----------------------------------------------------------------------------------------------- strategies
@st.composite
def _value(draw, lo, hi, modes="ppzppppnpp"):
    """log-uniform positive (80 %), exactly 0 (10 %) or negative (10 %); electrons: 1/16 each."""
    mode = draw(st.sampled_from(modes))
    x = 10.0 ** draw(st.floats(math.log10(lo), math.log10(hi)))
    return x if mode == "p" else 0.0 if mode == "z" else -x


@st.composite
def _pos(draw, lo, hi):
    return 10.0 ** draw(st.floats(math.log10(lo), math.log10(hi)))


@st.composite
def _spec(draw, el, q, sure=False):
    return {"el": el, "q": q,
            "n": draw(_pos(1e15, 1e21)) if sure else draw(_value(1e15, 1e21)),
            "t": draw(_pos(0.05, 2000.0)) if sure else draw(_value(0.05, 2000.0)),
            "v": [draw(st.floats(-1e5, 1e5)) for _ in range(3)]}


@st.composite
def _any_key(draw):
    el = draw(st.sampled_from(sorted(ELS)))
    z = ELS[el]
    return (el, draw(st.one_of(st.just(0), st.just(z), st.integers(0, z))))


@st.composite
def _common(draw):
    return {"ne": draw(_value(1e17, 1e21, "ppppzppppppnpppp")), "te": draw(_value(0.3, 1e4, "pppppnppppzppppp")),
            "point": [draw(st.floats(-2.0, 2.0)) for _ in range(3)],
            "grad": draw(st.one_of(st.just([0.0, 0.0, 0.0]), st.lists(st.floats(-0.4, 0.4), min_size=3, max_size=3))),
            "dir": [draw(st.floats(-1.0, 1.0)) for _ in range(3)],
            "B": draw(st.one_of(st.just([0.0, 0.0, 0.0]), st.lists(st.floats(-5.0, 5.0), min_size=3, max_size=3))),
            "ad": {"tag": draw(st.sampled_from(["A", "B"])), "seed": draw(st.integers(0, 2 ** 31 - 1))},
            "base": draw(st.sampled_from([0.0, 0.0, 0.5])),
            "lin": {"j": draw(st.integers(0, 11)), "k": draw(st.sampled_from([0.25, 0.5, 2.0, 3.0, 7.5]))}}


def _fix_hyd(vals, species):
    """n_hyd is documented as the *total* neutral hydrogen density: a negative isotope density next to a positive one makes
    "total" and "term-wise guard" disagree -> outside the domain, the negative one is set to zero.  vals = [[n, t], ...]"""
    hn = [i for i, s in enumerate(species) if s["el"] in HYD and s["q"] == 0]
    if any(vals[i][0] > 0 for i in hn):
        for i in hn:
            if vals[i][0] < 0:
                vals[i][0] = 0.0


def _add_seq(draw, case, hyd=False):
    """1-3 further evaluation points, each with its own electron and species values; in half of the cases one species is made
    present at one point and absent (n <= 0) at the next, or the reverse."""
    sp = case["species"]
    seq = []
    pts = [case["point"]]
    for k in range(draw(st.integers(1, 3))):
        p = [draw(st.floats(-2.0, 2.0)) for _ in range(3)]
        if any(sum((a - b) ** 2 for a, b in zip(p, o)) < 1e-2 for o in pts):
            p = [pts[0][0] + 3.0 * (k + 1), p[1], p[2]]          # keep the points distinct (>= 0.1 apart)
        pts.append(p)
        seq.append({"point": p, "ne": draw(_value(1e17, 1e21, "ppppzppppppnpppp")), "te": draw(_value(0.3, 1e4, "pppppnppppzppppp")),
                    "sp": [[draw(_value(1e15, 1e21)), draw(_value(0.05, 2000.0))] for _ in sp]})
    if draw(st.booleans()):
        r = draw(st.integers(0, len(sp) - 1))
        k = draw(st.integers(1, len(seq)))
        gone = draw(st.sampled_from([0.0, -1e17]))
        first_present = draw(st.booleans())
        vals = [[sp[r]["n"], sp[r]["t"]]] + [v["sp"][r] for v in seq]
        a, b = (k - 1, k) if first_present else (k, k - 1)
        vals[a][0] = abs(vals[a][0]) or 1e18
        vals[a][1] = abs(vals[a][1]) or 10.0
        vals[b][0] = gone
        sp[r]["n"], sp[r]["t"] = vals[0]
        for v in (case, seq[k - 1]):
            if v["ne"] <= 0:
                v["ne"] = abs(v["ne"]) or 1e19
            if v["te"] <= 0:
                v["te"] = abs(v["te"]) or 10.0
        if k >= 2:
            for name, dflt in (("ne", 1e19), ("te", 10.0)):
                if seq[k - 2][name] <= 0:
                    seq[k - 2][name] = abs(seq[k - 2][name]) or dflt
    if hyd:
        v0 = [[s["n"], s["t"]] for s in sp]
        _fix_hyd(v0, sp)
        for s, v in zip(sp, v0):
            s["n"] = v[0]
        for stt in seq:
            _fix_hyd(stt["sp"], sp)
    case["seq"] = seq


def _assemble(draw, required, optional, n_extra_max):
    """required keys first; optional ones each with probability 1/2; random extras; at most 6 distinct; shuffled."""
    keys = list(required)
    for k in optional:
        el, q = k
        if 0 <= q <= ELS[el] and k not in keys and draw(st.booleans()):
            keys.append(k)
    for _ in range(draw(st.integers(0, n_extra_max))):
        k = draw(_any_key())
        if k not in keys:
            keys.append(k)
    keys = keys[:6]
    return draw(st.permutations(keys))


@st.composite
def strategy_lines(draw):
    case = draw(_common())
    kind = draw(st.sampled_from(["exc", "rec", "tcx", "tcx"]))
    el = draw(st.sampled_from(sorted(ELS)))
    z = ELS[el]
    q = draw(st.one_of(st.just(0), st.just(z - 1), st.integers(0, z - 1)))
    up = draw(st.integers(2, 9))
    tr = [up, draw(st.integers(1, up - 1))]
    tq = q if kind == "exc" else q + 1
    optional = [(el, q), (el, q + 1), (el, q - 1), (el, q + 2)]
    if el in HYD:
        optional += [(iso, c) for iso in HYD if iso != el for c in (0, 1)]
    if kind == "tcx":
        optional += [("deuterium", 0), ("hydrogen", 0), ("helium", 2), ("carbon", 6), ("helium", 1), ("deuterium", 1)]
    keys = _assemble(draw, [(el, tq)], optional, 4)
    sure_target = draw(st.sampled_from([True, True, True, False]))
    case.update({"kind": kind, "line": {"el": el, "q": q, "tr": tr},
                 "species": [draw(_spec(e, c, sure=(sure_target and (e, c) == (el, tq)))) for e, c in keys],
                 "shape": draw(st.sampled_from(SHAPES)),
                 "win": {"lo": draw(st.floats(0.05, 0.12)), "hi": draw(st.floats(0.05, 0.12)), "bins": draw(st.integers(1, 64))}})
    if draw(st.sampled_from([False] * 5 + [True] + [False] * 6)):
        case["ad"]["zero"] = [{"exc": "impact_excitation_pec", "rec": "recombination_pec", "tcx": "thermal_cx_pec"}[kind]]
    if case["shape"] == "multiplet":
        n = draw(st.integers(1, 5))
        num = [draw(st.integers(1, 16)) for _ in range(n)]
        tot = sum(num)
        den = 1 << (tot - 1).bit_length()
        num[-1] += den - tot          # dyadic ratios: they sum to exactly 1.0 as the constructor demands
        case["multiplet"] = {"offs": [draw(st.floats(-8e-3, 8e-3)) for _ in range(n)], "num": num, "den": den}
    _add_seq(draw, case)
    return case


@st.composite
def strategy_trp(draw):
    case = draw(_common())
    el = draw(st.sampled_from(sorted(ELS)))
    z = ELS[el]
    q = draw(st.one_of(st.just(0), st.just(z - 1), st.integers(0, z - 1)))
    optional = [("hydrogen", 0), ("deuterium", 0), ("tritium", 0), ("hydrogen", 1), ("deuterium", 1), ("tritium", 1),
                ("deuterium", 0), (el, q - 1), (el, q + 2)]
    keys = _assemble(draw, [(el, q), (el, q + 1)], optional, 2)
    sure = draw(st.booleans())
    species = [draw(_spec(e, c, sure=(sure and e == el and c in (q, q + 1)))) for e, c in keys]
    zero = [k for k in ("line_radiated_power_rate", "continuum_radiated_power_rate", "cx_radiated_power_rate") if draw(st.sampled_from([False] * 4 + [True] + [False] * 5))]
    if zero:
        case["ad"]["zero"] = zero
    case.update({"kind": "trp", "trp": {"el": el, "q": q}, "species": species,
                 "win": {"min": draw(st.floats(1.0, 1000.0)), "width": draw(_pos(0.5, 2000.0)), "bins": draw(st.integers(1, 32))}})
    _add_seq(draw, case, hyd=True)
    return case


@st.composite
def strategy_brems(draw):
    case = draw(_common())
    keys = _assemble(draw, [], [("deuterium", 1), ("deuterium", 0), ("carbon", 6), ("helium", 0), ("neon", 10), ("helium", 2)], 4)
    if not keys:
        keys = [draw(_any_key())]
    wmin = draw(st.floats(100.0, 1500.0))
    bins = draw(st.integers(1, 16))
    width = draw(_pos(5.0, 600.0))
    case.update({"kind": "brems", "species": [draw(_spec(e, c)) for e, c in keys],
                 "gaunt": draw(st.sampled_from(["provider-mock", "provider-maxwellian", "user-mock"])),
                 "useed": draw(st.integers(0, 2 ** 31 - 1))})
    _add_seq(draw, case)
    tes = [t for t in [case["te"]] + [v["te"] for v in case["seq"]] if t > 0]
    if tes:
        # keep the integrand's variation over one bin below e^20 (d ln f / d lambda <= hc / (e Te lambda_min^2)) at every point
        width = min(width, bins * 20.0 * min(tes) * wmin * wmin / 1239.84)
    case["win"] = {"min": wmin, "width": width, "bins": bins}
    case["ad"]["gaunt"] = "maxwellian" if case["gaunt"] == "provider-maxwellian" else "mock"
    return case


# ----------------------------------------------------------------------------------------------- building real objects
class Built:
    pass


def at(case, k):
    """The case as seen at its k-th evaluation point: same dict layout with scalar ne / te / n / t and 'point'."""
    if k == 0:
        return case
    stt = case["seq"][k - 1]
    return dict(case, point=stt["point"], ne=stt["ne"], te=stt["te"],
                species=[dict(s, n=v[0], t=v[1]) for s, v in zip(case["species"], stt["sp"])])


def states(case):
    return [at(case, k) for k in range(1 + len(case.get("seq", [])))]


def _prof(vals, sts, grad, i):
    """Voronoi table around the evaluation points with a linear tilt: exactly vals[k] at point k."""
    if len(sts) == 1 and not any(grad):
        return float(vals[0])
    return M.profile({"kind": "points", "pts": [c["point"] for c in sts], "vals": vals,
                      "g": [grad[i % 3], grad[(i + 1) % 3], grad[(i + 2) % 3]]})


def build(case, scale=None):
    """Real Plasma + Species whose profiles take the case's values at every evaluation point;
    scale = {species index: factor applied to that species' density everywhere}."""
    scale = scale or {}
    sts = states(case)
    g = case["grad"]
    b = Built()
    plasma = Plasma()
    plasma.b_field = ConstVec3D(Vector3D(*case["B"]))
    plasma.electron_distribution = Maxwellian(_prof([c["ne"] for c in sts], sts, g, 1), _prof([c["te"] for c in sts], sts, g, 2),
                                              ConstVec3D(Vector3D(0, 0, 0)), K.m_e)
    sp = []
    for i, s in enumerate(case["species"]):
        el = M.element(s["el"])
        f = scale.get(i, 1.0)
        sp.append(Species(el, s["q"], Maxwellian(_prof([f * c["species"][i]["n"] for c in sts], sts, g, i),
                                                 _prof([c["species"][i]["t"] for c in sts], sts, g, i + 1),
                                                 ConstVec3D(Vector3D(*s["v"])), el.atomic_weight * K.atomic_mass)))
    plasma.composition = sp
    b.plasma, b.species = plasma, sp
    b.ad = M.MockAtomicData(case["ad"])
    d = case["dir"]
    nrm = math.sqrt(sum(x * x for x in d))
    d = [x / nrm for x in d] if nrm > 1e-3 else [0.6, 0.0, 0.8]
    b.direction = Vector3D(*d)
    return b


def emit(b, model, cs, wmin, wmax, bins, base=0.0):
    """model.emission at the evaluation point of the state `cs`."""
    s = Spectrum(wmin, wmax, bins)
    if base:
        s.samples[:] = base
    out = model.emission(Point3D(*cs["point"]), b.direction, s)
    return np.array(out.samples)


def find(case, el, q):
    for i, s in enumerate(case["species"]):
        if s["el"] == el and s["q"] == q:
            return i
    return None


def history(ctx, b, model, sts, first, wmin, wmax, bins, name="history", after=None):
    """The first point again, after everything else - including one evaluation into a spectrum with another range and another
    number of bins (anything remembered from that call, e.g. a normalisation by the spectral range, would show): must reproduce
    the first evaluation bit for bit."""
    with ctx.cut("emission"):
        other = emit(b, model, sts[-1], wmin * 0.75, wmax * 1.5 + 10.0, bins + 3)
    ctx.check(np.all(np.isfinite(other)), name, "non-finite samples for another spectral window")
    with ctx.cut("emission"):
        again = emit(b, model, sts[0], wmin, wmax, bins)
    if not np.array_equal(again, first):
        i = int(np.argmax(np.abs(again - first)))
        ctx.fail(name, "the same model at the same point gave %r the first time and %r after %s (bin %d): "
                 "the emission depends on %s" % (float(first[i]), float(again[i]), after or "%d other point(s)" % (len(sts) - 1), i,
                                                 "other live instances of the same class" if after else "previously evaluated points"))


def instances(ctx, b, model, sts, first, wmin, wmax, bins):
    """Models are independent objects: after further instances of the same class were built (with the same constructor defaults)
    on other plasmas and evaluated, the first model still returns what it returned at first (class-level / default-argument
    state shared between instances would show here)."""
    history(ctx, b, model, sts, first, wmin, wmax, bins, name="instances",
            after="two more instances of the class were built on other plasmas and evaluated")
    ctx.label("instances")


def seq_labels(ctx, sts, idxs, use_t, prefix="seq", need=None):
    """absent-after-present / present-after-absent for the involved species `idxs` between points with live electrons."""
    def pres(c, i):
        s = c["species"][i]
        return s["n"] > 0 and (s["t"] > 0 or not use_t)
    live = [c["ne"] > 0 and c["te"] > 0 and (need is None or need(c)) for c in sts]
    aap = pap = False
    for i in idxs:
        for k in range(1, len(sts)):
            if live[k] and live[k - 1]:
                now, before = pres(sts[k], i), pres(sts[k - 1], i)
                aap |= before and not now
                pap |= now and not before
    if aap:
        ctx.label(prefix + ":absent-after-present")
    if pap:
        ctx.label(prefix + ":present-after-absent")
    if prefix == "seq":
        ctx.label("points:%d" % len(sts))


# ----------------------------------------------------------------------------------------------- line models
LINE_CLS = {"exc": ExcitationLine, "rec": RecombinationLine, "tcx": ThermalCXLine}
LINE_KIND = {"exc": "impact_excitation_pec", "rec": "recombination_pec", "tcx": "thermal_cx_pec"}


def line_model(case, b):
    ln = case["line"]
    line = Line(M.element(ln["el"]), ln["q"], tuple(ln["tr"]))
    shape = case["shape"]
    kw = {}
    if shape == "gaussian":
        kw["lineshape"] = GaussianLine
    elif shape == "multiplet":
        mu = case["multiplet"]
        wl = M.wavelength_fn(case["ad"], ln["el"], ln["q"], ln["tr"])
        kw["lineshape"] = MultipletLineShape
        kw["lineshape_args"] = [[[wl * (1 + o) for o in mu["offs"]], [n / mu["den"] for n in mu["num"]]]]
    elif shape == "ztriplet":
        kw["lineshape"] = ZeemanTriplet
        kw["lineshape_kwargs"] = {"polarisation": "no"}
    elif shape == "pztriplet":
        kw["lineshape"] = ParametrisedZeemanTriplet      # parameters come from the provider
    elif shape == "zmultiplet":
        kw["lineshape"] = ZeemanMultiplet                # structure comes from the provider
    return LINE_CLS[case["kind"]](line, plasma=b.plasma, atomic_data=b.ad, **kw)


def line_terms(case, dens=None):
    """Documented radiance split into per-species terms: {species index: contribution to the radiance}, target index.
    exc: n_i n_e PEC / 4pi, rec: n_{i+1} n_e PEC / 4pi, tcx: n_{i+1} sum_d n_d PEC_d(n_e, T_e, T_d) / 4pi."""
    ln, kind, sp = case["line"], case["kind"], case["species"]
    dens = dens or {}
    ne, te = case["ne"], case["te"]
    ti = find(case, ln["el"], ln["q"] if kind == "exc" else ln["q"] + 1)
    nt = dens.get(ti, sp[ti]["n"])
    if ne <= 0 or te <= 0 or nt <= 0:
        return {}, ti
    if kind in ("exc", "rec"):
        pec = M.rate_fn(case["ad"], LINE_KIND[kind], ln["el"], ln["q"], ln["tr"])
        return {ti: nt * ne * pec(ne, te) / FOUR_PI}, ti
    terms = {}
    for i, s in enumerate(sp):
        if i == ti or s["q"] >= ELS[s["el"]]:
            continue                                   # the receiver itself and fully stripped ions donate nothing
        nd = dens.get(i, s["n"])
        if nd <= 0 or s["t"] <= 0:
            continue                                   # term-wise guard
        pec = M.rate_fn(case["ad"], "thermal_cx_pec", s["el"], s["q"], ln["el"], ln["q"] + 1, ln["tr"])
        terms[i] = nt * nd * pec(ne, te, s["t"]) / FOUR_PI
    return terms, ti


def _lines_point(cs, ctx, b, model, k, wmin, wmax, bins):
    """One evaluation of the (shared) model at point k against the documented expression for that point.
    Returns (samples, terms or None when the emission must be zero, non-trivial flag)."""
    kind, ln, sp = cs["kind"], cs["line"], cs["species"]
    d = (wmax - wmin) / bins
    terms, ti = line_terms(cs)
    R = math.fsum(terms.values())
    tgt = sp[ti]
    where = "point %d: " % k
    with ctx.cut("emission"):
        got = emit(b, model, cs, wmin, wmax, bins)
    ctx.check(np.all(np.isfinite(got)), "finite", where + "non-finite samples")
    ctx.check(np.all(got >= 0.0), "non-negative", lambda: where + "negative spectral radiance %r with non-negative coefficients" % float(got.min()))
    if kind == "tcx" and any(i != ti and s["q"] < ELS[s["el"]] and (s["n"] < 0 or (s["t"] <= 0 and s["n"] != 0)) for i, s in enumerate(sp)):
        ctx.label("tcx:donor-nonpos")

    # ---- guards: exact zero
    reason = None
    if cs["ne"] <= 0:
        reason = "ne"
    elif cs["te"] <= 0:
        reason = "te"
    elif tgt["n"] <= 0:
        reason = "target-n"
    elif R == 0.0:
        reason = "zero-coefficient" if cs["ad"].get("zero") else "no-donor"
    elif tgt["t"] <= 0:
        reason = "target-t"
    if reason is not None:
        ctx.label("guard:" + reason)
        ctx.check(np.all(got == 0.0), "guard", lambda: where + "emission must be zero (%s) but max sample is %r" % (reason, float(np.abs(got).max())))
        with ctx.cut("emission"):
            gb = emit(b, model, cs, wmin, wmax, bins, base=0.5)
        ctx.check(np.all(gb == 0.5), "guard", lambda: where + "pre-filled spectrum changed although emission must be zero (%s)" % reason)
        return got, None, False

    # ---- total on a window containing the whole line
    ctx.close(float(got.sum() * d), R, "total", rtol=1e-9,
              info="(point %d: %s %s%d+ %r, target n=%r, ne=%r te=%r; terms %r)" % (k, kind, ln["el"], ln["q"], ln["tr"], tgt["n"], cs["ne"], cs["te"], terms))
    if cs["base"]:
        base = cs["base"] * R / (wmax - wmin)
        with ctx.cut("emission"):
            gb = emit(b, model, cs, wmin, wmax, bins, base=base)
        ctx.close(float((gb - base).sum() * d), R, "adds-to-existing", rtol=1e-9, atol=4e-16 * base * bins * d, info="(point %d)" % k)
        ctx.label("baseline")

    # ---- class labels and non-triviality
    if kind == "tcx":
        other_bare = any(i != ti and s["q"] >= ELS[s["el"]] and s["n"] > 0 for i, s in enumerate(sp))
        rec_not_bare = ln["q"] + 1 < ELS[ln["el"]]
        if other_bare:
            ctx.label("tcx:bare-excluded")
        if rec_not_bare:
            ctx.label("tcx:receiver-not-bare")
        ctx.label("tcx:donors:%d" % min(len(terms), 3))
        return got, terms, other_bare or rec_not_bare
    fam = HYD if ln["el"] in HYD else (ln["el"],)
    confusable = any(i != ti and s["el"] in fam and s["n"] > 0 for i, s in enumerate(sp))
    if confusable:
        ctx.label("confusable-present")
    return got, terms, confusable


def run_lines(case, ctx):
    kind, ln = case["kind"], case["line"]
    ctx.label(kind, "shape:" + case["shape"])
    sts = states(case)
    with ctx.cut("construct"):
        b = build(case)
        model = line_model(case, b)
    wl = M.wavelength_fn(case["ad"], ln["el"], ln["q"], ln["tr"])
    w = case["win"]
    wmin, wmax, bins = wl * (1 - w["lo"]), wl * (1 + w["hi"]), w["bins"]
    d = (wmax - wmin) / bins

    # ---- the same model instance at every point in turn, then the first point again
    res = [_lines_point(cs, ctx, b, model, k, wmin, wmax, bins) for k, cs in enumerate(sts)]
    # the same model asked for another spectral range and bin count: judged by the same oracle
    _lines_point(sts[-1], ctx, b, model, len(sts) - 1, wmin * 0.75, wmax * 1.5 + 10.0, bins + 3)
    # ... and for windows that differ from the first in ONE respect only: other width with the same bin count, same window with
    # another bin count (anything remembered under a partial key - bin count, lower limit - shows in one of them)
    _lines_point(sts[-1], ctx, b, model, len(sts) - 1, wmin, wmax * 1.25 + 3.0, bins)
    _lines_point(sts[0], ctx, b, model, 0, wmin * 0.8, wmax, bins)
    _lines_point(sts[0], ctx, b, model, 0, wmin, wmax, bins + 5)
    history(ctx, b, model, sts, res[0][0], wmin, wmax, bins)
    ti = find(case, ln["el"], ln["q"] if kind == "exc" else ln["q"] + 1)
    donors = [i for i, s in enumerate(case["species"]) if i != ti and s["q"] < ELS[s["el"]]] if kind == "tcx" else []
    seq_labels(ctx, sts, [ti] + donors, True)
    if donors:
        seq_labels(ctx, sts, donors, True, prefix="tcx:seq:donor",
                   need=lambda c: c["species"][ti]["n"] > 0 and c["species"][ti]["t"] > 0)
    ctx.nt(any(r[2] for r in res))

    # ---- linearity in one involved density at the first emitting point: E(k n_j) = E(0) + k (E(n_j) - E(0)), bin by bin
    live = [k for k, r in enumerate(res) if r[1] is not None]
    if not live:
        return
    cs, (got, terms, _) = sts[live[0]], res[live[0]]
    sp = cs["species"]
    involved = sorted(terms)
    if ti not in involved:
        involved.append(ti)
    j = involved[case["lin"]["j"] % len(involved)]
    k = case["lin"]["k"]
    with ctx.cut("emission"):
        bk = build(case, {j: k})
        gk = emit(bk, line_model(case, bk), cs, wmin, wmax, bins)
        b0 = build(case, {j: 0.0})
        g0 = emit(b0, line_model(case, b0), cs, wmin, wmax, bins)
    scale = max(float(got.max()), float(gk.max()))
    ctx.close(gk, g0 + k * (got - g0), "linearity", rtol=1e-9, scale=scale,
              info="(point %d, density of species %d %s%d+ scaled by %r)" % (live[0], j, sp[j]["el"], sp[j]["q"], k))
    tk, _ = line_terms(cs, {j: k * sp[j]["n"]})
    ctx.close(float(gk.sum() * d), math.fsum(tk.values()), "total", rtol=1e-9, info="(point %d after scaling species %d by %r)" % (live[0], j, k))
    ctx.label("linearity", "linearity:target" if j == ti else "linearity:donor")
    instances(ctx, b, model, sts, res[0][0], wmin, wmax, bins)


# ----------------------------------------------------------------------------------------------- total radiated power
def trp_terms(case, dens=None):
    """power density W/m^3 split as {"exc": .., "rec": .., "cx": ..} from the documented three-term sum."""
    dens = dens or {}
    t, sp = case["trp"], case["species"]
    ne, te = case["ne"], case["te"]
    if ne <= 0 or te <= 0:
        return {}

    def n_of(i):
        return dens.get(i, sp[i]["n"])
    i0, i1 = find(case, t["el"], t["q"]), find(case, t["el"], t["q"] + 1)
    ni, nu = n_of(i0), n_of(i1)
    nhyd = math.fsum(n_of(i) for i, s in enumerate(sp) if s["el"] in HYD and s["q"] == 0)
    out = {}
    if ni > 0:
        out["exc"] = ni * ne * M.rate_fn(case["ad"], "line_radiated_power_rate", t["el"], t["q"])(ne, te)
    if nu > 0:
        out["rec"] = nu * ne * M.rate_fn(case["ad"], "continuum_radiated_power_rate", t["el"], t["q"] + 1)(ne, te)
    if nu > 0 and nhyd > 0:
        out["cx"] = nu * nhyd * M.rate_fn(case["ad"], "cx_radiated_power_rate", t["el"], t["q"] + 1)(ne, te)
    return out


def _trp_point(cs, ctx, b, model, k, wmin, wmax, bins):
    t, sp = cs["trp"], cs["species"]
    terms = trp_terms(cs)
    P = math.fsum(terms.values())
    want = P / (FOUR_PI * (wmax - wmin))
    where = "point %d: " % k
    with ctx.cut("emission"):
        got = emit(b, model, cs, wmin, wmax, bins)
    ctx.check(np.all(np.isfinite(got)), "finite", where + "non-finite samples")
    ctx.check(np.all(got >= 0.0), "non-negative", lambda: where + "negative spectral radiance %r" % float(got.min()))
    if cs["ne"] <= 0 or cs["te"] <= 0 or P == 0.0:
        ctx.label("guard:" + ("ne" if cs["ne"] <= 0 else "te" if cs["te"] <= 0 else "all-terms-zero"))
        ctx.check(np.all(got == 0.0), "guard", lambda: where + "emission must be zero but max sample is %r" % float(np.abs(got).max()))
        with ctx.cut("emission"):
            gb = emit(b, model, cs, wmin, wmax, bins, base=0.5)
        ctx.check(np.all(gb == 0.5), "guard", where + "pre-filled spectrum changed although emission must be zero")
        return got, None, False
    info = "(point %d: TRP %s%d+, terms %r, ne=%r te=%r)" % (k, t["el"], t["q"], terms, cs["ne"], cs["te"])
    ctx.close(got, np.full(bins, want), "uniform-bins", rtol=1e-9, info=info)
    ctx.close(float(got.sum() * (wmax - wmin) / bins), P / FOUR_PI, "total", rtol=1e-9, info=info)
    if cs["base"]:
        base = cs["base"] * want
        with ctx.cut("emission"):
            gb = emit(b, model, cs, wmin, wmax, bins, base=base)
        ctx.close(gb - base, np.full(bins, want), "adds-to-existing", rtol=1e-9, atol=4e-16 * base, info="(point %d)" % k)
        ctx.label("baseline")
    for name in ("exc", "rec", "cx"):
        if name in terms:
            ctx.label("term:" + name)
    hyd_neutral = any(s["el"] in HYD and s["q"] == 0 and s["n"] > 0 for s in sp)
    hyd_ion = any(s["el"] in HYD and s["q"] == 1 and s["n"] > 0 and not (s["el"] == t["el"]) for s in sp)
    if hyd_neutral:
        ctx.label("hyd-neutral")
    if hyd_ion:
        ctx.label("hyd-ion")
    return got, terms, hyd_neutral or hyd_ion


def run_trp(case, ctx):
    t = case["trp"]
    sts = states(case)

    def make(b):
        return TotalRadiatedPower(M.element(t["el"]), t["q"], plasma=b.plasma, atomic_data=b.ad)
    with ctx.cut("construct"):
        b = build(case)
        model = make(b)
    w = case["win"]
    wmin, wmax, bins = w["min"], w["min"] + w["width"], w["bins"]
    res = [_trp_point(cs, ctx, b, model, k, wmin, wmax, bins) for k, cs in enumerate(sts)]
    _trp_point(sts[-1], ctx, b, model, len(sts) - 1, wmin * 0.75, wmax * 1.5 + 10.0, bins + 3)      # other range, same oracle
    _trp_point(sts[-1], ctx, b, model, len(sts) - 1, wmin, wmax * 1.25 + 3.0, bins)                 # one respect only: width
    _trp_point(sts[0], ctx, b, model, 0, wmin * 0.8, wmax, bins)                                    # lower limit
    _trp_point(sts[0], ctx, b, model, 0, wmin, wmax, bins + 5)                                      # bin count
    history(ctx, b, model, sts, res[0][0], wmin, wmax, bins)
    i0, i1 = find(case, t["el"], t["q"]), find(case, t["el"], t["q"] + 1)
    hyd = [i for i, s in enumerate(case["species"]) if s["el"] in HYD and s["q"] == 0]
    seq_labels(ctx, sts, sorted(set([i0, i1] + hyd)), False)
    ctx.nt(any(r[2] for r in res))

    # ---- linearity in one involved density at the first emitting point
    live = [k for k, r in enumerate(res) if r[1] is not None]
    if not live:
        return
    cs, got = sts[live[0]], res[live[0]][0]
    sp = cs["species"]
    involved = sorted(set(i for i in [i0, i1] + hyd if sp[i]["n"] > 0))
    if involved:
        j = involved[case["lin"]["j"] % len(involved)]
        k = case["lin"]["k"]
        with ctx.cut("emission"):
            bk = build(case, {j: k})
            gk = emit(bk, make(bk), cs, wmin, wmax, bins)
            b0 = build(case, {j: 0.0})
            g0 = emit(b0, make(b0), cs, wmin, wmax, bins)
        ctx.close(gk, g0 + k * (got - g0), "linearity", rtol=1e-9, scale=max(float(got.max()), float(gk.max())),
                  info="(point %d, density of species %d %s%d+ scaled by %r)" % (live[0], j, sp[j]["el"], sp[j]["q"], k))
        pk = math.fsum(trp_terms(cs, {j: k * sp[j]["n"]}).values())
        ctx.close(gk, np.full(bins, pk / (FOUR_PI * (wmax - wmin))), "uniform-bins", rtol=1e-9,
                  info="(point %d after scaling species %d by %r)" % (live[0], j, k))
        ctx.label("linearity")
        instances(ctx, b, model, sts, res[0][0], wmin, wmax, bins)


# ----------------------------------------------------------------------------------------------- bremsstrahlung
# Hutchinson, Principles of Plasma Diagnostics, eq. 5.3.40, converted to W / m^3 / sr / nm (T_e in eV, lambda in nm)
BREMS_CONST = ((K.e ** 2 / (4 * math.pi * K.epsilon_0)) ** 3
               * 32 * math.pi ** 2 / (3 * math.sqrt(3) * K.m_e ** 2 * K.c ** 3)
               * math.sqrt(2 * K.m_e / (math.pi * K.e))
               * K.c * 1e9 / (4 * math.pi))
EXP_FACTOR = 1e9 * K.h * K.c / K.e


def brems_gaunt(case):
    """(object to pass as gaunt_factor= or None, plain callable g(z, te, wavelength) the model must end up using)."""
    if case["gaunt"] == "user-mock":
        fn = M.rate_fn({"tag": "U", "seed": case["useed"]}, "free_free_gaunt_factor")
        return M.MockGauntFactor(fn), fn
    return None, M.gaunt_fn(case["ad"])


def brems_density(case, g, dens=None):
    dens = dens or {}
    ne, te = case["ne"], case["te"]
    ions = [(float(s["q"]), dens.get(i, s["n"])) for i, s in enumerate(case["species"]) if s["q"] > 0]
    ions = [(z, n) for z, n in ions if n > 0]

    def eps(wvl):
        acc = 0.0
        for z, n in ions:
            acc += n * g(z, te, wvl) * z * z
        return BREMS_CONST / (math.sqrt(te) * wvl * wvl) * ne * acc * math.exp(-EXP_FACTOR / (te * wvl))
    return eps, ions


def brems_bins(case, g, wmin, wmax, bins, dens=None):
    eps, ions = brems_density(case, g, dens)
    d = (wmax - wmin) / bins
    out, rel = np.zeros(bins), np.zeros(bins)
    if not ions:
        return out, rel
    for i in range(bins):
        val, err = quad(eps, wmin + i * d, wmin + (i + 1) * d, epsabs=0.0, epsrel=1e-9, limit=200)
        out[i] = val / d
        if val > 0:
            rel[i] = err / val
    return out, rel


def seam_mask(cs, wmin, wmax, bins):
    """True for bins the verdict covers.  The real Maxwellian table switches to the Born approximation at u = hc/(e Te lambda) = u_min
    (and to 1 at u_max) with a JUMP of a few per cent; a bin containing such a seam has a discontinuous integrand, for which the
    model's fixed-node quadrature has no 1e-5 bound (measured 2.4e-4): no verdict for that bin."""
    mask = np.ones(bins, dtype=bool)
    if cs["gaunt"] != "provider-maxwellian" or cs["te"] <= 0:
        return mask
    d = (wmax - wmin) / bins
    for u in M.maxwellian_gaunt().u_range:
        seam = EXP_FACTOR / (cs["te"] * u)
        for i in range(bins):
            if wmin + i * d - 1e-6 * seam <= seam <= wmin + (i + 1) * d + 1e-6 * seam:
                mask[i] = False
    return mask


def _brems_point(cs, ctx, b, model, g, k, wmin, wmax, bins):
    sp = cs["species"]
    where = "point %d: " % k
    with ctx.cut("emission"):
        got = emit(b, model, cs, wmin, wmax, bins)
    ctx.check(np.all(np.isfinite(got)), "finite", where + "non-finite samples")
    ctx.check(np.all(got >= 0.0), "non-negative", lambda: where + "negative spectral radiance %r" % float(got.min()))
    charged_pos = [s for s in sp if s["q"] > 0 and s["n"] > 0]
    if cs["ne"] <= 0 or cs["te"] <= 0 or not charged_pos:
        ctx.label("guard:" + ("ne" if cs["ne"] <= 0 else "te" if cs["te"] <= 0 else "no-ions"))
        ctx.check(np.all(got == 0.0), "guard", lambda: where + "emission must be zero but max sample is %r" % float(np.abs(got).max()))
        with ctx.cut("emission"):
            gb = emit(b, model, cs, wmin, wmax, bins, base=0.5)
        ctx.check(np.all(gb == 0.5), "guard", where + "pre-filled spectrum changed although emission must be zero")
        return got, False, False
    want, rel = brems_bins(cs, g, wmin, wmax, bins)
    mask = seam_mask(cs, wmin, wmax, bins)
    if not mask.all():
        ctx.label("gaunt-seam-bin")
    if np.any(rel[mask] > 1e-6):
        ctx.label("oracle-imprecise")          # scipy could not certify its own integral: no verdict at this point
        return got, False, False
    tol = 1e-4 * np.abs(want) + 1e-290
    err = np.where(mask, np.abs(got - want), 0.0)
    if np.any(err > tol):
        i = int(np.argmax(err / tol))
        ctx.fail("bins", "point %d, bin %d of %d [%.6g, %.6g] nm: got %r, Hutchinson 5.3.40 bin average %r (rel. err %.3g); ne=%r te=%r gaunt=%s ions=%r"
                 % (k, i, bins, wmin + i * (wmax - wmin) / bins, wmin + (i + 1) * (wmax - wmin) / bins, float(got[i]), float(want[i]),
                    float(err[i] / max(abs(want[i]), 1e-300)), cs["ne"], cs["te"], cs["gaunt"], [(s["el"], s["q"], s["n"]) for s in sp]))
    top = float(want.max())
    if cs["base"] and top > 0:
        base = cs["base"] * top
        with ctx.cut("emission"):
            gb = emit(b, model, cs, wmin, wmax, bins, base=base)
        ctx.close(gb - base, got, "adds-to-existing", rtol=0, atol=4e-16 * (base + top), info="(point %d)" % k)
        ctx.label("baseline")
    neutral = any(s["q"] == 0 and s["n"] > 0 for s in sp)
    nonpos = any(s["q"] > 0 and s["n"] <= 0 for s in sp)
    if neutral:
        ctx.label("neutral")
    if nonpos:
        ctx.label("nonpos-ion")
    ctx.label("ions:%d" % min(len(charged_pos), 3))
    return got, True, top > 0 and (neutral or nonpos)


def run_brems(case, ctx):
    ctx.label("gaunt:" + case["gaunt"])
    user, g = brems_gaunt(case)
    sts = states(case)

    def make(b):
        return Bremsstrahlung(plasma=b.plasma, atomic_data=b.ad, gaunt_factor=user) if user is not None else \
            Bremsstrahlung(plasma=b.plasma, atomic_data=b.ad)
    with ctx.cut("construct"):
        b = build(case)
        model = make(b)
    w = case["win"]
    wmin, wmax, bins = w["min"], w["min"] + w["width"], w["bins"]
    res = [_brems_point(cs, ctx, b, model, g, k, wmin, wmax, bins) for k, cs in enumerate(sts)]
    _brems_point(sts[-1], ctx, b, model, g, len(sts) - 1, wmin * 0.75, wmax * 1.5 + 10.0, bins + 3)   # other range, same oracle
    _brems_point(sts[-1], ctx, b, model, g, len(sts) - 1, wmin, wmax * 1.25 + 3.0, bins)             # one respect only: width
    _brems_point(sts[0], ctx, b, model, g, 0, wmin, wmax, bins + 5)                                  # bin count
    history(ctx, b, model, sts, res[0][0], wmin, wmax, bins)
    seq_labels(ctx, sts, [i for i, s in enumerate(case["species"]) if s["q"] > 0], False)
    ctx.nt(any(r[2] for r in res))

    # ---- linearity in one ion density at the first emitting point, bin by bin
    live = [k for k, r in enumerate(res) if r[1]]
    if not live:
        return
    cs, got = sts[live[0]], res[live[0]][0]
    sp = cs["species"]
    involved = [i for i, s in enumerate(sp) if s["q"] > 0 and s["n"] > 0]
    j = involved[case["lin"]["j"] % len(involved)]
    k = case["lin"]["k"]
    with ctx.cut("emission"):
        bk = build(case, {j: k})
        gk = emit(bk, make(bk), cs, wmin, wmax, bins)
        b0 = build(case, {j: 0.0})
        g0 = emit(b0, make(b0), cs, wmin, wmax, bins)
    scale = np.maximum(np.maximum(got, gk), g0)
    lerr = np.where(seam_mask(cs, wmin, wmax, bins), np.abs(gk - (g0 + k * (got - g0))), 0.0)
    if np.any(lerr > 2e-4 * scale + 1e-290):
        i = int(np.argmax(lerr - 2e-4 * scale))
        ctx.fail("linearity", "point %d, bin %d: E(k n)=%r but E(0) + k (E(n) - E(0)) = %r (k=%r, species %d %s%d+)"
                 % (live[0], i, float(gk[i]), float(g0[i] + k * (got[i] - g0[i])), k, j, sp[j]["el"], sp[j]["q"]))
    ctx.label("linearity")
    instances(ctx, b, model, sts, res[0][0], wmin, wmax, bins)


SUBCHECKS = {
    "lines": Given(strategy_lines, run_lines, quick=2400, thorough=100000),
    "trp": Given(strategy_trp, run_trp, quick=800, thorough=30000),
    "brems": Given(strategy_brems, run_brems, quick=600, thorough=20000),
}
