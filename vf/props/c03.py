"""C03 - passive emission models radiate exactly their documented totals.

ExcitationLine / RecombinationLine / ThermalCXLine / TotalRadiatedPower / Bremsstrahlung are built scene-free
(plasma=, atomic_data= constructor arguments) on a real Plasma with 1-6 Species and called directly:
model.emission(point, direction, Spectrum).  The atomic data are the parameterised mocks of vf/mocks.py, so every
rate is a different smooth function per (element, charge, transition, donor, ...) and of all its arguments; the
oracle evaluates the documented formula in plain Python from the same functions and the generated point values."""
import math

import numpy as np
from hypothesis import strategies as st
from scipy import constants as K
from scipy.integrate import quad

from raysect.core import Point3D, Vector3D
from raysect.optical import Spectrum
from raysect.core.math.function.vector3d import Constant3D as ConstVec3D

from cherab.core import Plasma, Species, Maxwellian, Line
from cherab.core.model import ExcitationLine, RecombinationLine, ThermalCXLine, TotalRadiatedPower, Bremsstrahlung, \
    GaussianLine, MultipletLineShape, ZeemanTriplet, ParametrisedZeemanTriplet, ZeemanMultiplet

from ..core import Given
from ..findings import is_open
from .. import mocks as M

ID = "C03"
RULE = ("Case = model kind x composition of 1-6 distinct species from {H, D, T, He, C, Ne} x charge 0..Z (neutrals, bare nuclei, "
        "isotopes; species a wrong selection rule would pick are added on purpose) x per-species density / temperature / flow "
        "at the evaluation point (densities and temperatures log-uniform, 10 % zero, 10 % negative, electrons 6 % each; linear profiles around the "
        "point so the value is exact there and different elsewhere) x n_e, T_e (same) x mock provider (tag, seed, kinds with "
        "zero coefficient) x line (element, charge, transition) x line-shape class (default, Gaussian, multiplet, Zeeman triplet, "
        "parametrised triplet, Zeeman multiplet) x spectral window / bins x pre-filled spectrum x Gaunt source (provider mock, "
        "provider Maxwellian table, user supplied). Oracle = documented formula in plain Python. Non-trivial = emission > 0 and "
        "the composition contains, with positive density, a species the formula must exclude or treat specially: lines - another "
        "charge state / isotope of the line's element (exc, rec) or a bare nucleus other than the receiver or a non-bare receiver "
        "(thermal CX); total radiated power - a hydrogen isotope (neutral: summed into n_hyd, ion: not); bremsstrahlung - a "
        "neutral (excluded from the ion sum) or a charged species with non-positive density (skipped). Distinct by case hash. "
        "While the known finding C03-tcx-donor-guards is open, thermal-CX donors with negative density or non-positive temperature "
        "are replaced by their absolute values (label excluded_known) so that the search continues behind it.")
ASSUMPTIONS = ["the mock rate functions (vf/mocks.py) are evaluated identically by the model (through cpdef dispatch) and by the oracle",
               "CODATA constants from scipy.constants (the code's 2018 values differ by < 1e-8, far below the bremsstrahlung tolerance)",
               "guards are read term-wise where the documented expression is a sum: a donor / ion / hydrogen term vanishes when its own "
               "density or temperature is non-positive (this is what TotalRadiatedPower and Bremsstrahlung implement)",
               "line totals need the line shape to have a width: a target species with T <= 0 emits nothing (C02), checked as an exact zero",
               "Hutchinson eq. 5.3.40 (sqrt(2 m_e / (pi T))) is the bremsstrahlung specification; the model docstring prints m_e^3 under the "
               "root, which is dimensionally impossible (see notes/C03-brems-docstring.py)"]
TOLERANCES = {
    "line totals, TRP bins, linearity of lines / TRP": "1e-9 relative: same few multiplications both sides; the Gaussian-built shapes integrate "
                                                       "to the radiance within 1e-9 on a window of +-5 %..12 % of the wavelength (C02; +-10 sigma cut-off 1.5e-23)",
    "pre-filled spectrum": "+ 4e-16 x base x bins (one rounding per bin when the base level is subtracted again)",
    "bremsstrahlung bins": "1e-4 relative per bin + 1e-290: the model's GaussianQuadrature stops when two successive orders agree to 1e-5 relative; for an "
                           "integrand analytic over the bin the order-to-order differences fall faster than geometrically with ratio <= 1/2, so the true "
                           "error is <= 1e-5; x3 safety + 1e-8 (scipy quad epsrel, its own estimate is asserted <= 1e-6) + 5e-7 (CODATA vintages 1e-8 x exponent hc/(e Te lambda) <= 41 in the generated domain) "
                           "< 1e-4. Bin widths are generated so that the integrand varies by at most e^20 over one bin (order 50 is ample); the Maxwellian table "
                           "is a C1 piecewise cubic in log u with knots 0.2 dex apart, its curvature jumps contribute < 1e-7. Measured worst model-vs-quad difference over 1000 generated cases: 1.1e-6",
    "bremsstrahlung linearity": "2e-4 of the largest bin involved (three independent quadratures)",
}
REQUIRED_LABELS = ["lines:exc", "lines:rec", "lines:tcx", "lines:guard:ne", "lines:guard:te", "lines:guard:target-n", "lines:guard:target-t",
                   "lines:tcx:bare-excluded", "lines:tcx:receiver-not-bare", "lines:linearity", "trp:hyd-neutral", "trp:hyd-ion", "trp:guard:ne",
                   "trp:linearity", "brems:neutral", "brems:nonpos-ion", "brems:gaunt:user-mock", "brems:gaunt:provider-maxwellian",
                   "brems:gaunt:provider-mock", "brems:linearity"]

ELS = {"hydrogen": 1, "deuterium": 1, "tritium": 1, "helium": 2, "carbon": 6, "neon": 10}
HYD = ("hydrogen", "deuterium", "tritium")
FOUR_PI = 4.0 * math.pi
SHAPES = ["default", "gaussian", "multiplet", "ztriplet", "pztriplet", "zmultiplet"]
KNOWN_TCX = "C03-tcx-donor-guards"


# ----------------------------------------------------------------------------------------------- strategies
@st.composite
def _value(draw, lo, hi, modes="ppzppppnpp"):
    """log-uniform positive (80 %), exactly 0 (10 %) or negative (10 %); electrons: 1/16 each."""
    mode = draw(st.sampled_from(modes))
    x = 10.0 ** draw(st.floats(math.log10(lo), math.log10(hi)))
    return x if mode == "p" else 0.0 if mode == "z" else -x


@st.composite
def _pos(draw, lo, hi):
    return 10.0 ** draw(st.floats(math.log10(lo), math.log10(hi)))


@st.composite
def _spec(draw, el, q, sure=False):
    return {"el": el, "q": q,
            "n": draw(_pos(1e15, 1e21)) if sure else draw(_value(1e15, 1e21)),
            "t": draw(_pos(0.05, 2000.0)) if sure else draw(_value(0.05, 2000.0)),
            "v": [draw(st.floats(-1e5, 1e5)) for _ in range(3)]}


@st.composite
def _any_key(draw):
    el = draw(st.sampled_from(sorted(ELS)))
    z = ELS[el]
    return (el, draw(st.one_of(st.just(0), st.just(z), st.integers(0, z))))


@st.composite
def _common(draw):
    return {"ne": draw(_value(1e17, 1e21, "ppppzppppppnpppp")), "te": draw(_value(0.3, 1e4, "pppppnppppzppppp")),
            "point": [draw(st.floats(-2.0, 2.0)) for _ in range(3)],
            "grad": draw(st.one_of(st.just([0.0, 0.0, 0.0]), st.lists(st.floats(-0.4, 0.4), min_size=3, max_size=3))),
            "dir": [draw(st.floats(-1.0, 1.0)) for _ in range(3)],
            "B": draw(st.one_of(st.just([0.0, 0.0, 0.0]), st.lists(st.floats(-5.0, 5.0), min_size=3, max_size=3))),
            "ad": {"tag": draw(st.sampled_from(["A", "B"])), "seed": draw(st.integers(0, 2 ** 31 - 1))},
            "base": draw(st.sampled_from([0.0, 0.0, 0.5])),
            "lin": {"j": draw(st.integers(0, 11)), "k": draw(st.sampled_from([0.25, 0.5, 2.0, 3.0, 7.5]))}}


def _assemble(draw, required, optional, n_extra_max):
    """required keys first; optional ones each with probability 1/2; random extras; at most 6 distinct; shuffled."""
    keys = list(required)
    for k in optional:
        el, q = k
        if 0 <= q <= ELS[el] and k not in keys and draw(st.booleans()):
            keys.append(k)
    for _ in range(draw(st.integers(0, n_extra_max))):
        k = draw(_any_key())
        if k not in keys:
            keys.append(k)
    keys = keys[:6]
    return draw(st.permutations(keys))


@st.composite
def strategy_lines(draw):
    case = draw(_common())
    kind = draw(st.sampled_from(["exc", "rec", "tcx", "tcx"]))
    el = draw(st.sampled_from(sorted(ELS)))
    z = ELS[el]
    q = draw(st.one_of(st.just(0), st.just(z - 1), st.integers(0, z - 1)))
    up = draw(st.integers(2, 9))
    tr = [up, draw(st.integers(1, up - 1))]
    tq = q if kind == "exc" else q + 1
    optional = [(el, q), (el, q + 1), (el, q - 1), (el, q + 2)]
    if el in HYD:
        optional += [(iso, c) for iso in HYD if iso != el for c in (0, 1)]
    if kind == "tcx":
        optional += [("deuterium", 0), ("hydrogen", 0), ("helium", 2), ("carbon", 6), ("helium", 1), ("deuterium", 1)]
    keys = _assemble(draw, [(el, tq)], optional, 4)
    sure_target = draw(st.sampled_from([True, True, True, False]))
    case.update({"kind": kind, "line": {"el": el, "q": q, "tr": tr},
                 "species": [draw(_spec(e, c, sure=(sure_target and (e, c) == (el, tq)))) for e, c in keys],
                 "shape": draw(st.sampled_from(SHAPES)),
                 "win": {"lo": draw(st.floats(0.05, 0.12)), "hi": draw(st.floats(0.05, 0.12)), "bins": draw(st.integers(1, 64))}})
    if draw(st.sampled_from([False] * 5 + [True] + [False] * 6)):
        case["ad"]["zero"] = [{"exc": "impact_excitation_pec", "rec": "recombination_pec", "tcx": "thermal_cx_pec"}[kind]]
    if case["shape"] == "multiplet":
        n = draw(st.integers(1, 5))
        num = [draw(st.integers(1, 16)) for _ in range(n)]
        tot = sum(num)
        den = 1 << (tot - 1).bit_length()
        num[-1] += den - tot          # dyadic ratios: they sum to exactly 1.0 as the constructor demands
        case["multiplet"] = {"offs": [draw(st.floats(-8e-3, 8e-3)) for _ in range(n)], "num": num, "den": den}
    return case


@st.composite
def strategy_trp(draw):
    case = draw(_common())
    el = draw(st.sampled_from(sorted(ELS)))
    z = ELS[el]
    q = draw(st.one_of(st.just(0), st.just(z - 1), st.integers(0, z - 1)))
    optional = [("hydrogen", 0), ("deuterium", 0), ("tritium", 0), ("hydrogen", 1), ("deuterium", 1), ("tritium", 1),
                ("deuterium", 0), (el, q - 1), (el, q + 2)]
    keys = _assemble(draw, [(el, q), (el, q + 1)], optional, 2)
    sure = draw(st.booleans())
    species = [draw(_spec(e, c, sure=(sure and e == el and c in (q, q + 1)))) for e, c in keys]
    # n_hyd is documented as the *total* neutral hydrogen density: a negative isotope density next to a positive one makes
    # "total" and "term-wise guard" disagree -> outside the domain, the negative one is set to zero
    hn = [s for s in species if s["el"] in HYD and s["q"] == 0]
    if any(s["n"] > 0 for s in hn):
        for s in hn:
            if s["n"] < 0:
                s["n"] = 0.0
    zero = [k for k in ("line_radiated_power_rate", "continuum_radiated_power_rate", "cx_radiated_power_rate") if draw(st.sampled_from([False] * 4 + [True] + [False] * 5))]
    if zero:
        case["ad"]["zero"] = zero
    case.update({"kind": "trp", "trp": {"el": el, "q": q}, "species": species,
                 "win": {"min": draw(st.floats(1.0, 1000.0)), "width": draw(_pos(0.5, 2000.0)), "bins": draw(st.integers(1, 32))}})
    return case


@st.composite
def strategy_brems(draw):
    case = draw(_common())
    keys = _assemble(draw, [], [("deuterium", 1), ("deuterium", 0), ("carbon", 6), ("helium", 0), ("neon", 10), ("helium", 2)], 4)
    if not keys:
        keys = [draw(_any_key())]
    wmin = draw(st.floats(100.0, 1500.0))
    bins = draw(st.integers(1, 16))
    width = draw(_pos(5.0, 600.0))
    if case["te"] > 0:
        # keep the integrand's variation over one bin below e^20 (d ln f / d lambda <= hc / (e Te lambda_min^2))
        width = min(width, bins * 20.0 * case["te"] * wmin * wmin / 1239.84)
    case.update({"kind": "brems", "species": [draw(_spec(e, c)) for e, c in keys],
                 "gaunt": draw(st.sampled_from(["provider-mock", "provider-maxwellian", "user-mock"])),
                 "useed": draw(st.integers(0, 2 ** 31 - 1)),
                 "win": {"min": wmin, "width": width, "bins": bins}})
    case["ad"]["gaunt"] = "maxwellian" if case["gaunt"] == "provider-maxwellian" else "mock"
    return case


# ----------------------------------------------------------------------------------------------- building real objects
class Built:
    pass


def _prof(v, case, i):
    g = case["grad"]
    if not any(g):
        return float(v)
    return M.profile({"kind": "lin", "v": v, "p0": case["point"], "g": [g[i % 3], g[(i + 1) % 3], g[(i + 2) % 3]]})


def build(case, override=None):
    """Real Plasma + Species with the case's values at case['point']; override = {species index: density}."""
    override = override or {}
    b = Built()
    plasma = Plasma()
    plasma.b_field = ConstVec3D(Vector3D(*case["B"]))
    plasma.electron_distribution = Maxwellian(_prof(case["ne"], case, 1), _prof(case["te"], case, 2),
                                              ConstVec3D(Vector3D(0, 0, 0)), K.m_e)
    sp = []
    for i, s in enumerate(case["species"]):
        el = M.element(s["el"])
        n = override.get(i, s["n"])
        sp.append(Species(el, s["q"], Maxwellian(_prof(n, case, i), _prof(s["t"], case, i + 1),
                                                 ConstVec3D(Vector3D(*s["v"])), el.atomic_weight * K.atomic_mass)))
    plasma.composition = sp
    b.plasma, b.species = plasma, sp
    b.ad = M.MockAtomicData(case["ad"])
    d = case["dir"]
    nrm = math.sqrt(sum(x * x for x in d))
    d = [x / nrm for x in d] if nrm > 1e-3 else [0.6, 0.0, 0.8]
    b.point, b.direction = Point3D(*case["point"]), Vector3D(*d)
    return b


def emit(b, model, wmin, wmax, bins, base=0.0):
    s = Spectrum(wmin, wmax, bins)
    if base:
        s.samples[:] = base
    out = model.emission(b.point, b.direction, s)
    return np.array(out.samples)


def find(case, el, q):
    for i, s in enumerate(case["species"]):
        if s["el"] == el and s["q"] == q:
            return i
    return None


# ----------------------------------------------------------------------------------------------- line models
LINE_CLS = {"exc": ExcitationLine, "rec": RecombinationLine, "tcx": ThermalCXLine}
LINE_KIND = {"exc": "impact_excitation_pec", "rec": "recombination_pec", "tcx": "thermal_cx_pec"}


def line_model(case, b):
    ln = case["line"]
    line = Line(M.element(ln["el"]), ln["q"], tuple(ln["tr"]))
    shape = case["shape"]
    kw = {}
    if shape == "gaussian":
        kw["lineshape"] = GaussianLine
    elif shape == "multiplet":
        mu = case["multiplet"]
        wl = M.wavelength_fn(case["ad"], ln["el"], ln["q"], ln["tr"])
        kw["lineshape"] = MultipletLineShape
        kw["lineshape_args"] = [[[wl * (1 + o) for o in mu["offs"]], [n / mu["den"] for n in mu["num"]]]]
    elif shape == "ztriplet":
        kw["lineshape"] = ZeemanTriplet
        kw["lineshape_kwargs"] = {"polarisation": "no"}
    elif shape == "pztriplet":
        kw["lineshape"] = ParametrisedZeemanTriplet      # parameters come from the provider
    elif shape == "zmultiplet":
        kw["lineshape"] = ZeemanMultiplet                # structure comes from the provider
    return LINE_CLS[case["kind"]](line, plasma=b.plasma, atomic_data=b.ad, **kw)


def line_terms(case, dens=None):
    """Documented radiance split into per-species terms: {species index: contribution to the radiance}, target index.
    exc: n_i n_e PEC / 4pi, rec: n_{i+1} n_e PEC / 4pi, tcx: n_{i+1} sum_d n_d PEC_d(n_e, T_e, T_d) / 4pi."""
    ln, kind, sp = case["line"], case["kind"], case["species"]
    dens = dens or {}
    ne, te = case["ne"], case["te"]
    ti = find(case, ln["el"], ln["q"] if kind == "exc" else ln["q"] + 1)
    nt = dens.get(ti, sp[ti]["n"])
    if ne <= 0 or te <= 0 or nt <= 0:
        return {}, ti
    if kind in ("exc", "rec"):
        pec = M.rate_fn(case["ad"], LINE_KIND[kind], ln["el"], ln["q"], ln["tr"])
        return {ti: nt * ne * pec(ne, te) / FOUR_PI}, ti
    terms = {}
    for i, s in enumerate(sp):
        if i == ti or s["q"] >= ELS[s["el"]]:
            continue                                   # the receiver itself and fully stripped ions donate nothing
        nd = dens.get(i, s["n"])
        if nd <= 0 or s["t"] <= 0:
            continue                                   # term-wise guard
        pec = M.rate_fn(case["ad"], "thermal_cx_pec", s["el"], s["q"], ln["el"], ln["q"] + 1, ln["tr"])
        terms[i] = nt * nd * pec(ne, te, s["t"]) / FOUR_PI
    return terms, ti


def run_lines(case, ctx):
    kind, ln = case["kind"], case["line"]
    ctx.label(kind, "shape:" + case["shape"])
    if kind == "tcx":
        # known finding: donors with negative density / non-positive temperature are not guarded
        ti0 = find(case, ln["el"], ln["q"] + 1)
        bad = [i for i, s in enumerate(case["species"]) if i != ti0 and s["q"] < ELS[s["el"]] and (s["n"] < 0 or (s["t"] <= 0 and s["n"] != 0))]
        if bad:
            if is_open(KNOWN_TCX) and not case.get("probe_known"):
                case = dict(case, species=[dict(s) for s in case["species"]])
                for i in bad:
                    case["species"][i]["n"] = abs(case["species"][i]["n"])
                    case["species"][i]["t"] = abs(case["species"][i]["t"]) or 1.0
                ctx.label("excluded_known:tcx-donor-guards")
            else:
                ctx.label("tcx:donor-nonpos")
    sp = case["species"]
    with ctx.cut("construct"):
        b = build(case)
        model = line_model(case, b)
    wl = M.wavelength_fn(case["ad"], ln["el"], ln["q"], ln["tr"])
    w = case["win"]
    wmin, wmax, bins = wl * (1 - w["lo"]), wl * (1 + w["hi"]), w["bins"]
    d = (wmax - wmin) / bins
    terms, ti = line_terms(case)
    R = math.fsum(terms.values())
    tgt = sp[ti]
    with ctx.cut("emission"):
        got = emit(b, model, wmin, wmax, bins)
    ctx.check(np.all(np.isfinite(got)), "finite", "non-finite samples")
    ctx.check(np.all(got >= 0.0), "non-negative", lambda: "negative spectral radiance %r with non-negative coefficients" % float(got.min()))

    # ---- guards: exact zero
    reason = None
    if case["ne"] <= 0:
        reason = "ne"
    elif case["te"] <= 0:
        reason = "te"
    elif tgt["n"] <= 0:
        reason = "target-n"
    elif R == 0.0:
        reason = "zero-coefficient" if case["ad"].get("zero") else "no-donor"
    elif tgt["t"] <= 0:
        reason = "target-t"
    if reason is not None:
        ctx.label("guard:" + reason)
        ctx.check(np.all(got == 0.0), "guard", lambda: "emission must be zero (%s) but max sample is %r" % (reason, float(np.abs(got).max())))
        with ctx.cut("emission"):
            gb = emit(b, model, wmin, wmax, bins, base=0.5)
        ctx.check(np.all(gb == 0.5), "guard", lambda: "pre-filled spectrum changed although emission must be zero (%s)" % reason)
        return

    # ---- total on a window containing the whole line
    tot = float(got.sum() * d)
    ctx.close(tot, R, "total", rtol=1e-9,
              info="(%s %s%d+ %r, target n=%r, ne=%r te=%r; terms %r)" % (kind, ln["el"], ln["q"], ln["tr"], tgt["n"], case["ne"], case["te"], terms))
    if case["base"]:
        base = case["base"] * R / (wmax - wmin)
        with ctx.cut("emission"):
            gb = emit(b, model, wmin, wmax, bins, base=base)
        ctx.close(float((gb - base).sum() * d), R, "adds-to-existing", rtol=1e-9, atol=4e-16 * base * bins * d)
        ctx.label("baseline")

    # ---- linearity in one involved density: E(k n_j) = E(0) + k (E(n_j) - E(0)), bin by bin
    involved = sorted(terms)
    if ti not in involved:
        involved.append(ti)
    j = involved[case["lin"]["j"] % len(involved)]
    k = case["lin"]["k"]
    with ctx.cut("emission"):
        bk = build(case, {j: k * sp[j]["n"]})
        gk = emit(bk, line_model(case, bk), wmin, wmax, bins)
        b0 = build(case, {j: 0.0})
        g0 = emit(b0, line_model(case, b0), wmin, wmax, bins)
    scale = max(float(got.max()), float(gk.max()))
    ctx.close(gk, g0 + k * (got - g0), "linearity", rtol=1e-9, scale=scale,
              info="(density of species %d %s%d+ scaled by %r)" % (j, sp[j]["el"], sp[j]["q"], k))
    tk, _ = line_terms(case, {j: k * sp[j]["n"]})
    ctx.close(float(gk.sum() * d), math.fsum(tk.values()), "total", rtol=1e-9, info="(after scaling species %d by %r)" % (j, k))
    ctx.label("linearity", "linearity:target" if j == ti else "linearity:donor")

    # ---- class labels and non-triviality
    z_el = ELS[ln["el"]]
    if kind == "tcx":
        other_bare = any(i != ti and s["q"] >= ELS[s["el"]] and s["n"] > 0 for i, s in enumerate(sp))
        rec_not_bare = ln["q"] + 1 < z_el
        if other_bare:
            ctx.label("tcx:bare-excluded")
        if rec_not_bare:
            ctx.label("tcx:receiver-not-bare")
        ctx.label("tcx:donors:%d" % min(len(terms), 3))
        ctx.nt(other_bare or rec_not_bare)
    else:
        fam = HYD if ln["el"] in HYD else (ln["el"],)
        confusable = any(i != ti and s["el"] in fam and s["n"] > 0 for i, s in enumerate(sp))
        if confusable:
            ctx.label("confusable-present")
        ctx.nt(confusable)


# ----------------------------------------------------------------------------------------------- total radiated power
def trp_terms(case, dens=None):
    """power density W/m^3 split as {"exc": .., "rec": .., "cx": ..} from the documented three-term sum."""
    dens = dens or {}
    t, sp = case["trp"], case["species"]
    ne, te = case["ne"], case["te"]
    if ne <= 0 or te <= 0:
        return {}

    def n_of(i):
        return dens.get(i, sp[i]["n"])
    i0, i1 = find(case, t["el"], t["q"]), find(case, t["el"], t["q"] + 1)
    ni, nu = n_of(i0), n_of(i1)
    nhyd = math.fsum(n_of(i) for i, s in enumerate(sp) if s["el"] in HYD and s["q"] == 0)
    out = {}
    if ni > 0:
        out["exc"] = ni * ne * M.rate_fn(case["ad"], "line_radiated_power_rate", t["el"], t["q"])(ne, te)
    if nu > 0:
        out["rec"] = nu * ne * M.rate_fn(case["ad"], "continuum_radiated_power_rate", t["el"], t["q"] + 1)(ne, te)
    if nu > 0 and nhyd > 0:
        out["cx"] = nu * nhyd * M.rate_fn(case["ad"], "cx_radiated_power_rate", t["el"], t["q"] + 1)(ne, te)
    return out


def run_trp(case, ctx):
    t, sp = case["trp"], case["species"]
    with ctx.cut("construct"):
        b = build(case)
        model = TotalRadiatedPower(M.element(t["el"]), t["q"], plasma=b.plasma, atomic_data=b.ad)
    w = case["win"]
    wmin, wmax, bins = w["min"], w["min"] + w["width"], w["bins"]
    terms = trp_terms(case)
    P = math.fsum(terms.values())
    want = P / (FOUR_PI * (wmax - wmin))
    with ctx.cut("emission"):
        got = emit(b, model, wmin, wmax, bins)
    ctx.check(np.all(np.isfinite(got)), "finite", "non-finite samples")
    ctx.check(np.all(got >= 0.0), "non-negative", lambda: "negative spectral radiance %r" % float(got.min()))
    if case["ne"] <= 0 or case["te"] <= 0 or P == 0.0:
        ctx.label("guard:" + ("ne" if case["ne"] <= 0 else "te" if case["te"] <= 0 else "all-terms-zero"))
        ctx.check(np.all(got == 0.0), "guard", lambda: "emission must be zero but max sample is %r" % float(np.abs(got).max()))
        with ctx.cut("emission"):
            gb = emit(b, model, wmin, wmax, bins, base=0.5)
        ctx.check(np.all(gb == 0.5), "guard", "pre-filled spectrum changed although emission must be zero")
        return
    info = "(TRP %s%d+, terms %r, ne=%r te=%r)" % (t["el"], t["q"], terms, case["ne"], case["te"])
    ctx.close(got, np.full(bins, want), "uniform-bins", rtol=1e-9, info=info)
    ctx.close(float(got.sum() * (wmax - wmin) / bins), P / FOUR_PI, "total", rtol=1e-9, info=info)
    if case["base"]:
        base = case["base"] * want
        with ctx.cut("emission"):
            gb = emit(b, model, wmin, wmax, bins, base=base)
        ctx.close(gb - base, np.full(bins, want), "adds-to-existing", rtol=1e-9, atol=4e-16 * base)
        ctx.label("baseline")
    for name in ("exc", "rec", "cx"):
        if name in terms:
            ctx.label("term:" + name)

    # ---- linearity in one involved density
    i0, i1 = find(case, t["el"], t["q"]), find(case, t["el"], t["q"] + 1)
    involved = [i for i in [i0, i1] + [i for i, s in enumerate(sp) if s["el"] in HYD and s["q"] == 0] if sp[i]["n"] > 0]
    involved = sorted(set(involved))
    if involved:
        j = involved[case["lin"]["j"] % len(involved)]
        k = case["lin"]["k"]
        with ctx.cut("emission"):
            bk = build(case, {j: k * sp[j]["n"]})
            gk = emit(bk, TotalRadiatedPower(M.element(t["el"]), t["q"], plasma=bk.plasma, atomic_data=bk.ad), wmin, wmax, bins)
            b0 = build(case, {j: 0.0})
            g0 = emit(b0, TotalRadiatedPower(M.element(t["el"]), t["q"], plasma=b0.plasma, atomic_data=b0.ad), wmin, wmax, bins)
        ctx.close(gk, g0 + k * (got - g0), "linearity", rtol=1e-9, scale=max(float(got.max()), float(gk.max())),
                  info="(density of species %d %s%d+ scaled by %r)" % (j, sp[j]["el"], sp[j]["q"], k))
        pk = math.fsum(trp_terms(case, {j: k * sp[j]["n"]}).values())
        ctx.close(gk, np.full(bins, pk / (FOUR_PI * (wmax - wmin))), "uniform-bins", rtol=1e-9, info="(after scaling species %d by %r)" % (j, k))
        ctx.label("linearity")

    hyd_neutral = any(s["el"] in HYD and s["q"] == 0 and s["n"] > 0 for s in sp)
    hyd_ion = any(s["el"] in HYD and s["q"] == 1 and s["n"] > 0 and not (s["el"] == t["el"]) for s in sp)
    if hyd_neutral:
        ctx.label("hyd-neutral")
    if hyd_ion:
        ctx.label("hyd-ion")
    ctx.nt(hyd_neutral or hyd_ion)


# ----------------------------------------------------------------------------------------------- bremsstrahlung
# Hutchinson, Principles of Plasma Diagnostics, eq. 5.3.40, converted to W / m^3 / sr / nm (T_e in eV, lambda in nm)
BREMS_CONST = ((K.e ** 2 / (4 * math.pi * K.epsilon_0)) ** 3
               * 32 * math.pi ** 2 / (3 * math.sqrt(3) * K.m_e ** 2 * K.c ** 3)
               * math.sqrt(2 * K.m_e / (math.pi * K.e))
               * K.c * 1e9 / (4 * math.pi))
EXP_FACTOR = 1e9 * K.h * K.c / K.e


def brems_gaunt(case):
    """(object to pass as gaunt_factor= or None, plain callable g(z, te, wavelength) the model must end up using)."""
    if case["gaunt"] == "user-mock":
        fn = M.rate_fn({"tag": "U", "seed": case["useed"]}, "free_free_gaunt_factor")
        return M.MockGauntFactor(fn), fn
    return None, M.gaunt_fn(case["ad"])


def brems_density(case, g, dens=None):
    dens = dens or {}
    ne, te = case["ne"], case["te"]
    ions = [(float(s["q"]), dens.get(i, s["n"])) for i, s in enumerate(case["species"]) if s["q"] > 0]
    ions = [(z, n) for z, n in ions if n > 0]

    def eps(wvl):
        acc = 0.0
        for z, n in ions:
            acc += n * g(z, te, wvl) * z * z
        return BREMS_CONST / (math.sqrt(te) * wvl * wvl) * ne * acc * math.exp(-EXP_FACTOR / (te * wvl))
    return eps, ions


def brems_bins(case, g, wmin, wmax, bins, dens=None):
    eps, ions = brems_density(case, g, dens)
    d = (wmax - wmin) / bins
    out, worst = np.zeros(bins), 0.0
    if not ions:
        return out, worst
    for i in range(bins):
        val, err = quad(eps, wmin + i * d, wmin + (i + 1) * d, epsabs=0.0, epsrel=1e-9, limit=200)
        out[i] = val / d
        if val > 0:
            worst = max(worst, err / val)
    return out, worst


def run_brems(case, ctx):
    sp = case["species"]
    ctx.label("gaunt:" + case["gaunt"])
    user, g = brems_gaunt(case)

    def make(b):
        return Bremsstrahlung(plasma=b.plasma, atomic_data=b.ad, gaunt_factor=user) if user is not None else \
            Bremsstrahlung(plasma=b.plasma, atomic_data=b.ad)
    with ctx.cut("construct"):
        b = build(case)
        model = make(b)
    w = case["win"]
    wmin, wmax, bins = w["min"], w["min"] + w["width"], w["bins"]
    with ctx.cut("emission"):
        got = emit(b, model, wmin, wmax, bins)
    ctx.check(np.all(np.isfinite(got)), "finite", "non-finite samples")
    ctx.check(np.all(got >= 0.0), "non-negative", lambda: "negative spectral radiance %r" % float(got.min()))
    charged_pos = [s for s in sp if s["q"] > 0 and s["n"] > 0]
    if case["ne"] <= 0 or case["te"] <= 0 or not charged_pos:
        ctx.label("guard:" + ("ne" if case["ne"] <= 0 else "te" if case["te"] <= 0 else "no-ions"))
        ctx.check(np.all(got == 0.0), "guard", lambda: "emission must be zero but max sample is %r" % float(np.abs(got).max()))
        with ctx.cut("emission"):
            gb = emit(b, model, wmin, wmax, bins, base=0.5)
        ctx.check(np.all(gb == 0.5), "guard", "pre-filled spectrum changed although emission must be zero")
        return
    want, worst = brems_bins(case, g, wmin, wmax, bins)
    if worst > 1e-6:
        ctx.label("oracle-imprecise")          # scipy could not certify its own integral: no verdict
        return
    tol = 1e-4 * np.abs(want) + 1e-290
    err = np.abs(got - want)
    if np.any(err > tol):
        i = int(np.argmax(err / tol))
        ctx.fail("bins", "bin %d of %d [%.6g, %.6g] nm: got %r, Hutchinson 5.3.40 bin average %r (rel. err %.3g); ne=%r te=%r gaunt=%s ions=%r"
                 % (i, bins, wmin + i * (wmax - wmin) / bins, wmin + (i + 1) * (wmax - wmin) / bins, float(got[i]), float(want[i]),
                    float(err[i] / max(abs(want[i]), 1e-300)), case["ne"], case["te"], case["gaunt"], [(s["el"], s["q"], s["n"]) for s in sp]))
    top = float(want.max())
    if case["base"] and top > 0:
        base = case["base"] * top
        with ctx.cut("emission"):
            gb = emit(b, model, wmin, wmax, bins, base=base)
        ctx.close(gb - base, got, "adds-to-existing", rtol=0, atol=4e-16 * (base + top))
        ctx.label("baseline")

    # ---- linearity in one ion density, bin by bin
    involved = [i for i, s in enumerate(sp) if s["q"] > 0 and s["n"] > 0]
    j = involved[case["lin"]["j"] % len(involved)]
    k = case["lin"]["k"]
    with ctx.cut("emission"):
        bk = build(case, {j: k * sp[j]["n"]})
        gk = emit(bk, make(bk), wmin, wmax, bins)
        b0 = build(case, {j: 0.0})
        g0 = emit(b0, make(b0), wmin, wmax, bins)
    scale = np.maximum(np.maximum(got, gk), g0)
    lerr = np.abs(gk - (g0 + k * (got - g0)))
    if np.any(lerr > 2e-4 * scale + 1e-290):
        i = int(np.argmax(lerr - 2e-4 * scale))
        ctx.fail("linearity", "bin %d: E(k n)=%r but E(0) + k (E(n) - E(0)) = %r (k=%r, species %d %s%d+)"
                 % (i, float(gk[i]), float(g0[i] + k * (got[i] - g0[i])), k, j, sp[j]["el"], sp[j]["q"]))
    ctx.label("linearity")

    neutral = any(s["q"] == 0 and s["n"] > 0 for s in sp)
    nonpos = any(s["q"] > 0 and s["n"] <= 0 for s in sp)
    if neutral:
        ctx.label("neutral")
    if nonpos:
        ctx.label("nonpos-ion")
    ctx.label("ions:%d" % min(len(charged_pos), 3))
    ctx.nt(top > 0 and (neutral or nonpos))


SUBCHECKS = {
    "lines": Given(strategy_lines, run_lines, quick=2400, thorough=120000),
    "trp": Given(strategy_trp, run_trp, quick=800, thorough=40000),
    "brems": Given(strategy_brems, run_brems, quick=600, thorough=30000),
}
