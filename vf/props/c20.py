"""C20 - grid derivative operators and the ADMT operator discretise the operators they claim to.

Conventions of the code under test (docstring of generate_derivative_operators + test_admt.py): voxels are
ordered column-major, 1D index i = ix * ny + iy, ix grows with x (= R), iy grows *downwards* (the first voxel
of a column is the top one, y = Z decreases with iy).  With grids built that way Dy is +d/dy of the physical y.
"""
import collections
import copy
import math
import os
import types

import numpy as np
from hypothesis import strategies as st

from ..core import Given, deep
from ..findings import is_open

from cherab.tools.inversions.admt_utils import generate_derivative_operators, calculate_admt
import cherab.tools.inversions as _pkg

ID = "C20"
KNOWN = "C20-dnorm-cx"
KNOWN_CORNERS = "C20-corner-order-centres"   # while open: no per-voxel corner permutations (single switch in _corner_strategy)
SHARDS = {"quick": 8, "thorough": 16}

RULE = ("stencils: grid n_x,n_y in 2..12 incl. the extremes (column-major, y fastest, top to bottom, as documented), voxel width/height "
        "10^[-3,1] plus presets (1, 0.01, dx == dy), x origin anywhere incl. grids straddling x = 0 / a column exactly on 0, Z_top = "
        "dy*[-40,40] plus rows exactly on / symmetric / asymmetric about Z = 0, polynomial c0 + aX + bY + cXY + dX^2 + eY^2 about a drawn "
        "reference point with all of |a|..|e| in [0.1,10], separate constant field with |c| in [0.01,100]: every case is non-trivial "
        "(all monomials present); classes = grid shape (no interior cell, n_x != n_y, n = 2, n = 12), position relative to 0. "
        "admt: same grids with R_0 = dx*(0.5+[0.05,40]) > 0, flux map from {tilted plane (incl. exactly axis-aligned: one gradient "
        "component exactly 0), plane + quadratic form, plane + sin*sin, off-axis elliptic bowl, Solov'ev-like quartic} constructed so "
        "that a directional derivative is bounded away from 0 on the whole grid (=> discrete |grad psi|^2 > 0 in every cell by the "
        "mean-value theorem); anisotropy: 40% exactly 1 (int 1 or float 1.0), 10% 1+{2^-52,1e-12,1e-9,1e-7,1e-6} (continuity), else "
        "[1,100] as int or float incl. the default 10; every case also re-computes the operator for c*psi, c in +-10^[-6,3] "
        "(scale invariance), and plane maps on grids with >= 4 interior cells are applied to a full quadratic f (exactness for a "
        "constant, generally oblique, diffusion tensor); non-trivial = curved flux map, or plane with anisotropy != 1 and >= 4 interior cells. "
        "refine: box [R_l, R_l+Lx] x [Z_t-Ly, Z_t] with R_l = Lx*[0.5,5] (h/R <= 0.4 on the coarsest grid, so the 1/R "
        "coefficient is resolved) of n_x,n_y in 5..7 cells refined h -> h/2 -> h/4 (up to 28x28 cells), same flux-map "
        "families limited to <= 1 radian of phase per coarse cell and axis margin >= 0.5 box, f = quadratic + sin*sin in box "
        "coordinates, anisotropy as above; non-trivial = curved flux map. "
        "forms: general or integer-coordinate grid (2..8 cells); vertices as float64 ndarray / list of lists of tuples / nested tuples / "
        "Fortran-ordered / strided view / read-only, and float32 / int64 on integer grids (exact); index maps as dict in original, "
        "reversed or shuffled insertion order, OrderedDict, MappingProxyType; radii and psi as float64 / strided / read-only / float32 / "
        "int64 (integer grids) and radii as list; operators as the returned dict, re-ordered dict with an extra key, OrderedDict, "
        "Fortran-ordered or read-only arrays; dx, dy as float / numpy.float64 / int; positional, keyword, all-keyword calls and "
        "anisotropy omitted (default 10). One case = one combination; all forms must reproduce the canonical float64 result; the same "
        "operators are re-used for a second flux map / anisotropy and the first call is repeated (bit-identical); all arguments must "
        "be bit-identical afterwards and overwriting them later must not change returned operators. Every forms case is non-trivial. "
        "Every grid of every sub-check lists the four corners of its voxels in a drawn order: one of the 8 perimeter walks, the "
        "Z/N orders (itertools.product, meshgrid and their reversals), one random permutation for all voxels, or an independent "
        "random permutation per voxel; the operators are compared with those of the test's order (1e-12 of the norm) and all "
        "oracles apply unchanged. Distinct = distinct case hash (continuous parameters: practically every case).")
ASSUMPTIONS = [
    "grids are built exactly as the docstring and test_admt.py describe (column-major, first voxel of a column on top, "
    "any order of the four corners of a voxel: the docstring only asks for 'the vertices of each voxel'); other cell orderings are not documented input",
    "the continuous operator is written in the independent form Dpar*(lap f + f_x/R) + (Dperp-Dpar)*[n n:Hess f + "
    "(div(n) n + (n.grad)n).grad f + n_x (n.grad f)/R] with analytic gradients/Hessians of psi and f (checked against "
    "finite differences while developing)",
    "docstring + statement fix the ratio Dpar/Dperp = anisotropy and the anisotropy-1 limit, not the overall "
    "normalisation for anisotropy != 1: a single positive scalar lambda (least-squares fit on the finest grid, held fixed "
    "for all three levels) is allowed between operator/sqrt(dx*dy) and the continuous operator with Dpar=1, "
    "Dperp=1/anisotropy; lambda is forced to 1 when anisotropy == 1",
    "numpy float64 matmul",
    "psi -> c*psi invariance and exactness for quadratic f on plane flux maps are taken as implied by 'discretisation of the "
    "field-aligned operator div(D grad f)' (D depends on the direction of grad psi only; for a plane map D is constant and every "
    "interior stencil is central); both hold for the documented formula up to rounding",
    "public entry points of the anchored file: generate_derivative_operators, calculate_admt (also re-exported by "
    "cherab.tools.inversions); the TypeError argument validation is not part of the property and is not checked",
]
TOLERANCES = {
    "stencil exactness": "|D@f - exact| <= 1e-9 * max_row_1norm(D) * max|f|: both sides are the same finite sums up to "
                         "rounding (<= 9 terms, eps=1.1e-16) and the representation error of the sampled f and of the "
                         "cell-centre differences the code derives dx, dy from (eps * R/dx <= 1e-14)",
    "constants": "|D@c| <= 1e-9 * max_row_1norm(D) * |c| (same argument); same for the ADMT operator",
    "admt anisotropy 1": "entrywise |L - (Dxx+Dyy+diag(1/R)Dx)*sqrt(dx*dy)| <= 1e-9 * inf-norm of the reference: the "
                         "relation is an algebraic identity in the discrete derivative values of psi; cancellation error "
                         "is eps*(|psi''|/|grad psi|)/dx <= eps/dx^2, i.e. ~1e-16 relative to the operator norm ~8/dx^2",
    "refinement": "consistency: max over all interior cells of the finest grid of |L@f/sqrt(dx*dy) - lambda*continuous| < 5% "
                  "of the operator scale (max over those cells of the sum of the absolute values of the terms of the "
                  "continuous operator); rate: the same error restricted to the cells whose centres lie in the region "
                  "covered by the interior cells of the coarsest grid (one physical region for all three levels) must shrink "
                  ">= 1.6x per halving (second-order central stencils give ~4x; measured on the fixed tree over 600 cases: "
                  "min 2.7x, finest error <= 0.42% of scale); a rounding floor of 1e-9*||L||inf*max|f|/sqrt(dx*dy) is allowed",
    "psi scale / plane-quadratic": "|difference| <= ||L||inf * (1e-9 + 100*eps*max|psi|/(min|grad_h psi|*min(dx,dy))) [* max|f|/sqrt(dx dy)]: "
                                   "a relative perturbation eps of the psi samples changes the discrete gradient direction and "
                                   "psi''*h/|grad psi| by eps*that condition number (measured worst err/tol 2e-3)",
    "continuity at anisotropy 1": "|L(a) - laplacian| <= (1e-9 + 50*|a-1|) * ||laplacian||inf for |a-1| <= 1e-6: the operator is "
                                  "P + Q/a with ||Q|| <= a few ||laplacian|| (measured constant 0.6)",
    "forms / re-use": "1e-12 * inf-norm (same values, same arithmetic; only summation order / BLAS path may differ: measured 4e-15); "
                      "repeat of an identical call: bit-identical",
}
REQUIRED_LABELS = ["%s:corners:%s" % (a_, b_) for a_ in ("stencils", "admt", "forms") for b_ in ("walk", "zn", "perm", "voxelperm")
                   if not (b_ == "voxelperm" and is_open(KNOWN_CORNERS) and not os.environ.get("VERIF_C20_NO_EXCLUSION"))] + \
                  ["refine:corners:zn", "refine:corners:perm", "stencils:no_interior", "stencils:interior", "stencils:nx!=ny", "stencils:n=2", "stencils:n=12", "stencils:dx==dy",
                   "stencils:z:straddles0", "stencils:z:centre_on_0", "stencils:z:asymmetric_about_0", "stencils:x:straddles0",
                   "admt:iso:curved", "admt:aniso:curved", "admt:near1:curved", "admt:aniso:int", "admt:aniso:float",
                   "admt:z:straddles0", "admt:z:centre_on_0", "admt:z:asymmetric_about_0", "admt:psi:zero_component",
                   "admt:pscale:<=1e-2", "admt:pscale:negative", "admt:plane-quadratic:aniso:oblique", "admt:plane-quadratic:iso:oblique",
                   "admt:plane-quadratic:aniso:aligned", "admt:n=2", "admt:n=12",
                   "refine:aniso:curved", "refine:iso:curved",
                   "forms:entry:generate_derivative_operators", "forms:entry:calculate_admt", "forms:entry:package-export"] + \
                  ["forms:vertices:" + f for f in ("ndarray", "list", "tuple", "fortran", "strided", "readonly", "float32", "int")] + \
                  ["forms:map12:" + f for f in ("dict", "reversed", "shuffled", "ordered", "proxy")] + \
                  ["forms:map21:" + f for f in ("dict", "reversed", "shuffled", "ordered", "proxy")] + \
                  ["forms:radii:" + f for f in ("f64", "strided", "readonly", "list", "f32", "int")] + \
                  ["forms:psi:" + f for f in ("f64", "strided", "readonly", "f32", "int")] + \
                  ["forms:operators:" + f for f in ("dict", "reordered+extra", "fortran", "readonly", "ordered")] + \
                  ["forms:dxdy:" + f for f in ("float", "npfloat", "int")] + \
                  ["forms:call:" + f for f in ("kw", "pos", "allkw", "default")]


# ------------------------------------------------------------------------------------------------ closed-form fields
def _terms_eval(terms, x, y):
    """sum of closed-form terms -> (v, gx, gy, hxx, hxy, hyy) at the points x, y (arrays)."""
    z = np.zeros_like(x, dtype=float)
    v, gx, gy, hxx, hxy, hyy = z.copy(), z.copy(), z.copy(), z.copy(), z.copy(), z.copy()
    for t in terms:
        k = t["k"]
        if k == "poly2":    # c0 + a X + b Y + (qxx X^2 + 2 qxy X Y + qyy Y^2)/2
            X, Y = x - t["xr"], y - t["yr"]
            v += t["c0"] + t["a"] * X + t["b"] * Y + 0.5 * (t["qxx"] * X * X + 2 * t["qxy"] * X * Y + t["qyy"] * Y * Y)
            gx += t["a"] + t["qxx"] * X + t["qxy"] * Y
            gy += t["b"] + t["qxy"] * X + t["qyy"] * Y
            hxx += t["qxx"]
            hxy += t["qxy"]
            hyy += t["qyy"]
        elif k == "sin":    # A sin(kx X + px) sin(ky Y + py)
            ax, ay = t["kx"] * (x - t["xr"]) + t["px"], t["ky"] * (y - t["yr"]) + t["py"]
            sx, cx, sy, cy = np.sin(ax), np.cos(ax), np.sin(ay), np.cos(ay)
            A, kx, ky = t["A"], t["kx"], t["ky"]
            v += A * sx * sy
            gx += A * kx * cx * sy
            gy += A * ky * sx * cy
            hxx += -A * kx * kx * sx * sy
            hxy += A * kx * ky * cx * cy
            hyy += -A * ky * ky * sx * sy
        elif k == "solovev":  # A [ (x^2 - R0^2)^2 + kap x^2 Y^2 ]
            A, R0, kap = t["A"], t["R0"], t["kap"]
            Y = y - t["yr"]
            w = x * x - R0 * R0
            v += A * (w * w + kap * x * x * Y * Y)
            gx += A * (4 * x * w + 2 * kap * x * Y * Y)
            gy += A * (2 * kap * x * x * Y)
            hxx += A * (4 * w + 8 * x * x + 2 * kap * Y * Y)
            hxy += A * (4 * kap * x * Y)
            hyy += A * (2 * kap * x * x)
    return v, gx, gy, hxx, hxy, hyy


def psi_terms(p, box):
    """Flux-map parameters (normalised, JSON) + box (xl, xr, yb, yt) -> closed-form terms.

    Every family keeps one directional derivative of psi bounded away from 0 on the whole box, so the discrete
    gradient (each component is the mean of the exact partial derivative over a grid segment) cannot vanish."""
    xl, xr, yb, yt = box
    Lx, Ly = xr - xl, yt - yb
    kind = p["kind"]
    if kind == "bowl":
        # A [ ex (x-xa)^2 + ey (y-ya)^2 ] with the axis outside the box by margin*extent on the chosen side
        m, off, ecc, A = p["margin"], p["off"], p["ecc"], p["amp"]
        side = p["side"]
        if side in ("x-", "x+"):
            xa = xl - m * Lx if side == "x-" else xr + m * Lx
            ya = yb + off * Ly
            ex, ey = 1.0, ecc
        else:
            ya = yb - m * Ly if side == "y-" else yt + m * Ly
            xa = xl + off * Lx
            ex, ey = ecc, 1.0
        s = A / (Lx * Lx + Ly * Ly)
        return [{"k": "poly2", "xr": xa, "yr": ya, "c0": 0.0, "a": 0.0, "b": 0.0, "qxx": 2 * s * ex, "qxy": 0.0, "qyy": 2 * s * ey}]
    if kind == "solovev":
        # magnetic axis radius R0 = s * (inner edge of the box) < every R of the grid => psi_x > 0 everywhere
        R0 = p["s"] * xl
        return [{"k": "solovev", "A": p["amp"] / xr ** 4, "R0": R0, "kap": p["kap"], "yr": yb + p["off"] * Ly}]
    # plane (+ bounded perturbation):  g (cos th X + sin th Y) + pert,  |grad pert| <= kappa * |g| on the box
    g, th = p["g"], p["theta"]
    xc, yc = 0.5 * (xl + xr), 0.5 * (yb + yt)
    ca, sa = math.cos(th), math.sin(th)
    ca, sa = (0.0 if abs(ca) < 1e-15 else ca), (0.0 if abs(sa) < 1e-15 else sa)   # axis-aligned maps: exact zero component
    terms = [{"k": "poly2", "xr": xc, "yr": yc, "c0": p.get("c0", 0.0), "a": g * ca, "b": g * sa,
              "qxx": 0.0, "qxy": 0.0, "qyy": 0.0}]
    if kind == "quad":
        cx, cy = xl + p["cx"] * Lx, yb + p["cy"] * Ly
        r = max(math.hypot(X - cx, Y - cy) for X in (xl, xr) for Y in (yb, yt))
        qxx, qxy, qyy = p["q"]
        fro = math.sqrt(qxx * qxx + 2 * qxy * qxy + qyy * qyy)
        s = p["kappa"] * abs(g) / (r * fro)
        terms.append({"k": "poly2", "xr": cx, "yr": cy, "c0": 0.0, "a": 0.0, "b": 0.0,
                      "qxx": s * qxx, "qxy": s * qxy, "qyy": s * qyy})
    elif kind == "sin":
        kx, ky = p["kx"] / Lx, p["ky"] / Ly
        A = p["kappa"] * abs(g) / math.hypot(kx, ky)
        terms.append({"k": "sin", "A": A, "kx": kx, "ky": ky, "px": p["px"], "py": p["py"], "xr": xl, "yr": yb})
    return terms


def f_terms(p, box):
    """Test field in box coordinates xi=(x-xl)/Lx, eta=(y-yb)/Ly: c0 + a xi + b eta + quadratic form/2 + A sin sin."""
    xl, xr, yb, yt = box
    Lx, Ly = xr - xl, yt - yb
    a, b, qxx, qxy, qyy = p["poly"]
    return [{"k": "poly2", "xr": xl, "yr": yb, "c0": p["c0"], "a": a / Lx, "b": b / Ly,
             "qxx": qxx / (Lx * Lx), "qxy": qxy / (Lx * Ly), "qyy": qyy / (Ly * Ly)},
            {"k": "sin", "A": p["A"], "kx": p["kx"] / Lx, "ky": p["ky"] / Ly, "px": p["px"], "py": p["py"], "xr": xl, "yr": yb}]


def continuous_operator(psi, f, x, y, anisotropy):
    """(1/R) d_i (R D_ij d_j f), D = Dpar (I - n n^T) + Dperp n n^T, n = grad psi/|grad psi|, Dpar = 1, Dperp = 1/anisotropy.

    Returns (value, scale) where scale is the sum of the absolute values of the individual terms."""
    _, px, py, pxx, pxy, pyy = _terms_eval(psi, x, y)
    _, fx, fy, fxx, fxy, fyy = _terms_eval(f, x, y)
    dpar, dperp = 1.0, 1.0 / anisotropy
    dd = dperp - dpar
    g = np.hypot(px, py)
    nx, ny = px / g, py / g
    hnx, hny = pxx * nx + pxy * ny, pxy * nx + pyy * ny        # H n
    nhn = nx * hnx + ny * hny
    divn = (pxx + pyy - nhn) / g
    ndnx, ndny = (hnx - nhn * nx) / g, (hny - nhn * ny) / g    # (n.grad) n
    ngf = nx * fx + ny * fy
    t = [dpar * fxx, dpar * fyy, dpar * fx / x,
         dd * (nx * nx * fxx + 2 * nx * ny * fxy + ny * ny * fyy),
         dd * divn * ngf,
         dd * (ndnx * fx + ndny * fy),
         dd * nx * ngf / x]
    return sum(t), sum(np.abs(k) for k in t)


# ------------------------------------------------------------------------------------------------ grids
def build_grid(nx, ny, dx, dy, x0, ytop):
    """Column-major grid as documented: i = ix*ny + iy, cell centre (x0 + ix*dx, ytop - iy*dy)."""
    ix = np.repeat(np.arange(nx), ny)
    iy = np.tile(np.arange(ny), nx)
    xc = x0 + ix * dx
    yc = ytop - iy * dy
    v = np.empty((nx * ny, 4, 2))
    for k, (sx, sy) in enumerate(((1, 1), (1, -1), (-1, -1), (-1, 1))):   # vertex order of test_admt.py
        v[:, k, 0] = xc + sx * dx / 2
        v[:, k, 1] = yc + sy * dy / 2
    m12 = {i: (int(ix[i]), int(iy[i])) for i in range(nx * ny)}
    m21 = {(int(ix[i]), int(iy[i])): i for i in range(nx * ny)}
    interior = (ix > 0) & (ix < nx - 1) & (iy > 0) & (iy < ny - 1)
    return {"ix": ix, "iy": iy, "x": xc, "y": yc, "verts": v, "m12": m12, "m21": m21, "interior": interior}


_WALKS = [[(st_ + d * i) % 4 for i in range(4)] for st_ in range(4) for d in (1, -1)]      # 8 perimeter walks; _WALKS[0] = test_admt.py
_ZN = [[2, 3, 1, 0], [2, 1, 3, 0], [0, 1, 3, 2], [0, 3, 1, 2]]     # itertools.product order, meshgrid order, and their reversals


def _apply_corners(verts, corners):
    """Re-list the four corners of every voxel: [mode, k] with mode walk (k 0..7) / zn (k 0..3) / perm (one permutation
    for all voxels, seed k) / voxelperm (an independent permutation per voxel, seed k).  Returns (new array, label)."""
    if not corners:
        return verts, "walk0"
    mode, k = corners[0], int(corners[1])
    if mode == "walk":
        return verts[:, _WALKS[k % 8], :].copy(), "walk"
    if mode == "zn":
        return verts[:, _ZN[k % 4], :].copy(), "zn"
    if mode == "perm":
        return verts[:, _perm(4, k), :].copy(), "perm"
    out = verts.copy()
    for i in range(verts.shape[0]):
        out[i] = verts[i, _perm(4, k + 7919 * i), :]
    return out, "voxelperm"


def _corner_strategy():
    if is_open(KNOWN_CORNERS) and not os.environ.get("VERIF_C20_NO_EXCLUSION"):   # per-voxel orders change the last bit of np.mean of the corners -> dx taken as ~1e-16
        return st.one_of(st.tuples(st.just("walk"), st.integers(0, 7)), st.tuples(st.just("zn"), st.integers(0, 3)),
                         st.tuples(st.just("perm"), st.integers(0, 2 ** 20))).map(list)
    return st.one_of(st.tuples(st.just("walk"), st.integers(0, 7)), st.tuples(st.just("zn"), st.integers(0, 3)),
                     st.tuples(st.just("perm"), st.integers(0, 2 ** 20)), st.tuples(st.just("voxelperm"), st.integers(0, 2 ** 20))).map(list)


def _grid_from_case(g):
    nx, ny, dx, dy = int(g["nx"]), int(g["ny"]), float(g["dx"]), float(g["dy"])
    x0 = dx * (0.5 + float(g["rho"]))
    ytop = dy * float(g["tau"])
    grid = build_grid(nx, ny, dx, dy, x0, ytop)
    grid["corners"] = g.get("corners")
    box = (x0 - dx / 2, x0 + (nx - 0.5) * dx, ytop - (ny - 0.5) * dy, ytop + dy / 2)
    return nx, ny, dx, dy, grid, box


def _operators(ctx, grid, n):
    """Operators for the grid with the case's corner order; the docstring only asks for 'the vertices of each voxel', so
    the result must not depend on the order the four corners are listed in (differential against the test's order)."""
    verts, lab = _apply_corners(grid["verts"], grid.get("corners"))
    ctx.label("corners:" + lab)
    with ctx.cut("generate_derivative_operators[corners %s]" % lab):
        ops = generate_derivative_operators(verts, grid["m12"], grid["m21"])
    if lab != "walk0" and n <= 200 and isinstance(ops, dict):
        with ctx.cut("generate_derivative_operators"):
            ref = generate_derivative_operators(grid["verts"], grid["m12"], grid["m21"])
        for k in ("Dx", "Dy", "Dxx", "Dxy", "Dyy"):
            if k in ops and np.shape(ops[k]) == np.shape(ref[k]):
                ctx.close(ops[k], ref[k], "corner-order:%s" % k, rtol=1e-12, scale=_norm(ref[k]),
                          info="(corners listed as %r: %s differs from the perimeter-walk order of test_admt.py)" % (grid.get("corners"), k))
    ctx.check(isinstance(ops, dict) and set(ops) >= {"Dx", "Dy", "Dxx", "Dxy", "Dyy"}, "operators",
              lambda: "expected the five operators, got %r" % (sorted(ops) if isinstance(ops, dict) else type(ops),))
    for k in ("Dx", "Dy", "Dxx", "Dxy", "Dyy"):
        a = np.asarray(ops[k])
        ctx.check(a.shape == (n, n), "operators", lambda: "%s has shape %s for %d cells" % (k, a.shape, n))
        ctx.check(bool(np.all(np.isfinite(a))), "operators", "%s contains non-finite entries" % k)
    return ops


def _norm(a):
    return float(np.max(np.sum(np.abs(a), axis=1)))


# ------------------------------------------------------------------------------------------------ strategies
def _log10(lo, hi):
    return st.floats(lo, hi).map(lambda u: 10.0 ** u)


def _signed(lo, hi):
    return st.builds(lambda s, m: s * m, st.sampled_from([-1.0, 1.0]), st.floats(lo, hi))


_PI = math.pi


@st.composite
def grid_strategy(draw, lo=2, hi=None, any_x=False):
    """any_x=True (derivative operators only, they never divide by R): x origin anywhere, also straddling 0."""
    hi = deep(12, 24) if hi is None else hi
    small = st.integers(lo, min(hi, 4))
    n = st.one_of(small, st.integers(lo, hi), st.sampled_from([lo, hi]))
    nx, ny = draw(n), draw(n)
    dx = draw(st.one_of(_log10(-3, 1), st.sampled_from([1.0, 0.01, 2.0, 0.5])))
    dy = draw(st.one_of(_log10(-3, 1), st.just(dx), st.sampled_from([1.0, 0.01])))
    # Z of the top row centre = dy*tau: anywhere / a row centre exactly on Z=0 / rows symmetric about 0 / straddling asymmetrically
    tau = draw(st.one_of(st.floats(-40.0, 40.0), st.integers(0, ny - 1).map(float), st.just((ny - 1) / 2.0),
                         st.floats(-0.45, ny - 0.55)))
    rho = st.one_of(st.floats(0.05, 2.0), st.floats(0.05, 40.0), st.sampled_from([0.5, 1.5, 0.05]))
    if any_x:   # column centre k sits at x = dx*(0.5+rho+k)
        rho = st.one_of(rho, st.floats(-40.0, 40.0), st.integers(0, nx - 1).map(lambda k: -0.5 - k),
                        st.just(-0.5 - (nx - 1) / 2.0), st.floats(-nx + 0.05, -0.55))
    return {"nx": nx, "ny": ny, "dx": dx, "dy": dy, "rho": draw(rho), "tau": tau, "corners": draw(_corner_strategy())}


def _grid_labels(ctx, g):
    nx, ny, rho, tau = int(g["nx"]), int(g["ny"]), float(g["rho"]), float(g["tau"])
    if -0.5 < tau < ny - 0.5:
        ctx.label("z:straddles0")
        if tau == int(tau):
            ctx.label("z:centre_on_0")
        elif tau != (ny - 1) / 2.0:
            ctx.label("z:asymmetric_about_0")
    if -nx < rho < -0.5:
        ctx.label("x:straddles0")
    if g["dx"] == g["dy"]:
        ctx.label("dx==dy")
    if min(nx, ny) == 2:
        ctx.label("n=2")
    if max(nx, ny) == 12:
        ctx.label("n=12")


@st.composite
def psi_strategy(draw, kmax, margin_min, y_free):
    """Flux map parameters.  y_free=True restricts to maps that do not depend on y (psi = psi(x)): the only class on
    which the open finding C20-dnorm-cx does not bite (the wrong term is multiplied by the discrete d psi/dy)."""
    kind = draw(st.sampled_from(["plane", "quad", "sin", "bowl", "solovev", "quad", "sin", "bowl"]))
    if kind == "bowl":
        return {"kind": kind, "amp": draw(_signed(0.1, 10.0)), "margin": draw(st.floats(margin_min, 3.0)),
                "off": draw(st.floats(-1.0, 2.0)), "ecc": 0.0 if y_free else draw(st.one_of(st.just(1.0), st.floats(0.0, 4.0))),
                "side": draw(st.sampled_from(["x-", "x+"] if y_free else ["x-", "x+", "y-", "y+"]))}
    if kind == "solovev":
        return {"kind": kind, "amp": draw(_signed(0.1, 10.0)), "s": draw(st.floats(0.3, 0.9)),
                "kap": 0.0 if y_free else draw(st.floats(0.0, 3.0)), "off": draw(st.floats(-1.0, 2.0))}
    p = {"kind": kind, "g": draw(_signed(0.1, 10.0)), "c0": draw(st.floats(-10.0, 10.0)),
         "theta": 0.0 if y_free else draw(st.one_of(st.sampled_from([0.0, _PI / 2, _PI / 4, -_PI / 4, _PI, -_PI / 2, 0.3]), st.floats(-_PI, _PI)))}
    if kind == "quad":
        p["kappa"] = draw(st.floats(0.05, 0.4))
        p["cx"], p["cy"] = draw(st.floats(-1.0, 2.0)), draw(st.floats(-1.0, 2.0))
        p["q"] = [draw(_signed(0.1, 1.0)), 0.0, 0.0] if y_free else [draw(st.floats(-1.0, 1.0)), draw(st.floats(-1.0, 1.0)), draw(_signed(0.1, 1.0))]
    elif kind == "sin":
        p["kappa"] = draw(st.floats(0.05, 0.4))
        p["kx"], p["px"] = draw(st.floats(0.3, kmax)), draw(st.floats(0.0, 2 * _PI))
        if y_free:
            p["ky"], p["py"] = 0.0, _PI / 2
        else:
            p["ky"], p["py"] = draw(st.floats(0.3, kmax)), draw(st.floats(0.0, 2 * _PI))
    return p


_aniso = st.one_of(st.integers(2, 100), st.floats(1.0, 100.0), st.floats(1.0, 3.0), st.sampled_from([10, 10.0, 2, 100.0, 1.5]))
_near1 = st.sampled_from([1.0 + 1e-9, 1.0 + 2.0 ** -52, 1.0 + 1e-12, 1.0 + 1e-7, 1.000001])


def _anisotropy(draw):
    k = draw(st.integers(0, 9))
    if k < 4:
        return draw(st.sampled_from([1, 1.0]))
    if k == 4:
        return draw(_near1)       # continuity at 1
    return draw(_aniso)


@st.composite
def stencil_strategy(draw):
    c = st.floats(-10.0, 10.0)
    nz = _signed(0.1, 10.0)
    return {"grid": draw(grid_strategy(any_x=True)), "ref": [draw(st.floats(-1.0, 2.0)), draw(st.floats(-1.0, 2.0))],
            "c0": draw(c), "const": draw(_signed(0.01, 100.0)), "poly": [draw(nz) for _ in range(5)]}


def _excluded():
    """Single switch for the open finding C20-dnorm-cx.  While it is open, flux maps that depend on y are not generated
    where the wrong term matters: `refine` (all cases) and the anisotropy-1 cases of `admt` (the identity with the
    Laplacian) only get psi = psi(x) - the wrong term is multiplied by the discrete d psi/dy, so that is exactly the
    class on which the code is right.  finite / annihilates-constants keep the full class.
    VERIF_C20_NO_EXCLUSION=1 (development only) generates the full class, to validate a candidate fix in a scratch copy."""
    return is_open(KNOWN) and not os.environ.get("VERIF_C20_NO_EXCLUSION")


@st.composite
def admt_strategy(draw):
    aniso = _anisotropy(draw)
    # finite / annihilates-constants hold for every flux map even with the finding open; only the anisotropy-1 identity fails
    y_free = _excluded() and abs(float(aniso) - 1.0) <= 1e-6
    nz = _signed(0.1, 10.0)
    return {"grid": draw(grid_strategy()), "psi": draw(psi_strategy(6.0, 0.2, y_free)), "aniso": aniso,
            "const": draw(_signed(0.1, 100.0)),
            # psi -> c*psi leaves the flux surfaces (hence the operator) unchanged
            "pscale": draw(st.one_of(st.sampled_from([1e-2, 1e-3, 1e-4, 1e-5, 1e-6, -1.0, 0.5, 1e3, -1e-6]), _log10(-6, 3),
                                     _log10(-6, 3).map(lambda v: -v))),
            # quadratic test field (exactness in interior cells when the flux map is a plane)
            "ref": [draw(st.floats(-1.0, 2.0)), draw(st.floats(-1.0, 2.0))], "poly": [draw(nz) for _ in range(5)]}


@st.composite
def refine_strategy(draw):
    y_free = _excluded()
    n = st.integers(5, 7)
    k = st.floats(0.3, 5.0)
    ph = st.floats(0.0, 2 * _PI)
    c = st.floats(-1.0, 1.0)
    return {"nx": draw(n), "ny": draw(n), "Lx": draw(_log10(-2, 1)), "Ly": draw(_log10(-2, 1)),
            "rho": draw(st.one_of(st.floats(0.5, 1.5), st.floats(0.5, 5.0))), "tau": draw(st.floats(-5.0, 5.0)),
            "psi": draw(psi_strategy(5.0, 0.5, y_free)), "aniso": _anisotropy(draw), "corners": draw(_corner_strategy()),
            "f": {"c0": draw(c), "poly": [draw(c) for _ in range(5)], "A": draw(_signed(0.2, 1.0)),
                  "kx": draw(k), "ky": draw(k), "px": draw(ph), "py": draw(ph)}}


# ------------------------------------------------------------------------------------------------ (a) stencils
def run_stencils(case, ctx):
    nx, ny, dx, dy, grid, box = _grid_from_case(case["grid"])
    n = nx * ny
    ops = _operators(ctx, grid, n)
    interior = grid["interior"]
    ctx.label("interior" if interior.any() else "no_interior")
    ctx.label("nx!=ny" if nx != ny else "square")
    _grid_labels(ctx, case["grid"])
    ctx.nt(True)     # all of a..e are non-zero by construction
    xr = box[0] + case["ref"][0] * (box[1] - box[0])
    yr = box[2] + case["ref"][1] * (box[3] - box[2])
    X, Y = grid["x"] - xr, grid["y"] - yr
    c0 = float(case["c0"])
    a, b, c, d, e = [float(v) for v in case["poly"]]
    const = np.full(n, float(case["const"]))
    lin = c0 + a * X + b * Y
    bil = lin + c * X * Y
    quad = bil + d * X * X + e * Y * Y
    nrm = {k: _norm(ops[k]) for k in ops}

    def expect(name, field, want, what, mask=None):
        got = np.asarray(ops[name]) @ field
        w = np.full(n, float(want))
        if mask is not None:
            got, w = got[mask], w[mask]
        ctx.close(got, w, "%s:%s" % (what, name), rtol=0.0, atol=1e-9 * nrm[name] * float(np.max(np.abs(field))),
                  info="(%s on a %dx%d grid, dx=%g dy=%g)" % (what, nx, ny, dx, dy))

    for name in ("Dx", "Dy", "Dxx", "Dxy", "Dyy"):
        expect(name, const, 0.0, "constant")
    expect("Dx", lin, a, "linear")
    expect("Dy", lin, b, "linear")
    expect("Dxy", lin, 0.0, "linear")
    expect("Dxy", bil, c, "bilinear")
    if interior.any():
        expect("Dxx", quad, 2 * d, "quadratic-interior", interior)
        expect("Dyy", quad, 2 * e, "quadratic-interior", interior)
        expect("Dxx", bil, 0.0, "bilinear-interior", interior)
        expect("Dyy", bil, 0.0, "bilinear-interior", interior)


# ------------------------------------------------------------------------------------------------ (b) ADMT algebra
def _psi_class(p):
    return "plane" if p["kind"] == "plane" else "curved"


def _admt(ctx, grid, ops, psi, dx, dy, aniso, n, radii=None):
    radii = grid["x"].copy() if radii is None else radii
    snap = (psi.copy(), radii.copy())
    with ctx.cut("calculate_admt"):
        A = calculate_admt(radii, ops, psi, dx, dy, anisotropy=aniso)
    A = np.asarray(A)
    ctx.check(bool(np.array_equal(psi, snap[0])) and bool(np.array_equal(radii, snap[1])), "caller-owned",
              "calculate_admt modified its psi / radii arguments in place")
    ctx.check(A.shape == (n, n), "admt-shape", lambda: "operator has shape %s for %d cells" % (A.shape, n))
    ctx.check(bool(np.all(np.isfinite(A))), "admt-finite",
              lambda: "%d non-finite entries in the ADMT operator" % int(np.sum(~np.isfinite(A))))
    return A


def _psi_cond(ops, psi, dx, dy):
    """max|psi| / (min discrete |grad psi| * min(dx,dy)): amplification of a relative perturbation eps of the psi samples
    into the direction of the discrete gradient and into psi''/|grad psi| * h."""
    g = np.hypot(ops["Dx"] @ psi, ops["Dy"] @ psi)
    return float(np.max(np.abs(psi)) / (np.min(g) * min(dx, dy)))


_EPS = 2.220446049250313e-16


def run_admt(case, ctx):
    nx, ny, dx, dy, grid, box = _grid_from_case(case["grid"])
    n = nx * ny
    aniso = case["aniso"]
    iso = float(aniso) == 1.0
    near = (not iso) and abs(float(aniso) - 1.0) <= 1e-6
    cls = _psi_class(case["psi"])
    kind = case["psi"]["kind"]
    ctx.label("%s:%s" % ("iso" if iso else "near1" if near else "aniso", cls), "psi:" + kind)
    ctx.label("aniso:%s" % ("int" if isinstance(aniso, int) else "float"))
    _grid_labels(ctx, case["grid"])
    if _excluded() and (iso or near):
        ctx.label("excluded_known:psi_depends_on_y")
    ctx.nt(cls == "curved" or (not iso and int(grid["interior"].sum()) >= 4))
    ops = _operators(ctx, grid, n)
    terms = psi_terms(case["psi"], box)
    psi = _terms_eval(terms, grid["x"], grid["y"])[0]
    gx, gy = ops["Dx"] @ psi, ops["Dy"] @ psi
    if bool(np.any(gx == 0.0)) or bool(np.any(gy == 0.0)):
        ctx.label("psi:zero_component")
    A = _admt(ctx, grid, ops, psi, dx, dy, aniso, n)
    nA = _norm(A)
    desc = "(anisotropy %r, %s flux map, %dx%d grid)" % (aniso, kind, nx, ny)
    cval = float(case["const"])
    ctx.close(A @ np.full(n, cval), np.zeros(n), "admt-constant", rtol=0.0, atol=1e-9 * nA * abs(cval), info=desc)
    ref = (ops["Dxx"] + ops["Dyy"] + ops["Dx"] / grid["x"][:, None]) * math.sqrt(dx * dy)
    if iso:
        ctx.close(A, ref, "admt-iso-laplacian", rtol=1e-9, scale=_norm(ref),
                  info="anisotropy 1 must give (Dxx+Dyy+Dx/R)*sqrt(dx dy) %s, flat index = row*%d+col" % (desc, n))
    elif near:
        # the operator is P + Q/anisotropy with ||Q|| <= a few ||ref||: Lipschitz-continuous at anisotropy 1
        ctx.close(A, ref, "admt-continuity-at-1", rtol=1e-9 + 50.0 * abs(float(aniso) - 1.0), scale=_norm(ref),
                  info="anisotropy -> 1 must tend to (Dxx+Dyy+Dx/R)*sqrt(dx dy) %s" % desc)
    # ---- a time loop on the caller's own objects: the same operators dict and the same flux-map buffer, refilled in place between
    # the calls (psi, then psi + lam*x whose gradient cannot vanish, then psi again); each answer is that of fresh copies
    lam = 3.0 * float(np.max(np.abs(gx))) + float(np.max(np.abs(gy)))
    if lam > 0 and np.isfinite(lam):
        buf, radii = psi.copy(), grid["x"].copy()
        psi2 = psi + lam * (grid["x"] - float(np.mean(grid["x"])))
        seq = []
        for fill in (psi, psi2, psi):
            buf[:] = fill
            seq.append(_admt(ctx, grid, ops, buf, dx, dy, aniso, n, radii=radii))
        ref2 = _admt(ctx, grid, {k: v.copy() for k, v in ops.items()}, psi2.copy(), dx, dy, aniso, n)
        for k_, (got_, want_, what_) in enumerate(((seq[0], A, "psi"), (seq[1], ref2, "psi + lam*x (buffer refilled in place)"),
                                                   (seq[2], A, "psi again (buffer refilled in place)"))):
            ctx.check(bool(np.array_equal(got_, want_)), "admt-same-objects",
                      lambda: "call %d on the same operators dict and flux-map buffer, holding %s: differs from the call on fresh copies by %.3g "
                      "(operator norm %.3g) %s" % (k_ + 1, what_, float(np.max(np.abs(got_ - want_))), float(np.max(np.abs(want_))), desc))
        ctx.label("same-objects")
    # ---- psi -> c*psi: same flux surfaces, same operator (every anisotropy)
    c = float(case.get("pscale", 1.0))
    if c != 1.0:
        ctx.label("pscale:%s" % ("negative" if c < 0 else "<=1e-2" if c <= 1e-2 else "other"))
        As = _admt(ctx, grid, ops, psi * c, dx, dy, aniso, n)
        ctx.close(As, A, "admt-psi-scale", rtol=0.0, atol=nA * (1e-9 + 100 * _EPS * _psi_cond(ops, psi, dx, dy)),
                  info="psi -> %g*psi changed the operator %s" % (c, desc))
    # ---- plane flux map (constant D, oblique to the axes in general): exact for quadratic f in interior cells
    inn = grid["interior"]
    if kind == "plane" and int(inn.sum()) >= 4 and "poly" in case:
        th = float(case["psi"]["theta"])
        obl = min(abs(math.sin(th)), abs(math.cos(th))) > 0.05
        ctx.label("plane-quadratic:%s:%s" % ("iso" if iso else "aniso", "oblique" if obl else "aligned"))
        xr = box[0] + case["ref"][0] * (box[1] - box[0])
        yr = box[2] + case["ref"][1] * (box[3] - box[2])
        a_, b_, c_, d_, e_ = [float(v) for v in case["poly"]]
        f_t = [{"k": "poly2", "xr": xr, "yr": yr, "c0": cval, "a": a_, "b": b_, "qxx": 2 * d_, "qxy": c_, "qyy": 2 * e_}]
        f = _terms_eval(f_t, grid["x"], grid["y"])[0]
        s = math.sqrt(dx * dy)
        got = (A @ f)[inn] / s
        want, scale = continuous_operator(terms, f_t, grid["x"][inn], grid["y"][inn], float(aniso))
        lam = 1.0 if iso else float(np.dot(got, want) / np.dot(want, want))   # normalisation for anisotropy != 1: see ASSUMPTIONS
        tol = (1e-9 + 100 * _EPS * _psi_cond(ops, psi, dx, dy)) * nA * float(np.max(np.abs(f))) / s
        ctx.check(lam > 0, "admt-plane-quadratic", lambda: "fitted normalisation %r <= 0 %s" % (lam, desc))
        ctx.close(got, lam * want, "admt-plane-quadratic", rtol=0.0, atol=tol,
                  info="L@f/sqrt(dx dy) is not lambda*[D_ij f_ij + D_xj f_j/R] (lambda=%.6g, theta=%g) for quadratic f in interior cells %s"
                       % (lam, th, desc))


# ------------------------------------------------------------------------------------------------ (c) refinement
def run_refine(case, ctx):
    nx0, ny0 = int(case["nx"]), int(case["ny"])
    Lx, Ly = float(case["Lx"]), float(case["Ly"])
    xl = Lx * float(case["rho"])
    yt = Ly * float(case["tau"])
    box = (xl, xl + Lx, yt - Ly, yt)
    aniso = case["aniso"]
    iso = float(aniso) == 1.0
    cls = _psi_class(case["psi"])
    ctx.label("%s:%s" % ("iso" if iso else "aniso", cls), "psi:" + case["psi"]["kind"])
    if _excluded():
        ctx.label("excluded_known:psi_depends_on_y")
    ctx.nt(cls == "curved")
    psi_t = psi_terms(case["psi"], box)
    f_t = f_terms(case["f"], box)
    levels = []
    for m in (1, 2, 4):
        nx, ny = nx0 * m, ny0 * m
        dx, dy = Lx / nx, Ly / ny
        grid = build_grid(nx, ny, dx, dy, xl + dx / 2, yt - dy / 2)
        grid["corners"] = case.get("corners")
        n = nx * ny
        ops = _operators(ctx, grid, n)
        psi = _terms_eval(psi_t, grid["x"], grid["y"])[0]
        f = _terms_eval(f_t, grid["x"], grid["y"])[0]
        A = _admt(ctx, grid, ops, psi, dx, dy, aniso, n)
        s = math.sqrt(dx * dy)
        inn = grid["interior"]
        want, scale = continuous_operator(psi_t, f_t, grid["x"][inn], grid["y"][inn], float(aniso))
        # cells inside the region covered by the interior cells of the coarsest grid (same physical region on all levels)
        h0x, h0y = Lx / nx0, Ly / ny0
        core_ = ((grid["x"] > xl + h0x) & (grid["x"] < xl + Lx - h0x) & (grid["y"] > yt - Ly + h0y) & (grid["y"] < yt - h0y))[inn]
        levels.append({"got": (A @ f)[inn] / s, "want": want, "scale": float(np.max(scale)), "core": core_,
                       "floor": 1e-9 * _norm(A) * float(np.max(np.abs(f))) / s, "n": (nx, ny)})
    fin = levels[-1]
    if iso:
        lam = 1.0
    else:
        lam = float(np.dot(fin["got"], fin["want"]) / np.dot(fin["want"], fin["want"]))
        ctx.check(math.isfinite(lam) and lam > 0, "refine-sign",
                  lambda: "operator is anti-correlated with div(D grad f): fitted factor %r" % lam)
    ctx.label("norm:Dpar=1" if abs(lam - 1.0) < 0.02 else "norm:other")
    err = [float(np.max(np.abs(L["got"] - lam * L["want"])[L["core"]])) for L in levels]
    efin = float(np.max(np.abs(fin["got"] - lam * fin["want"])))
    S = lam * fin["scale"]
    desc = "(anisotropy %r, %s flux map, grids %s, errors %s, operator scale %.4g, lambda %.4g)" % (
        aniso, case["psi"]["kind"], [L["n"] for L in levels], ["%.3g" % v for v in err], S, lam)
    ctx.check(efin < 0.05 * S, "refine-consistency",
              lambda: "error on the finest grid is %.3g%% of the operator scale (limit 5%%) %s" % (100 * efin / S, desc))
    for k in (0, 1):
        ctx.check(err[k + 1] <= max(err[k] / 1.6, levels[k + 1]["floor"]), "refine-rate",
                  lambda: "error does not shrink >= 1.6x from level %d to %d %s" % (k, k + 1, desc))



# ------------------------------------------------------------------------------------------------ (d) input forms, re-use, caller-owned data
V_FORMS = ["ndarray", "list", "tuple", "fortran", "strided", "readonly", "float32", "int"]      # last two: integer grids only (exact)
M_FORMS = ["dict", "reversed", "shuffled", "ordered", "proxy"]
A_FORMS = ["f64", "strided", "readonly", "list", "f32", "int"]     # radii; psi has no "list" (the code needs .shape); "int": integer grids
O_FORMS = ["dict", "reordered+extra", "fortran", "readonly", "ordered"]
S_FORMS = ["float", "npfloat", "int"]                               # dx, dy scalars; "int": integer grids (test_admt.py passes ints)
CALLS = ["kw", "pos", "allkw", "default"]                           # default: anisotropy omitted (documented default 10)


@st.composite
def forms_strategy(draw):
    integer = draw(st.booleans())
    if integer:   # integer coordinates: every dtype conversion is exact
        nx, ny = draw(st.integers(2, 7)), draw(st.integers(2, 7))
        dx, dy = draw(st.sampled_from([2, 4])), draw(st.sampled_from([2, 4, 6]))
        grid = {"int": True, "nx": nx, "ny": ny, "dx": dx, "dy": dy, "x0": draw(st.integers(1, 40)) + dx // 2,
                "ytop": draw(st.integers(-20, 20)), "corners": draw(_corner_strategy())}
    else:
        grid = draw(grid_strategy(hi=8))
    pick = lambda forms, n_general: st.sampled_from(forms if integer else forms[:n_general])   # noqa: E731
    call = draw(st.sampled_from(CALLS))
    a0 = 10 if call == "default" else _anisotropy(draw)
    return {"grid": grid, "vform": draw(pick(V_FORMS, 6)), "mform": [draw(st.sampled_from(M_FORMS)), draw(st.sampled_from(M_FORMS))],
            "mseed": draw(st.integers(0, 2 ** 31)), "rform": draw(pick(A_FORMS, 5)),
            "pform": draw(pick([f for f in A_FORMS if f != "list"], 4)), "oform": draw(st.sampled_from(O_FORMS)),
            "sform": draw(pick(S_FORMS, 2)), "call": call, "aniso": a0, "aniso2": _anisotropy(draw),
            "psi": draw(psi_strategy(4.0, 0.3, _excluded())), "ipsi": [draw(st.integers(-9, 9)), draw(st.sampled_from([-7, -2, 1, 3, 8]))],
            "psi2": draw(psi_strategy(4.0, 0.3, _excluded()))}


def _perm(n, seed):
    """Deterministic Fisher-Yates permutation from an integer seed (no RNG state inside run)."""
    idx, x = list(range(n)), (seed * 2654435761 + 12345) % (1 << 32)
    for i in range(n - 1, 0, -1):
        x = (x * 1664525 + 1013904223) % (1 << 32)
        j = x % (i + 1)
        idx[i], idx[j] = idx[j], idx[i]
    return idx


def _map_form(m, form, seed):
    items = list(m.items())
    if form == "reversed":
        return dict(reversed(items))
    if form == "shuffled":
        return dict(items[i] for i in _perm(len(items), seed))
    if form == "ordered":
        return collections.OrderedDict(items[i] for i in _perm(len(items), seed + 1))
    if form == "proxy":
        return types.MappingProxyType(dict(items))
    return dict(items)


def _array_form(a, form):
    """Same values, other container / dtype / memory layout."""
    a = np.asarray(a)
    if form == "strided":
        big = np.zeros(a.shape[:-1] + (2 * a.shape[-1],), dtype=a.dtype)
        big[..., ::2] = a
        return big[..., ::2]
    if form == "fortran":
        return np.asfortranarray(a)
    if form == "readonly":
        b = a.copy()
        b.setflags(write=False)
        return b
    if form == "list":
        return a.tolist()
    if form == "tuple":
        return tuple(tuple(tuple(float(c) for c in v) for v in cell) for cell in a.tolist())
    if form == "f32" or form == "float32":
        return a.astype(np.float32)
    if form == "int":
        return a.astype(np.int64)
    return a.copy()


def _same(a, b):
    """bit-identical, also for nested lists/tuples and mappings."""
    if isinstance(a, np.ndarray):
        return isinstance(b, np.ndarray) and a.dtype == b.dtype and a.shape == b.shape and bool(np.array_equal(a, b))
    if isinstance(a, collections.abc.Mapping):
        return list(a.items()) == list(b.items())
    return a == b


def run_forms(case, ctx):
    g = case["grid"]
    integer = bool(g.get("int"))
    if integer:
        nx, ny, dx, dy = int(g["nx"]), int(g["ny"]), int(g["dx"]), int(g["dy"])
        grid = build_grid(nx, ny, float(dx), float(dy), float(g["x0"]), float(g["ytop"]))
        grid["corners"] = g.get("corners")
        box = (g["x0"] - dx / 2, g["x0"] + (nx - 0.5) * dx, g["ytop"] - (ny - 0.5) * dy, g["ytop"] + dy / 2)
    else:
        nx, ny, dx, dy, grid, box = _grid_from_case(g)
    n = nx * ny
    vform, rform, pform, oform, sform, call = case["vform"], case["rform"], case["pform"], case["oform"], case["sform"], case["call"]
    if not integer:   # replayed / shrunk cases: forms that are only exact on integer grids fall back to float64
        vform = "ndarray" if vform in ("float32", "int") else vform
        rform, pform = ("f64" if rform == "int" else rform), ("f64" if pform == "int" else pform)
        sform = "float" if sform == "int" else sform
    ctx.label("grid:%s" % ("integer" if integer else "general"), "vertices:" + vform, "map12:" + case["mform"][0], "map21:" + case["mform"][1],
              "radii:" + rform, "psi:" + pform, "operators:" + oform, "dxdy:" + sform, "call:" + call, "entry:generate_derivative_operators",
              "entry:calculate_admt")
    ctx.nt(True)
    ctx.check(_pkg.generate_derivative_operators is generate_derivative_operators and _pkg.calculate_admt is calculate_admt,
              "package-export", "cherab.tools.inversions does not export the admt_utils functions")
    ctx.label("entry:package-export")
    # ---------------- canonical float64 forms
    ops0 = _operators(ctx, grid, n)
    if pform == "int":    # integer-valued plane on the integer grid
        p_, q_ = case["ipsi"]
        psi64 = p_ * grid["x"] + q_ * grid["y"]
    else:
        psi64 = _terms_eval(psi_terms(case["psi"], box), grid["x"], grid["y"])[0]
        if pform == "f32":
            psi64 = psi64.astype(np.float32).astype(np.float64)
    R64 = grid["x"].copy()
    if rform == "f32":    # the radii argument is independent of the vertices: use float32-representable radii on both sides
        R64 = R64.astype(np.float32).astype(np.float64)
    a0, a2 = case["aniso"], case["aniso2"]
    A0 = _admt(ctx, grid, ops0, psi64, float(dx), float(dy), a0, n, radii=R64.copy())
    tolA = 1e-12 * _norm(A0)
    # ---------------- generate_derivative_operators: other container / dtype / layout / key orders
    verts = _array_form(_apply_corners(grid["verts"], grid.get("corners"))[0], vform)
    m12 = _map_form(grid["m12"], case["mform"][0], case["mseed"])
    m21 = _map_form(grid["m21"], case["mform"][1], case["mseed"] + 7)
    keep = (copy.deepcopy(verts), list(m12.items()), list(m21.items()))
    with ctx.cut("generate_derivative_operators[%s]" % vform):
        if call in ("pos", "default"):
            ops1 = generate_derivative_operators(verts, m12, m21)
        else:
            ops1 = generate_derivative_operators(voxel_vertices=verts, grid_index_1d_to_2d_map=m12, grid_index_2d_to_1d_map=m21)
    ctx.check(_same(verts, keep[0]) and list(m12.items()) == keep[1] and list(m21.items()) == keep[2], "caller-owned",
              "generate_derivative_operators modified its arguments (vertices %s)" % vform)
    for k in ("Dx", "Dy", "Dxx", "Dxy", "Dyy"):
        ctx.close(ops1[k], ops0[k], "form:%s" % k, rtol=1e-12, scale=_norm(ops0[k]),
                  info="(vertices as %s, maps as %s: result differs from the float64 ndarray / plain dict form)" % (vform, case["mform"]))
    with ctx.cut("generate_derivative_operators(second call)"):
        ops1b = generate_derivative_operators(verts, m12, m21)
    for k in ops1:
        ctx.check(bool(np.array_equal(ops1[k], ops1b[k])) and not np.shares_memory(ops1[k], ops1b[k]), "reuse-operators",
                  "second call with the same arguments: %s differs from / shares memory with the first result" % k)
    # ---------------- calculate_admt: forms
    if oform == "reordered+extra":
        opsf = {"junk": None, "Dyy": ops1["Dyy"], "Dxy": ops1["Dxy"], "Dy": ops1["Dy"], "Dxx": ops1["Dxx"], "Dx": ops1["Dx"]}
    elif oform == "ordered":
        opsf = collections.OrderedDict((k, ops1[k]) for k in ("Dxy", "Dx", "Dyy", "Dy", "Dxx"))
    elif oform in ("fortran", "readonly"):
        opsf = {k: _array_form(v, oform) for k, v in ops1.items()}
    else:
        opsf = ops1
    radii = _array_form(R64, rform)
    psi = _array_form(psi64, pform)
    sx, sy = (dx, dy) if sform == "int" else (np.float64(dx), np.float64(dy)) if sform == "npfloat" else (float(dx), float(dy))
    snap_ops = {k: np.array(opsf[k], copy=True) for k in ("Dx", "Dy", "Dxx", "Dxy", "Dyy")}
    snap_in = (copy.deepcopy(radii), psi.copy())

    def call_admt(psi_, aniso_):
        if call == "default":
            return calculate_admt(radii, opsf, psi_, sx, sy)
        if call == "pos":
            return calculate_admt(radii, opsf, psi_, sx, sy, aniso_)
        if call == "allkw":
            return calculate_admt(voxel_radii=radii, derivative_operators=opsf, psi_at_voxels=psi_, dx=sx, dy=sy, anisotropy=aniso_)
        return calculate_admt(radii, opsf, psi_, sx, sy, anisotropy=aniso_)

    with ctx.cut("calculate_admt[%s,%s,%s,%s,%s]" % (rform, pform, oform, sform, call)):
        A1 = np.asarray(call_admt(psi, a0))
    desc = "(radii %s, psi %s, operators %s, dx/dy %s, call %s, anisotropy %r)" % (rform, pform, oform, sform, call, a0)
    ctx.close(A1, A0, "form:admt", rtol=0.0, atol=tolA, info="result differs from the canonical float64 call " + desc)
    A1_snap = A1.copy()
    # ---------------- re-use of the same operators for other flux maps / anisotropies; first result intact; repeat is bit-identical
    psi_b = _terms_eval(psi_terms(case["psi2"], box), grid["x"], grid["y"])[0]
    with ctx.cut("calculate_admt(re-use)"):
        A2 = np.asarray(call_admt(psi_b, a2))
        A2c = np.asarray(calculate_admt(R64, ops0, psi_b, float(dx), float(dy), anisotropy=(10 if call == "default" else a2)))
        A3 = np.asarray(call_admt(psi, a0))
    ctx.close(A2, A2c, "reuse:second-call", rtol=0.0, atol=1e-12 * _norm(A2c),
              info="second call on the same operators (other flux map, anisotropy %r) differs from a fresh computation" % (a2,))
    ctx.check(bool(np.array_equal(A1, A1_snap)), "reuse:first-result-intact", "first result changed after a second call " + desc)
    ctx.check(not np.shares_memory(A1, A2) and not np.shares_memory(A1, A3), "reuse:aliasing", "results of separate calls share memory")
    ctx.check(bool(np.array_equal(A3, A1_snap)), "reuse:repeat", "repeating the first call does not reproduce it bit for bit " + desc)
    # ---------------- caller-owned data untouched; later modification by the caller does not leak into results
    ctx.check(_same(radii, snap_in[0]) and _same(psi, snap_in[1]), "caller-owned", "calculate_admt modified radii / psi " + desc)
    for k in snap_ops:
        ctx.check(bool(np.array_equal(np.asarray(opsf[k]), snap_ops[k])), "caller-owned", "calculate_admt modified operator %s %s" % (k, desc))
        ctx.check(not np.shares_memory(A1, np.asarray(opsf[k])), "caller-owned", "result aliases operator %s" % k)
    ops_snap = {k: np.array(ops1[k], copy=True) for k in ops1}
    if isinstance(verts, np.ndarray) and verts.flags.writeable:
        verts[...] = 0
    if isinstance(psi, np.ndarray) and psi.flags.writeable:
        psi[...] = 0
    if isinstance(radii, np.ndarray) and radii.flags.writeable:
        radii[...] = 1
    for k in ops1:
        ctx.check(bool(np.array_equal(ops1[k], ops_snap[k])), "caller-owned", "operator %s changed when the caller overwrote the vertex array" % k)
    ctx.check(bool(np.array_equal(A1, A1_snap)), "caller-owned", "ADMT operator changed when the caller overwrote psi / radii " + desc)


SUBCHECKS = {
    "stencils": Given(stencil_strategy, run_stencils, quick=1200, thorough=30000),
    "admt": Given(admt_strategy, run_admt, quick=1200, thorough=30000),
    "refine": Given(refine_strategy, run_refine, quick=160, thorough=2400),
    "forms": Given(forms_strategy, run_forms, quick=800, thorough=16000),
}
