"""C07 - OpenADAS rates reproduce the stored tables and honour the range / missing-data policy."""
import atexit
import itertools
import math
import os
import shutil
import tempfile

import numpy as np
from hypothesis import strategies as st
from scipy import constants as _K

from ..core import Enum, Given
from ..findings import is_open

# HOME is redirected *before* cherab.openadas is imported (default repository path is computed at import time):
# nothing in this module can touch the real ~/.cherab.
_SCRATCH_HOME = tempfile.mkdtemp(prefix="vf_c07_home_")
os.environ["HOME"] = _SCRATCH_HOME
atexit.register(shutil.rmtree, _SCRATCH_HOME, True)

from cherab.core.atomic import elements as E  # noqa: E402
from cherab.core.atomic import Isotope  # noqa: E402
from cherab.openadas import OpenADAS  # noqa: E402
from cherab.openadas import repository as R  # noqa: E402
from cherab.core.utility.conversion import PhotonToJ  # noqa: E402

ID = "C07"
SHARDS = {"quick": 8, "thorough": 16}

# ---- known findings: ONE switch per class.  While an entry is open its input class is excluded *in the generators*
# (run() never looks at these, so the committed probe replays keep failing until /repo is fixed).
# VERIF_C07_NO_EXCLUSIONS=1 switches every exclusion off, VERIF_C07_NO_EXCLUSIONS=<id>,<id> only the named ones (used to
# validate proposed patches on a scratch copy).
_NOEXCL = [x for x in os.environ.get("VERIF_C07_NO_EXCLUSIONS", "").split(",") if x]
F_RPEC = "C07-recombination-pec-null"        # recombination_pec catches (FileNotFoundError, KeyError): never a null rate
F_BCXNULL = "C07-beam-cx-pec-null"           # beam_cx_pec: NullBeamCXPEC() built without donor_metastable -> TypeError
F_SINGLE = "C07-single-point-axis"           # 1-knot axis: construction fails (all log-log table rates; beam 't' axis)
F_EDGE = "C07-edge-knot-log10"               # libc log10(x) != numpy log10(x) at an edge knot -> ValueError at a grid point
F_BCXNP = "C07-beamcx-nonpositive"           # BeamCXPEC guards only energy: ti<=0 / ni<=0 raise or return > 0
F_TCXISO = "C07-thermal-cx-pec-isotope-wavelength"   # thermal_cx_pec converts with the element's wavelength


def _open(fid):
    return "1" not in _NOEXCL and fid not in _NOEXCL and is_open(fid)


RULE = ("One case = one fresh temporary repository written through the update_* functions (trusted by C06), one accessor, one "
        "combination of (permit_extrapolation, missing_rates_return_null, wavelength_element_fallback) and one requested "
        "species (element or isotope; for isotopes a *decoy* table scaled by a drawn factor is stored under the isotope's own "
        "symbol). Grids: 2-7 strictly increasing positive points per axis (1 point = separately labelled class), either "
        "10**(u0+cumsum(steps)) with steps in [0.2|0.3, 1.2] decades or ADAS-like 1-2-5 sequences (which contain exactly 1.0); in "
        "half of the grids the first and last knot of every log axis are moved (< 1500 ulp) onto doubles whose numpy-log10 and "
        "libm-log10 differ (either direction). Tables 10**(base+W*U[0,1]) (W <= 6 decades for 'nearest'/'linear' extrapolated "
        "tables, <= 1.5 for quadratically extrapolated 1-D components so that one decade of extrapolation cannot overflow, <= 3 for "
        "the linear-space beam-CX components); in a quarter of the cases the dynamic range WITHIN one log-space table is drawn "
        "up to what float64 holds (1e-300..1e290 in one 2-D table, <= 150 decades in the 3-D one, 1e-250..1e250 for beam sen / beam-CX "
        "qeb): every entry anywhere in the window, one tiny entry among O(1) ones, one huge among tiny ones, steep A*exp(-E/Te) "
        "columns - grid reproduction stays 1e-9 relative PER ENTRY; dimensionless tables of order 1 with entries / sref / qref exactly 1.0 for beam "
        "population and beam CX. Sub-checks tab (9 log-log table accessors incl. the 3-D thermal CX PEC), beam "
        "(stopping/population/emission), beamcx, wl (wavelength accessor; other transitions in the same json file), missing "
        "(absent keys: empty repository; existing file with other charges / other transitions / other metastable / data under the "
        "isotope's own symbol; data_path omitted = default repository under the redirected empty HOME; + the two inherited "
        "accessors OpenADAS does not implement) and matrix (Enum, fixed content: every accessor x 8 flag combinations x "
        "present/missing x element/isotope on 6-decade zig-zag tables with mismatching edge knots on every axis, every "
        "single-point branch the beam / beam-CX classes accept, PhotonToJ.to/inv). Evaluated per rate object: every grid point "
        "(beam-CX: all axis sweeps + drawn multi-indices), one drawn point inside EVERY grid cell (beam-CX: 2-3 per interval of "
        "every axis, others at knots), 3 more interior points, exactly 1.0 where inside, one non-positive value per "
        "density/temperature/energy argument, both sides of every axis up to one decade outside; then a sibling key (other charge "
        "/ transition / metastable, table x drawn factor) requested from the SAME provider, a second object for the same key "
        "(keyword arguments, other transition spelling) evaluated through .evaluate() with int / numpy.float64 arguments, and the "
        "first object again at the very end: both must reproduce the first pass bit for bit. INTERFERENCE (2 of 3 cases): a second "
        "provider B on another data_path (same accessor and key, other drawn table with other grid sizes, other E/N flags) is built "
        "and used on its whole grid before or after the first evaluation of A, a third provider C on A's data_path with E and N "
        "flipped is built and used, A and B are evaluated alternately (bit-equal to their own first pass), each of A, B, C must "
        "still follow the range policy of ITS provider and A.raw_data is unchanged; wl: a second provider with other wavelengths "
        "for the same key; missing: a provider that HAS the key (other data_path, N flipped) is used before / after. Provider built with keywords / "
        "positionally / with default-valued flags omitted. Non-trivial = data present, every axis >= 2 points and a non-constant "
        "table (tab/beam/beamcx); missing/wl cases: a sibling key or a stored wavelength exists (the lookup can go wrong).")
ASSUMPTIONS = ["update_* / get_* store and return the numbers bit for bit (verified by C06)",
               "h and c from scipy.constants (CODATA 2018, exact SI values) are the documented photon->J conversion constants",
               "'raises' outside the range means any exception; 'missing' must be RuntimeError (NotImplementedError is a subclass)",
               "a single-point axis has no tabulated *range*: the range policy is not applied to that axis (the classes that accept "
               "one knot treat the rate as independent of that argument); grid-point reproduction and <=0 -> 0 still are",
               "rate present but wavelength absent with null rates requested: RuntimeError or a null rate are both accepted "
               "(the statement does not say which datum 'missing' refers to)",
               "total_radiated_power / fractional_abundance are not implemented by OpenADAS: NotImplementedError (a RuntimeError) "
               "is accepted for every flag combination",
               "z-effective and b-field are not 'density, temperature or energy': no <=0 -> 0 demand on them",
               "two rate objects built by the same provider from the same stored key are numerically identical objects: bit-for-bit "
               "equality of repeated / second-object evaluations is implied by 'reproduces the stored table' being a function of "
               "the repository content and the arguments only"]
TOLERANCES = {"grid": "1e-9 relative per element: cubic spline evaluated at its own knots in log10 space, |log10 value| <= ~60 so "
                      "one ulp of the exponent is ~1.6e-14 relative after 10**; the bi/tri-cubic coefficient solve amplifies this "
                      "(measured maxima over 3e4 random tables: 4e-13 for 2-D, 4e-12 for the 3-D thermal CX PEC, 7e-14 beam CX); "
                      "1e-9 leaves >= 100x margin and is still 5 orders below the smallest wrong conversion (D/H wavelength 2.7e-4); "
                      "the evidence histogram info.grid_relerr records the errors actually seen",
              "wide tables": "tables spanning up to 570 decades keep the 1e-9 per-entry tolerance: measured maxima over 12000 random "
                             "tables 1.6e-11 (2-D, 600 decades); the tri-cubic 3-D rate reaches 1.4e-10 at 600 decades (error grows with "
                             "the spread), so its in-table range is generated up to 150 decades (expected max ~3.5e-11, >= 25x margin) "
                             "rather than loosening the tolerance; linear-space beam-CX components stay within 3 decades because a "
                             "linear-space spline reproduces a knot only to eps*max|table| ABSOLUTE",
              "denormal": "isotope==element comparisons carry atol=1e-290: interior values of > 300-decade tables can be denormal doubles "
                          "(fewer than 53 significant bits), where value*lambda no longer has 1e-9 relative meaning",
              "isotope==element": "1e-12 relative (identical arithmetic on identical data); photon rates compared as value*lambda, 1e-9",
              "zero": "exact 0.0 for non-positive arguments and null rates"}

HC = _K.h * _K.c            # J m

ELEMENTS = ["hydrogen", "helium", "carbon", "neon"]
ISOTOPES = ["protium", "deuterium", "tritium", "helium3", "carbon13", "neon20"]
SP = {n: getattr(E, n) for n in ELEMENTS + ISOTOPES}
BEAMS = ["hydrogen", "protium", "deuterium", "tritium"]
TRANSITIONS = [[3, 2], [4, 2], [2, 1], ["n=8", "N=7"], ["2s1 3p1 3P4.0", "2s1 3s1 3S1.0"], [5, 4]]
FLAGS = [[e, n, f] for e in (0, 1) for n in (0, 1) for f in (0, 1)]

ADF11 = {"ionisation_rate": "update_ionisation_rates", "recombination_rate": "update_recombination_rates",
         "line_radiated_power_rate": "update_line_power_rates", "continuum_radiated_power_rate": "update_continuum_power_rates",
         "cx_radiated_power_rate": "update_cx_power_rates"}
PEC2 = {"impact_excitation_pec": "excitation", "recombination_pec": "recombination"}
TAB_ACC = sorted(ADF11) + ["thermal_cx_rate"] + sorted(PEC2) + ["thermal_cx_pec"]
BEAM_ACC = ["beam_stopping_rate", "beam_population_rate", "beam_emission_pec"]
PHOTON = set(PEC2) | {"thermal_cx_pec", "beam_emission_pec", "beam_cx_pec"}
INHERITED = ["total_radiated_power", "fractional_abundance"]
ACCESSORS = ["wavelength"] + TAB_ACC + BEAM_ACC + ["beam_cx_pec"] + INHERITED        # the 16
ARITY = dict([(a, 2) for a in ADF11] + [(a, 2) for a in PEC2] + [("thermal_cx_rate", 2), ("thermal_cx_pec", 3), ("beam_cx_pec", 5)]
             + [(a, 3) for a in BEAM_ACC])
BCX_AXES = (("eb", "qeb"), ("ti", "qti"), ("ni", "qni"), ("z", "qz"), ("b", "qb"))
NONPOS = [0.0, -0.0, -1.0, -1e-300, -1e300, -37.5]


_counts = {"interference_values": 0, "repeat_values": 0, "interior_cells": 0, "grid_points": 0, "interior_points": 0, "nonpositive_args": 0, "out_of_range_raises": 0, "extrapolated_values": 0,
           "null_rate_values": 0, "runtimeerror_expected": 0,
           "grid_relerr": {"<=1e-14": 0, "<=1e-12": 0, "<=1e-10": 0, "<=1e-9": 0, ">1e-9": 0},
           "extrapolated_log10_abs": {"<=50": 0, "<=150": 0, "<=300": 0, "underflow_to_0": 0}}


def shard_info():
    return {k: (dict(v) if isinstance(v, dict) else v) for k, v in _counts.items()}


def _count_err(ratio):
    e = np.abs(np.asarray(ratio, dtype=float) - 1.0).ravel()
    h = _counts["grid_relerr"]
    _counts["grid_points"] += int(e.size)
    h["<=1e-14"] += int(np.sum(e <= 1e-14))
    h["<=1e-12"] += int(np.sum((e > 1e-14) & (e <= 1e-12)))
    h["<=1e-10"] += int(np.sum((e > 1e-12) & (e <= 1e-10)))
    h["<=1e-9"] += int(np.sum((e > 1e-10) & (e <= 1e-9)))
    h[">1e-9"] += int(np.sum(~(e <= 1e-9)))


NEAREST = set(ADF11) - {"cx_radiated_power_rate"} | set(PEC2) | {"thermal_cx_pec"}     # documented 'nearest neighbour' extrapolation


def _span_labels(ctx, acc, values):
    """dynamic range WITHIN one table, in decades; returns True for > 30 decades (wide class)."""
    v = np.asarray(values, dtype=np.float64)
    span = math.log10(float(v.max())) - math.log10(float(v.min()))
    for lim in (30, 100, 300):
        if span > lim:
            ctx.label("range>%ddec" % lim)
    if span > 30:
        ctx.label("range>30dec:" + acc)
    return span > 30


def _flag_label(fl):
    return "E%dN%dF%d" % tuple(int(bool(x)) for x in fl)


_RATE_ACC = TAB_ACC + BEAM_ACC + ["beam_cx_pec"]
REQUIRED_LABELS = \
    ["matrix:cov:%s:%s:present" % (a, _flag_label(f)) for a in ACCESSORS if a not in INHERITED for f in FLAGS] + \
    ["matrix:cov:%s:%s:missing" % (a, _flag_label(f)) for a in _RATE_ACC + INHERITED for f in FLAGS
     if not (f[1] and ((a == "recombination_pec" and _open(F_RPEC)) or (a == "beam_cx_pec" and _open(F_BCXNULL))))] + \
    ["matrix:null:" + a for a in _RATE_ACC if not ((a == "recombination_pec" and _open(F_RPEC)) or (a == "beam_cx_pec" and _open(F_BCXNULL)))] + \
    ([] if _open(F_EDGE) else
     ["matrix:edge:%s:%s:axis%d" % (w, a, k) for w in ("np", "libm") for a in TAB_ACC for k in range(3 if a == "thermal_cx_pec" else 2)] +
     ["matrix:edge:%s:%s:axis%d" % (w, a, k) for w in ("np", "libm") for a in BEAM_ACC for k in range(3)] +
     ["matrix:edge:np:beam_cx_pec:axis0", "matrix:edge:libm:beam_cx_pec:axis0"] +
     ["tab:edge:np", "beam:edge:np", "beamcx:edge:np", "tab:edge:libm"]) + \
    ["matrix:single-axis:%s:%s" % (a, x) for a in BEAM_ACC for x in "en"] + ["matrix:single-axis:beam_cx_pec:" + x for x, _ in BCX_AXES] + \
    ["matrix:sib:other-transition-same-file:" + a for a in sorted(PHOTON)] + ["matrix:sib:other-transition-same-file", "wl:sib:other-transition-same-file"] + \
    ["missing:sib:other-transition-same-file:" + a for a in sorted(PHOTON)] + \
    ["matrix:sib:other-charge-same-file:" + a for a in sorted(ADF11) + ["thermal_cx_rate"]] + \
    ["matrix:entry:" + e for e in ("data_path", "default-path", "PhotonToJ.to", "PhotonToJ.inv", "evaluate", "__call__")] + \
    ["matrix:interior:clamped-to-zero", "beamcx:interior:clamped-to-zero", "matrix:arg:exactly-1.0", "tab:arg:exactly-1.0"] + \
    [sub + ":reuse:repeated" for sub in ("matrix", "tab", "beam", "beamcx")] + \
    [sub + ":interference" for sub in ("matrix", "tab", "beam", "beamcx", "wl", "missing")] + \
    [sub + ":interference:" + x for sub in ("matrix", "tab", "beam", "beamcx") for x in ("B-used-before-A", "B-used-after-A", "providers-same-path-other-flags")] + \
    ["matrix:interference:raw_data-unchanged", "tab:interference:raw_data-unchanged"] + \
    ["matrix:range>30dec:" + a for a in _RATE_ACC] + ["matrix:range>100dec", "matrix:range>300dec"] + \
    [sub + ":range>" + x for sub in ("tab", "beam", "beamcx") for x in ("30dec", "100dec", "300dec")] + \
    ["tab:reuse:provider-second-key:transition", "tab:reuse:provider-second-key:charge", "beam:reuse:provider-second-key:metastable",
     "beamcx:reuse:provider-second-key:transition"] + \
    ["tab:adform:%d" % i for i in range(3)] + ["missing:variant:default-path", "missing:variant:sibling", "missing:variant:empty"] + \
    ["tab:acc:" + a for a in TAB_ACC] + ["beam:acc:" + a for a in BEAM_ACC] + \
    ["tab:req:isotope", "tab:req:element", "beam:req:isotope", "beamcx:req:isotope", "wl:wl:isotope-own", "wl:wl:fallback-used", "wl:wl:missing"]


# ================================================================================================ helpers
def _is_iso(name):
    return isinstance(SP[name], Isotope)


def _elem(name):
    sp = SP[name]
    return sp.element if isinstance(sp, Isotope) else sp


def _sym(sp):
    return sp.symbol.lower()


def _tr(i):
    return tuple(TRANSITIONS[i])


def _tr_alt(i):
    """Another spelling of the same transition: int <-> str, letter case swapped (the repository key is lower-cased str)."""
    return tuple((str(x) if isinstance(x, int) else x.swapcase()) for x in TRANSITIONS[i])


def _ad(path, fl, form=0):
    """form 0: keywords; 1: positional; 2: flags that equal the documented default (False) are omitted."""
    e, n, f = bool(fl[0]), bool(fl[1]), bool(fl[2])
    if form == 1:
        return OpenADAS(path, e, n, f)
    if form == 2:
        kw = {}
        if e:
            kw["permit_extrapolation"] = True
        if n:
            kw["missing_rates_return_null"] = True
        if f:
            kw["wavelength_element_fallback"] = True
        return OpenADAS(data_path=path, **kw)
    return OpenADAS(data_path=path, permit_extrapolation=e, missing_rates_return_null=n, wavelength_element_fallback=f)


def _alt(x, i):
    """Same double, another Python form: int (when integral), numpy.float64, float."""
    if i % 3 == 0 and float(x).is_integer() and abs(x) < 2.0 ** 62:
        return int(x)
    if i % 3 == 1:
        return np.float64(x)
    return float(x)


def _np_log10(x):
    return float(np.log10(np.array([x, x, x, x, x]))[2])


def _harmful_edge(x, side, rev=False):
    """A double near x for which numpy's log10 and libm's log10 differ such that a knot computed with numpy (rev: with libm)
    lies strictly inside the argument computed with the other function: evaluating exactly at this edge knot then falls
    outside [knot_min, knot_max] unless knots and arguments use the same function.  The sign of the disagreement depends on
    the mantissa region, so after the 1500 neighbouring doubles (towards the inside of the grid) the search continues
    OUTWARDS over a factor of up to 1.5 (grid spacing can only grow, by < 0.18 decade)."""
    sgn = 1.0 if side == 0 else -1.0
    for cand in (x + np.arange(1500) * np.spacing(x) * sgn, x * 1.5 ** (-sgn * np.arange(1, 3001) / 3000.0)):
        a = np.log10(cand)
        b = np.array([math.log10(v) for v in cand])
        lower = (b < a) if (side == 0) != rev else (b > a)
        bad = np.nonzero(lower)[0]
        if len(bad):
            return float(cand[bad[0]])
    return float(x)


def _edge_labels(ctx, acc, axes, logaxes):
    """np: knots built with numpy.log10 (arguments through libm) would put this edge knot out of range; libm: the reverse."""
    for k, a in enumerate(axes):
        if logaxes[k] and len(a) >= 2:
            lo = (math.log10(a[0]), _np_log10(a[0]))
            hi = (math.log10(a[-1]), _np_log10(a[-1]))
            if lo[0] < lo[1] or hi[0] > hi[1]:
                ctx.label("edge:np", "edge:np:%s:axis%d" % (acc, k))
            if lo[0] > lo[1] or hi[0] < hi[1]:
                ctx.label("edge:libm", "edge:libm:%s:axis%d" % (acc, k))


def _repeat(ctx, what, rate, rate2, pts, first):
    """RE-USE / FORMS: a second rate object obtained from the same provider (keyword arguments, other transition spelling),
    called through .evaluate() with int / numpy.float64 arguments, and the first object called again at the very end must
    both reproduce the first pass bit for bit."""
    for i, (p, g) in enumerate(zip(pts, first)):
        a = [_alt(x, i + k) for k, x in enumerate(p)]
        with ctx.cut(what + ":evaluate"):
            v2 = float(rate2.evaluate(*a))
        ctx.check(v2 == g, what + ":second-object", lambda: "second object .evaluate(%r) = %r, first object __call__ gave %r" % (a, v2, g))
        v3 = _call(ctx, what + ":again", rate, p)
        ctx.check(v3 == g, what + ":again", lambda: "same object, same arguments %r: first %r, repeated at the end %r" % (p, g, v3))
    _counts["repeat_values"] += 2 * len(pts)
    ctx.label("entry:evaluate", "entry:__call__", "reuse:repeated")


class _WL:
    """Reference model of the wavelength section: dict keyed by (symbol.lower(), charge, transition index)."""

    def __init__(self):
        self.d = {}
        self.batch = {}

    def put(self, sp, charge, tri, value):
        if value is None:
            return
        self.d[(_sym(sp), charge, tri)] = float(value)
        self.batch.setdefault((sp, charge), []).append((tri, float(value)))

    def write(self, ctx, path):
        for (sp, charge), lst in self.batch.items():
            for tri, v in lst:      # one call per entry: later writes win, as in the model
                with ctx.cut("setup:update_wavelengths"):
                    R.update_wavelengths({sp: {charge: {_tr(tri): v}}}, path)

    def expect(self, name, charge, tri, fallback):
        """Wavelength of the *requested* species: isotope kept, element only as an enabled fallback."""
        sp = SP[name]
        v = self.d.get((_sym(sp), charge, tri))
        if v is None and isinstance(sp, Isotope) and fallback:
            v = self.d.get((_sym(sp.element), charge, tri))
        return v


def _wl_store(case, name, charge, tri):
    """element wavelength first, then the isotope's (protium shares the symbol 'H': last write wins)."""
    w = _WL()
    w.put(_elem(name), charge, tri, case.get("wl_el"))
    if _is_iso(name):
        w.put(SP[name], charge, tri, case.get("wl_iso"))
    return w


def _axis_point(ax, u):
    """u in (0,1) -> strictly interior point of a >=2-point axis (log interpolation); the point itself for 1 knot."""
    lo, hi = ax[0], ax[-1]
    if len(ax) == 1:
        return lo
    x = lo * (hi / lo) ** u
    return min(max(x, np.nextafter(lo, np.inf)), np.nextafter(hi, -np.inf))


def _call(ctx, what, rate, args):
    with ctx.cut(what):
        v = rate(*args)
    return float(v)


def _check_zero_everywhere(ctx, what, rate, battery):
    for args in battery:
        v = _call(ctx, what, rate, args)
        _counts["null_rate_values"] += 1
        ctx.check(v == 0.0, what, lambda: "null rate returned %r at %r" % (v, args))


def _points(ctx, what, rate, axes, guarded, case, ext, ref=None, ref_scale=1.0, sweep_base=None, wide=False, nearest=True):
    """Common evaluation battery for a rate with tabulated axes `axes` (lists of knots).

    guarded[k]: argument k is a density / temperature / energy (non-positive => 0)."""
    na = len(axes)
    us = case["us"]
    multi = all(len(a) >= 2 for a in axes)
    # tables spanning > 30 decades: 10**(cubic overshoot between knots) may legitimately overflow -> only ">= 0, not NaN" inside
    # (the statement demands finiteness for permitted extrapolation only); extrapolating such a table linearly / quadratically
    # over a decade overflows by construction, so the 'finite' demand is kept for the documented 'nearest' families only
    okv = (lambda v: v >= 0.0) if wide else (lambda v: math.isfinite(v) and v >= 0.0)
    # ---- strictly interior points: finite, >= 0, (isotope request == element request)
    for u in us:
        p = [_axis_point(axes[k], u[k]) for k in range(na)]
        v = _call(ctx, what + ":interior", rate, p)
        _counts["interior_points"] += 1
        ctx.check(okv(v), what + ":interior", lambda: "value %r at interior point %r" % (v, p))
        if ref is not None:
            w = _call(ctx, what + ":interior-element", ref, p)
            ctx.close(v * ref_scale[0], w * ref_scale[1], what + ":isotope==element", rtol=ref_scale[2], atol=1e-290, info="at %r" % (p,))
    # ---- one point inside EVERY cell of the grid (<= 3 axes) or inside every interval of every axis, the other axes at knots
    # (beam CX: linear-space splines may undershoot, the product must still be >= 0): finite and non-negative
    cf = case.get("cf") or [[0.5] * na]
    def _inside(k, i, f):
        a = axes[k]
        return a[0] if len(a) == 1 else a[i] * (a[i + 1] / a[i]) ** f
    cells = []
    if sweep_base is None:
        for j, cell in enumerate(itertools.product(*[range(max(len(a) - 1, 1)) for a in axes])):
            f = cf[j % len(cf)]
            cells.append([_inside(k, cell[k], f[k]) for k in range(na)])
    else:
        for k in range(na):
            for i in range(len(axes[k]) - 1):
                for f in cf:
                    p = [axes[m][sweep_base[m] % len(axes[m])] for m in range(na)]
                    p[k] = _inside(k, i, f[k])
                    cells.append(p)
    for p in cells:
        v = _call(ctx, what + ":interior", rate, p)
        ctx.check(okv(v), what + ":interior", lambda: "value %r at interior point %r" % (v, p))
        if v == 0.0:
            ctx.label("interior:clamped-to-zero")
    _counts["interior_cells"] += len(cells)
    # ---- an argument of exactly 1.0 (log10 = 0) wherever 1.0 lies strictly inside an axis
    for k in range(na):
        if len(axes[k]) >= 2 and axes[k][0] < 1.0 < axes[k][-1]:
            p = [_axis_point(axes[m], us[2][m]) for m in range(na)] if sweep_base is None else \
                [axes[m][sweep_base[m] % len(axes[m])] for m in range(na)]
            p[k] = 1.0
            v = _call(ctx, what + ":interior", rate, p)
            ctx.check(okv(v), what + ":interior", lambda: "value %r at %r (argument %d exactly 1.0)" % (v, p, k))
            ctx.label("arg:exactly-1.0")
    # ---- non-positive density / temperature / energy => exactly 0
    base = [_axis_point(axes[k], us[1][k]) for k in range(na)]
    for k in range(na):
        if not guarded[k]:
            continue
        if k in case.get("skip_nonpos", []):
            ctx.label("excluded_known")
            continue
        bad = NONPOS[case["bad"][k] % len(NONPOS)]
        p = list(base)
        p[k] = bad
        v = _call(ctx, what + ":nonpositive", rate, p)
        _counts["nonpositive_args"] += 1
        ctx.check(v == 0.0, what + ":nonpositive", lambda: "argument %d = %r is non-positive but the rate is %r at %r" % (k, bad, v, p))
    # ---- outside the tabulated range, one axis at a time, up to one decade
    base = [_axis_point(axes[k], us[0][k]) for k in range(na)] if not case.get("out_on_grid") else \
        [axes[k][case["out_on_grid"][k] % len(axes[k])] for k in range(na)]
    if wide and not case.get("out_on_grid"):
        # other axes at knots: between knots a > 30-decade table may overflow through the spline's overshoot, which is not extrapolation
        base = [axes[k][int(us[0][k] * len(axes[k])) % len(axes[k])] for k in range(na)]
    for k in range(na):
        if len(axes[k]) < 2:
            ctx.label("range:single-point-axis-not-applied")
            continue
        for side in (0, 1):
            f = case["fs"][k][side]
            p = list(base)
            p[k] = axes[k][0] / f if side == 0 else axes[k][-1] * f
            if ext and wide and not nearest:
                v = _call(ctx, what + ":extrapolated", rate, p)
                ctx.check(v >= 0.0, what + ":extrapolated", lambda: "extrapolated value %r at %r" % (v, p))
                ctx.label("range:wide-table-linear-extrapolation-finite-not-demanded")
            elif ext:
                v = _call(ctx, what + ":extrapolated", rate, p)
                _counts["extrapolated_values"] += 1
                hh = _counts["extrapolated_log10_abs"]
                if v == 0.0:
                    hh["underflow_to_0"] += 1
                elif math.isfinite(v):
                    a = abs(math.log10(v))
                    hh["<=50" if a <= 50 else ("<=150" if a <= 150 else "<=300")] += 1
                ctx.check(math.isfinite(v) and v >= 0.0, what + ":extrapolated",
                          lambda: "extrapolation permitted but value is %r at %r (axis %d range %r..%r)" % (v, p, k, axes[k][0], axes[k][-1]))
            else:
                ctx.raises((Exception,), what + ":out-of-range", rate, *p)
                _counts["out_of_range_raises"] += 1
    ctx.label("range:" + ("extrapolate" if ext else "raise"))
    return multi


# ================================================================================================ interference between objects
def _raw_copy(rate):
    raw = getattr(rate, "raw_data", None)
    if not isinstance(raw, dict):
        return None
    return {k: np.array(v, dtype=np.float64, copy=True) for k, v in raw.items()}


class _Closer:
    def __init__(self, path):
        self.path = path

    def close(self):
        shutil.rmtree(self.path, ignore_errors=True)


class _Interf:
    """INTERFERENCE: a second provider B (other data_path, other table / grid sizes, other flags) and a third provider C (A's
    data_path, all flags that matter flipped) are alive together with the object under test A.

    build():     B is created and used on its whole grid (oracle: B's own table), either before A's first evaluation
                 (case B.first) or after it;
    alternate(): A and B are evaluated alternately, every value must equal the object's own first pass bit for bit; C is
                 built and used; then each object must still follow the range policy of ITS provider, A's raw_data (where
                 the class exposes it) must be unchanged."""

    def __init__(self, ctx, what, case, fl, write, get, grid):
        self.ctx, self.what, self.case, self.fl = ctx, what, case, fl
        self.write, self.get, self.grid = write, get, grid
        self.B = case.get("B")
        self.path = None
        self.built = False

    def build(self):
        if not self.B or self.built:
            return
        ctx, B, what = self.ctx, self.B, self.what
        self.built = True
        self.path = tempfile.mkdtemp(prefix="vf_c07_repoB_")
        self.flB = [B["flags"][0], B["flags"][1], self.fl[2]]
        self.write(self.path, B)
        self.ad = _ad(self.path, self.flB, self.case.get("adform", 0))
        with ctx.cut(what + ":interference:construct-B"):
            self.rate = self.get(self.ad)
        self.pts, want, self.axes = self.grid(B)
        self.first = [_call(ctx, what + ":interference:grid-B", self.rate, p) for p in self.pts]
        ctx.close(np.array(self.first) / np.array(want), np.ones(len(want)), what + ":interference:grid-B", rtol=1e-9,
                  info="(second provider on another data_path with another table while the first object is alive)")
        ctx.label("interference:B-used-before-A" if B.get("first") else "interference:B-used-after-A")

    def _policy(self, rate, axes, ext, who):
        ctx, what = self.ctx, self.what
        for k, a in enumerate(axes):
            if len(a) >= 2:
                p = [x[0] for x in axes]
                p[k] = a[-1] * 2.0
                if ext:
                    v = _call(ctx, what + ":interference:extrapolated", rate, p)
                    ctx.check(v >= 0.0, what + ":interference:extrapolated", lambda: "%s: value %r at %r" % (who, v, p))
                else:
                    ctx.raises((Exception,), what + ":interference:out-of-range(%s)" % who, rate, *p)
                return

    def alternate(self, rateA, ptsA, firstA, axesA, rawA, getA, pathA, adA):
        if not self.built:
            return
        ctx, what = self.ctx, self.what
        for i in range(max(len(ptsA), len(self.pts))):
            ia, ib = i % len(ptsA), i % len(self.pts)
            v = _call(ctx, what + ":interference", rateA, ptsA[ia])
            ctx.check(v == firstA[ia], what + ":interference", lambda: "A(%r) = %r after B was used, first pass gave %r" % (ptsA[ia], v, firstA[ia]))
            w = _call(ctx, what + ":interference", self.rate, self.pts[ib])
            ctx.check(w == self.first[ib], what + ":interference", lambda: "B(%r) = %r after A was used, first pass gave %r" % (self.pts[ib], w, self.first[ib]))
        # provider C: A's repository, flipped permit_extrapolation / missing_rates_return_null
        flC = [1 - self.fl[0], 1 - self.fl[1], self.fl[2]]
        adC = _ad(pathA, flC, 0)
        with ctx.cut(what + ":interference:construct-C"):
            rateC = getA(adC)
        v = _call(ctx, what + ":interference", rateC, ptsA[0])
        ctx.check(v == firstA[0], what + ":interference", lambda: "provider C (same data_path, other flags): %r, A gave %r" % (v, firstA[0]))
        self._policy(rateC, axesA, bool(flC[0]), "C")
        self._policy(rateA, axesA, bool(self.fl[0]), "A")
        with ctx.cut(what + ":interference:construct-A-again"):
            rateA2 = getA(adA)                  # provider A asked again after B and C were configured differently
        self._policy(rateA2, axesA, bool(self.fl[0]), "A, new object from provider A")
        self._policy(self.rate, self.axes, bool(self.flB[0]), "B")
        v = _call(ctx, what + ":interference", rateA, ptsA[-1])
        ctx.check(v == firstA[-1], what + ":interference", lambda: "A(%r) = %r at the end, first pass gave %r" % (ptsA[-1], v, firstA[-1]))
        if rawA is not None:
            now = _raw_copy(rateA)
            same = now is not None and sorted(now) == sorted(rawA) and all(np.array_equal(now[k], rawA[k]) for k in rawA)
            ctx.check(same, what + ":interference:raw_data", "raw_data of the first object changed after other objects were built / used")
            ctx.label("interference:raw_data-unchanged")
        # the repository behind provider B is updated (same key, revised table): what the SAME provider object hands out afterwards
        # reproduces the repository's present content
        B2 = None
        if isinstance(self.B.get("table"), list):
            B2 = dict(self.B, table=(np.array(self.B["table"], dtype=np.float64) * 1.75).tolist())
        elif isinstance(self.B.get("sen"), list):
            B2 = dict(self.B, sen=(np.array(self.B["sen"], dtype=np.float64) * 1.75).tolist())
        if B2 is not None:
            self.write(self.path, B2)
            with ctx.cut(what + ":interference:construct-B-after-update"):
                rate2 = self.get(self.ad)
            pts2, want2, _ = self.grid(B2)
            got2 = [_call(ctx, what + ":interference:updated-repository", rate2, p) for p in pts2]
            ctx.close(np.array(got2) / np.array(want2), np.ones(len(want2)), what + ":interference:updated-repository", rtol=1e-9,
                      info="(the repository was updated for this key after the provider had served it; same provider object asked again)")
            ctx.label("interference:repository-updated")
        _counts["interference_values"] += 2 * max(len(ptsA), len(self.pts)) + 5
        ctx.label("interference", "interference:providers-same-path-other-flags")

    def close(self):
        if self.path:
            shutil.rmtree(self.path, ignore_errors=True)


# ================================================================================================ tab: log-log table families
def _tab_write(ctx, path, acc, case, table, species, donor):
    d = {"ne": case["axes"][0], "te": case["axes"][1]}
    q = case["q"]
    if acc in ADF11:
        d["rates"] = table
        with ctx.cut("setup:" + ADF11[acc]):
            getattr(R, ADF11[acc])({species: {q: d}}, path)
    elif acc == "thermal_cx_rate":
        d["rates"] = table
        with ctx.cut("setup:update_thermal_cx_rates"):
            R.update_thermal_cx_rates({donor: {case["dq"]: {species: {q: d}}}}, path)
    elif acc in PEC2:
        d["rate"] = table
        with ctx.cut("setup:update_pec_rates"):
            R.update_pec_rates({PEC2[acc]: {species: {q: {_tr(case["tr"]): d}}}}, path)
    else:
        d["td"] = case["axes"][2]
        d["rate"] = table
        with ctx.cut("setup:update_pec_thermal_cx_rates"):
            R.update_pec_thermal_cx_rates({donor: {case["dq"]: {species: {q: {_tr(case["tr"]): d}}}}}, path)


def _tab_get(ad, acc, case, name, donor_name, form=0):
    """form 1: keyword arguments (names of the OpenADAS signatures), transition in its other spelling."""
    sp, q = SP[name], case["q"]
    if form == 1:
        tr = _tr_alt(case["tr"])
        if acc in ADF11:
            return getattr(ad, acc)(ion=sp, charge=q)
        if acc == "thermal_cx_rate":
            return ad.thermal_cx_rate(donor_element=SP[donor_name], donor_charge=case["dq"], receiver_element=sp, receiver_charge=q)
        if acc in PEC2:
            return getattr(ad, acc)(ion=sp, charge=q, transition=tr)
        return ad.thermal_cx_pec(donor_element=SP[donor_name], donor_charge=case["dq"], receiver_element=sp, receiver_charge=q, transition=tr)
    if acc in ADF11:
        return getattr(ad, acc)(sp, q)
    if acc == "thermal_cx_rate":
        return ad.thermal_cx_rate(SP[donor_name], case["dq"], sp, q)
    if acc in PEC2:
        return getattr(ad, acc)(sp, q, _tr(case["tr"]))
    return ad.thermal_cx_pec(SP[donor_name], case["dq"], sp, q, _tr(case["tr"]))


def _sib_case(case, acc, qkey, zmax, qmin):
    """A second key of the same family (other charge / transition / metastable), served by the SAME provider instance."""
    sib = case.get("sib")
    if not sib:
        return None
    c2 = dict(case)
    if sib["what"] == "tr" and acc in PHOTON:
        c2["tr"] = (case["tr"] + 1) % len(TRANSITIONS)
    elif sib["what"] == "ms" and acc == "beam_population_rate":
        c2["ms"] = case["ms"] + 1
    else:
        q = case[qkey]
        q2 = q + 1 if q + 1 <= zmax else q - 1
        if q2 < qmin:
            return None
        c2[qkey] = q2
    return c2


def _wl_sibling(wl, case, name, charge2, tr2):
    """wavelengths of the sibling key: same presence pattern as the main key, shifted by 1 nm."""
    if case.get("wl_el") is not None:
        wl.put(_elem(name), charge2, tr2, case["wl_el"] + 1.0)
    if _is_iso(name) and case.get("wl_iso") is not None:
        wl.put(SP[name], charge2, tr2, case["wl_iso"] + 1.0)


def _wl_charge(acc, q):
    return q - 1 if acc in ("thermal_cx_pec", "beam_cx_pec") else q


def run_tab(case, ctx):
    acc, fl, name = case["acc"], case["flags"], case["sp"]
    donor_name = case.get("donor", "hydrogen")
    axes = [list(map(float, a)) for a in case["axes"]]
    table = np.array(case["table"], dtype=np.float64)
    ctx.label("acc:" + acc, "cov:%s:%s:present" % (acc, _flag_label(fl)), "req:" + ("isotope" if _is_iso(name) else "element"))
    single = [k for k, a in enumerate(axes) if len(a) == 1]
    for k in single:
        ctx.label("single-axis:%s:%d" % (acc, k))
    path = tempfile.mkdtemp(prefix="vf_c07_repo_")
    closers = []
    try:
        # --- repository content: true data under the elements; decoys under every isotope symbol involved
        pairs = {(n, d) for n in (name, _elem(name).name) for d in (donor_name, _elem(donor_name).name)}
        decoy = case.get("decoy")
        true_key = (_sym(_elem(name)), _sym(_elem(donor_name)))
        if decoy:
            for n, d in sorted(pairs):
                if (_sym(SP[n]), _sym(SP[d])) != true_key:
                    _tab_write(ctx, path, acc, case, (table * decoy).tolist(), SP[n], SP[d])
                    ctx.label("decoy")
        _tab_write(ctx, path, acc, case, table.tolist(), _elem(name), _elem(donor_name))
        wl = _wl_store(case, name, _wl_charge(acc, case["q"]), case["tr"])
        c2 = _sib_case(case, acc, "q", SP[name].atomic_number, 1 if acc == "thermal_cx_pec" else 0)
        if c2 is not None:
            _tab_write(ctx, path, acc, c2, (table * case["sib"]["scale"]).tolist(), _elem(name), _elem(donor_name))
            _wl_sibling(wl, case, name, _wl_charge(acc, c2["q"]), c2["tr"])
        if acc in PHOTON:
            wl.write(ctx, path)
        ad = _ad(path, fl, case.get("adform", 0))
        ctx.check(ad.data_path == path, "data_path", lambda: "data_path property %r != %r" % (ad.data_path, path))
        ctx.label("entry:data_path", "adform:%d" % case.get("adform", 0))
        _edge_labels(ctx, acc, axes, [True] * len(axes))
        lam = wl.expect(name, _wl_charge(acc, case["q"]), case["tr"], fl[2]) if acc in PHOTON else None
        what = acc
        if acc in PHOTON and lam is None:
            # rate present, wavelength of the requested species not available
            ctx.label("wl-missing")
            ctx.nt(len(wl.d) > 0)
            _expect_missing(ctx, what + ":wavelength-missing", lambda: _tab_get(ad, acc, case, name, donor_name), fl[1], [[a[0] for a in axes]], lenient_null=True)
            return
        with ctx.cut(what + ":construct"):
            rate = _tab_get(ad, acc, case, name, donor_name)
        conv = HC / (lam * 1e-9) if acc in PHOTON else 1.0
        rawA = _raw_copy(rate)
        wq = _wl_charge(acc, case["q"])

        def _writeB(pathB, B):
            cB = dict(case, axes=B["axes"])
            _tab_write(ctx, pathB, acc, cB, B["table"], _elem(name), _elem(donor_name))
            if acc in PHOTON:
                wB = _WL()
                _wl_sibling(wB, dict(case, wl_el=None if case.get("wl_el") is None else case["wl_el"] + 1.0,
                                     wl_iso=None if case.get("wl_iso") is None else case["wl_iso"] + 1.0), name, wq, case["tr"])
                wB.write(ctx, pathB)
                interf.lamB = wB.expect(name, wq, case["tr"], fl[2])

        def _gridB(B):
            axB = [list(map(float, a)) for a in B["axes"]]
            tB = np.array(B["table"], dtype=np.float64) * (HC / (interf.lamB * 1e-9) if acc in PHOTON else 1.0)
            return ([[axB[k][i] for k, i in enumerate(idx)] for idx in np.ndindex(*tB.shape)], tB.ravel().tolist(), axB)
        interf = _Interf(ctx, what, case, fl, _writeB, lambda adx: _tab_get(adx, acc, case, name, donor_name), _gridB)
        closers.append(interf)
        if interf.B and interf.B.get("first"):
            interf.build()
        # --- every grid point
        want = table * conv
        got = np.empty_like(want)
        for idx in np.ndindex(*want.shape):
            p = [axes[k][i] for k, i in enumerate(idx)]
            got[idx] = _call(ctx, what + ":grid", rate, p)
        ctx.check(bool(np.all(got >= 0.0)), what + ":nonnegative", lambda: "negative value at a grid point: %r" % (got.min(),))
        _count_err(got / want)
        ctx.close(got / want, np.ones_like(want), what + ":grid", rtol=1e-9,
                  info="(ratio rate(grid)/(table*conversion); conversion=%r, wavelength=%r)" % (conv, lam))
        # --- isotope request == element request (through the same provider)
        ref, scale = None, 1.0
        if _is_iso(name) or _is_iso(donor_name):
            lam_e = wl.expect(_elem(name).name, _wl_charge(acc, case["q"]), case["tr"], fl[2]) if acc in PHOTON else None
            if acc not in PHOTON or lam_e is not None:
                with ctx.cut(what + ":construct-element"):
                    ref = _tab_get(ad, acc, case, _elem(name).name, _elem(donor_name).name)
                scale = (lam, lam_e, 1e-9) if acc in PHOTON else (1.0, 1.0, 1e-12)
                g2 = np.empty_like(want)
                for idx in np.ndindex(*want.shape):
                    g2[idx] = _call(ctx, what + ":grid-element", ref, [axes[k][i] for k, i in enumerate(idx)])
                ctx.close(got * scale[0], g2 * scale[1], what + ":isotope==element", rtol=scale[2], atol=1e-290)
                ctx.label("isotope==element")
        wide = _span_labels(ctx, acc, table)
        multi = _points(ctx, what, rate, axes, [True] * len(axes), case, bool(fl[0]), ref, scale, wide=wide, nearest=acc in NEAREST)
        pts = [[axes[k][i] for k, i in enumerate(idx)] for idx in np.ndindex(*want.shape)]
        interf.build()
        interf.alternate(rate, pts, got.ravel().tolist(), axes, rawA, lambda adx: _tab_get(adx, acc, case, name, donor_name), path, ad)
        # --- a sibling key (other charge / transition) served by the same provider instance
        if c2 is not None:
            lam2 = wl.expect(name, _wl_charge(acc, c2["q"]), c2["tr"], fl[2]) if acc in PHOTON else None
            with ctx.cut(what + ":construct-sibling"):
                rs = _tab_get(ad, acc, c2, name, donor_name)
            want2 = table * case["sib"]["scale"] * (HC / (lam2 * 1e-9) if acc in PHOTON else 1.0)
            g2 = np.array([_call(ctx, what + ":grid-sibling", rs, pp) for pp in pts]).reshape(want.shape)
            ctx.close(g2 / want2, np.ones_like(want2), what + ":grid-sibling", rtol=1e-9,
                      info="(sibling key %s=%r of the same provider; wavelength %r)" % (case["sib"]["what"], (c2["q"], c2["tr"]), lam2))
            ctx.label("reuse:provider-second-key:" + ("transition" if c2["tr"] != case["tr"] else "charge"))
        # --- second object (keyword / other spelling / .evaluate / int, np.float64 arguments) and the first object again
        with ctx.cut(what + ":construct-again"):
            rate2 = _tab_get(ad, acc, case, name, donor_name, form=1)
        _repeat(ctx, what, rate, rate2, pts, got.ravel().tolist())
        ctx.nt(multi and float(table.max()) > float(table.min()))
    finally:
        shutil.rmtree(path, ignore_errors=True)
        for c in closers:
            c.close()


# ================================================================================================ beam stopping / population / emission
def _beam_write(ctx, path, acc, case, sen, st_, beam, target):
    d = {"e": case["e"], "n": case["n"], "t": case["t"], "sen": sen, "st": st_, "sref": case["sref"],
         "eref": case["e"][0], "nref": case["n"][0], "tref": case["t"][0]}
    tq = case["tq"]
    if acc == "beam_stopping_rate":
        with ctx.cut("setup:update_beam_stopping_rates"):
            R.update_beam_stopping_rates({beam: {target: {tq: d}}}, path)
    elif acc == "beam_population_rate":
        with ctx.cut("setup:update_beam_population_rates"):
            R.update_beam_population_rates({beam: {case["ms"]: {target: {tq: d}}}}, path)
    else:
        with ctx.cut("setup:update_beam_emission_rates"):
            R.update_beam_emission_rates({beam: {target: {tq: {_tr(case["tr"]): d}}}}, path)


def _beam_get(ad, acc, case, beam_name, target_name, form=0):
    b, t, tq = SP[beam_name], SP[target_name], case["tq"]
    if form == 1:
        if acc == "beam_stopping_rate":
            return ad.beam_stopping_rate(beam_ion=b, plasma_ion=t, charge=tq)
        if acc == "beam_population_rate":
            return ad.beam_population_rate(beam_ion=b, metastable=case["ms"], plasma_ion=t, charge=tq)
        return ad.beam_emission_pec(beam_ion=b, plasma_ion=t, charge=tq, transition=_tr_alt(case["tr"]))
    if acc == "beam_stopping_rate":
        return ad.beam_stopping_rate(b, t, tq)
    if acc == "beam_population_rate":
        return ad.beam_population_rate(b, case["ms"], t, tq)
    return ad.beam_emission_pec(b, t, tq, _tr(case["tr"]))


def run_beam(case, ctx):
    acc, fl = case["acc"], case["flags"]
    bname, tname = case["beam"], case["target"]
    axes = [list(map(float, case[k])) for k in ("e", "n", "t")]
    sen = np.array(case["sen"], dtype=np.float64)
    st_ = np.array(case["st"], dtype=np.float64)
    sref = float(case["sref"])
    iso = _is_iso(bname) or _is_iso(tname)
    ctx.label("acc:" + acc, "cov:%s:%s:present" % (acc, _flag_label(fl)), "req:" + ("isotope" if iso else "element"))
    for k, a in enumerate(axes):
        if len(a) == 1:
            ctx.label("single-axis:%s:%s" % (acc, "ent"[k]))
    path = tempfile.mkdtemp(prefix="vf_c07_repo_")
    closers = []
    try:
        decoy = case.get("decoy")
        true_key = (_sym(_elem(bname)), _sym(_elem(tname)))
        if decoy:
            for b in sorted({bname, _elem(bname).name}):
                for t in sorted({tname, _elem(tname).name}):
                    if (_sym(SP[b]), _sym(SP[t])) != true_key:
                        _beam_write(ctx, path, acc, case, (sen * decoy).tolist(), st_.tolist(), SP[b], SP[t])
                        ctx.label("decoy")
        _beam_write(ctx, path, acc, case, sen.tolist(), st_.tolist(), _elem(bname), _elem(tname))
        wl = _wl_store(case, bname, 0, case["tr"])
        c2 = _sib_case(case, acc, "tq", SP[tname].atomic_number, 0)
        if c2 is not None:
            _beam_write(ctx, path, acc, c2, (sen * case["sib"]["scale"]).tolist(), st_.tolist(), _elem(bname), _elem(tname))
            _wl_sibling(wl, case, bname, 0, c2["tr"])
        if acc in PHOTON:
            wl.write(ctx, path)
        ad = _ad(path, fl, case.get("adform", 0))
        ctx.label("adform:%d" % case.get("adform", 0))
        _edge_labels(ctx, acc, axes, [True] * 3)
        lam = wl.expect(bname, 0, case["tr"], fl[2]) if acc in PHOTON else None
        if acc in PHOTON and lam is None:
            ctx.label("wl-missing")
            ctx.nt(len(wl.d) > 0)
            _expect_missing(ctx, acc + ":wavelength-missing", lambda: _beam_get(ad, acc, case, bname, tname), fl[1], [[a[0] for a in axes]], lenient_null=True)
            return
        with ctx.cut(acc + ":construct"):
            rate = _beam_get(ad, acc, case, bname, tname)
        conv = HC / (lam * 1e-9) if acc in PHOTON else 1.0

        def _writeB(pathB, B):
            _beam_write(ctx, pathB, acc, dict(case, e=B["e"], n=B["n"], t=B["t"], sref=B["sref"]), B["sen"], B["st"], _elem(bname), _elem(tname))
            if acc in PHOTON:
                wB = _WL()
                _wl_sibling(wB, case, bname, 0, case["tr"])
                wB.write(ctx, pathB)
                interf.lamB = wB.expect(bname, 0, case["tr"], fl[2])

        def _gridB(B):
            axB = [list(map(float, B[k])) for k in ("e", "n", "t")]
            wB_ = (np.array(B["sen"], dtype=np.float64)[:, :, None] * np.array(B["st"], dtype=np.float64)[None, None, :] / float(B["sref"])
                   * (HC / (interf.lamB * 1e-9) if acc in PHOTON else 1.0))
            return ([[axB[k][i] for k, i in enumerate(idx)] for idx in np.ndindex(*wB_.shape)], wB_.ravel().tolist(), axB)
        interf = _Interf(ctx, acc, case, fl, _writeB, lambda adx: _beam_get(adx, acc, case, bname, tname), _gridB)
        closers.append(interf)
        if interf.B and interf.B.get("first"):
            interf.build()
        want = sen[:, :, None] * st_[None, None, :] / sref * conv          # documented: s = sen * st / sref
        got = np.empty_like(want)
        for idx in np.ndindex(*want.shape):
            got[idx] = _call(ctx, acc + ":grid", rate, [axes[k][i] for k, i in enumerate(idx)])
        ctx.check(bool(np.all(got >= 0.0)), acc + ":nonnegative", lambda: "negative value at a grid point: %r" % (got.min(),))
        _count_err(got / want)
        ctx.close(got / want, np.ones_like(want), acc + ":grid", rtol=1e-9,
                  info="(ratio rate(grid)/(sen*st/sref*conversion); conversion=%r, wavelength=%r)" % (conv, lam))
        ref, scale = None, 1.0
        if iso:
            lam_e = wl.expect(_elem(bname).name, 0, case["tr"], fl[2]) if acc in PHOTON else None
            if acc not in PHOTON or lam_e is not None:
                with ctx.cut(acc + ":construct-element"):
                    ref = _beam_get(ad, acc, case, _elem(bname).name, _elem(tname).name)
                scale = (lam, lam_e, 1e-9) if acc in PHOTON else (1.0, 1.0, 1e-12)
                g2 = np.empty_like(want)
                for idx in np.ndindex(*want.shape):
                    g2[idx] = _call(ctx, acc + ":grid-element", ref, [axes[k][i] for k, i in enumerate(idx)])
                ctx.close(got * scale[0], g2 * scale[1], acc + ":isotope==element", rtol=scale[2], atol=1e-290)
                ctx.label("isotope==element")
        wide = _span_labels(ctx, acc, sen)
        multi = _points(ctx, acc, rate, axes, [True] * 3, case, bool(fl[0]), ref, scale, wide=wide, nearest=False)
        pts = [[axes[k][i] for k, i in enumerate(idx)] for idx in np.ndindex(*want.shape)]
        interf.build()
        interf.alternate(rate, pts, got.ravel().tolist(), axes, None, lambda adx: _beam_get(adx, acc, case, bname, tname), path, ad)
        if c2 is not None:
            lam2 = wl.expect(bname, 0, c2["tr"], fl[2]) if acc in PHOTON else None
            with ctx.cut(acc + ":construct-sibling"):
                rs = _beam_get(ad, acc, c2, bname, tname)
            want2 = want / conv * case["sib"]["scale"] * (HC / (lam2 * 1e-9) if acc in PHOTON else 1.0)
            g2 = np.array([_call(ctx, acc + ":grid-sibling", rs, pp) for pp in pts]).reshape(want.shape)
            ctx.close(g2 / want2, np.ones_like(want2), acc + ":grid-sibling", rtol=1e-9,
                      info="(sibling key %s of the same provider; wavelength %r)" % (case["sib"]["what"], lam2))
            ctx.label("reuse:provider-second-key:" + ("transition" if c2["tr"] != case["tr"] else ("metastable" if c2["ms"] != case["ms"] else "charge")))
        with ctx.cut(acc + ":construct-again"):
            rate2 = _beam_get(ad, acc, case, bname, tname, form=1)
        _repeat(ctx, acc, rate, rate2, pts, got.ravel().tolist())
        ctx.nt(multi and (float(sen.max()) > float(sen.min()) or float(st_.max()) > float(st_.min())))
    finally:
        shutil.rmtree(path, ignore_errors=True)
        for c in closers:
            c.close()


# ================================================================================================ beam CX
def _bcx_rate(d, scale=1.0):
    r = {"qref": float(d["qref"])}
    for x, q in BCX_AXES:
        r[x] = list(d[x])
        r[q] = list(d[q])
    r["qeb"] = [v * scale for v in d["qeb"]]
    return r


def run_beamcx(case, ctx):
    acc, fl = "beam_cx_pec", case["flags"]
    dname, rname, rq, tri = case["donor"], case["recv"], case["rq"], case["tr"]
    iso = _is_iso(dname) or _is_iso(rname)
    ctx.label("acc:" + acc, "cov:%s:%s:present" % (acc, _flag_label(fl)), "req:" + ("isotope" if iso else "element"))
    path = tempfile.mkdtemp(prefix="vf_c07_repo_")
    closers = []
    try:
        decoy = case.get("decoy")
        true_key = (_sym(_elem(dname)), _sym(_elem(rname)))
        if decoy:
            for d in sorted({dname, _elem(dname).name}):
                for r in sorted({rname, _elem(rname).name}):
                    if (_sym(SP[d]), _sym(SP[r])) != true_key:
                        with ctx.cut("setup:update_beam_cx_rates"):
                            R.update_beam_cx_rates({SP[d]: {SP[r]: {rq: {_tr(tri): {int(m): _bcx_rate(v, decoy) for m, v in case["ms"].items()}}}}}, path)
                        ctx.label("decoy")
        with ctx.cut("setup:update_beam_cx_rates"):
            R.update_beam_cx_rates({_elem(dname): {_elem(rname): {rq: {_tr(tri): {int(m): _bcx_rate(v) for m, v in case["ms"].items()}}}}}, path)
        wl = _wl_store(case, rname, rq - 1, tri)
        cs = _sib_case(case, acc, "rq", SP[rname].atomic_number, 1)
        if cs is not None:
            with ctx.cut("setup:update_beam_cx_rates"):
                R.update_beam_cx_rates({_elem(dname): {_elem(rname): {cs["rq"]: {_tr(cs["tr"]): {
                    int(m): _bcx_rate(v, case["sib"]["scale"]) for m, v in case["ms"].items()}}}}}, path)
            _wl_sibling(wl, case, rname, cs["rq"] - 1, cs["tr"])
        wl.write(ctx, path)
        ad = _ad(path, fl, case.get("adform", 0))
        ctx.label("adform:%d" % case.get("adform", 0))
        lam = wl.expect(rname, rq - 1, tri, fl[2])
        get = lambda d, r: ad.beam_cx_pec(SP[d], SP[r], rq, _tr(tri))  # noqa: E731
        if lam is None:
            ctx.label("wl-missing")
            ctx.nt(len(wl.d) > 0)
            _expect_missing(ctx, acc + ":wavelength-missing", lambda: get(dname, rname), fl[1], [[1e4, 10.0, 1e19, 1.5, 2.0]], lenient_null=True, is_list=True)
            return
        with ctx.cut(acc + ":construct"):
            rates = get(dname, rname)
        ctx.check(isinstance(rates, list), acc + ":list", lambda: "beam_cx_pec returned %r, not a list" % (type(rates),))
        with ctx.cut(acc + ":metastables"):
            got_ms = sorted(int(r.donor_metastable) for r in rates)
        ctx.check(got_ms == sorted(int(m) for m in case["ms"]), acc + ":metastables",
                  lambda: "stored donor metastables %r, returned %r" % (sorted(case["ms"]), got_ms))
        refs = None
        if iso:
            lam_e = wl.expect(_elem(rname).name, rq - 1, tri, fl[2])
            if lam_e is not None:
                with ctx.cut(acc + ":construct-element"):
                    refs = {int(r.donor_metastable): r for r in get(_elem(dname).name, _elem(rname).name)}
                ctx.label("isotope==element")
        conv = HC / (lam * 1e-9)
        nt = False
        ms0 = str(min(int(m) for m in case["ms"]))

        def _lowest(adx):
            return min(adx.beam_cx_pec(SP[dname], SP[rname], rq, _tr(tri)), key=lambda r: int(r.donor_metastable))

        def _writeB(pathB, B):
            R.update_beam_cx_rates({_elem(dname): {_elem(rname): {rq: {_tr(tri): {int(ms0): _bcx_rate(B["d"])}}}}}, pathB)
            wB = _WL()
            _wl_sibling(wB, case, rname, rq - 1, tri)
            wB.write(ctx, pathB)
            interf.lamB = wB.expect(rname, rq - 1, tri, fl[2])

        def _gridB(B):
            d = B["d"]
            axB = [list(map(float, d[x])) for x, _ in BCX_AXES]
            pts, want = [], []
            for k in range(5):
                for i in range(len(axB[k])):
                    idx = [0] * 5
                    idx[k] = i
                    w = d["qeb"][idx[0]] * (HC / (interf.lamB * 1e-9))
                    for m, (_, q) in enumerate(BCX_AXES[1:], start=1):
                        w = w * (d[q][idx[m]] / float(d["qref"]))
                    pts.append([axB[m][j] for m, j in enumerate(idx)])
                    want.append(w)
            return pts, want, axB
        interf = _Interf(ctx, acc, case, fl, _writeB, _lowest, _gridB)
        closers.append(interf)
        if interf.B and interf.B.get("first"):
            interf.build()
        with ctx.cut(acc + ":construct-again"):
            again = {int(r.donor_metastable): r for r in
                     ad.beam_cx_pec(donor_ion=SP[dname], receiver_ion=SP[rname], receiver_charge=rq, transition=_tr_alt(tri))}
        sibs = None
        if cs is not None:
            lam2 = wl.expect(rname, cs["rq"] - 1, cs["tr"], fl[2])
            with ctx.cut(acc + ":construct-sibling"):
                sibs = {int(r.donor_metastable): r for r in ad.beam_cx_pec(SP[dname], SP[rname], cs["rq"], _tr(cs["tr"]))}
            ctx.label("reuse:provider-second-key:" + ("transition" if cs["tr"] != tri else "charge"))
        for rate in rates:
            d = case["ms"][str(int(rate.donor_metastable))]
            axes = [list(map(float, d[x])) for x, _ in BCX_AXES]
            qs = [np.array(d[q], dtype=np.float64) for _, q in BCX_AXES]
            qref = float(d["qref"])
            for k, a in enumerate(axes):
                if len(a) == 1:
                    ctx.label("single-axis:%s:%s" % (acc, BCX_AXES[k][0]))

            def want_at(idx):   # documented: q = qeb*qti*qni*qz*qb/qref^4, photons -> J with h c / lambda
                w = qs[0][idx[0]] * conv
                for k in range(1, 5):
                    w = w * (qs[k][idx[k]] / qref)
                return w
            # axis sweeps through a base multi-index + drawn multi-indices
            base = [case["idx"][0][k] % len(axes[k]) for k in range(5)]
            todo = {tuple(base)}
            for k in range(5):
                for i in range(len(axes[k])):
                    t = list(base)
                    t[k] = i
                    todo.add(tuple(t))
            for ix in case["idx"]:
                todo.add(tuple(ix[k] % len(axes[k]) for k in range(5)))
            ref = refs.get(int(rate.donor_metastable)) if refs else None
            _edge_labels(ctx, acc, axes, [True, False, False, False, False])
            pts, first = [], []
            for idx in sorted(todo):
                p = [axes[k][i] for k, i in enumerate(idx)]
                v = _call(ctx, acc + ":grid", rate, p)
                pts.append(p)
                first.append(v)
                w = want_at(idx)
                ctx.check(v >= 0.0, acc + ":nonnegative", lambda: "negative value %r at grid point %r" % (v, p))
                _count_err(v / w)
                ctx.close(v / w, 1.0, acc + ":grid", rtol=1e-9,
                          info="(ratio rate(grid)/(qeb*qti*qni*qz*qb/qref^4 * hc/lambda) at index %r; wavelength=%r)" % (idx, lam))
                if ref is not None:
                    v2 = _call(ctx, acc + ":grid-element", ref, p)
                    ctx.close(v * lam, v2 * lam_e, acc + ":isotope==element", rtol=1e-9, atol=1e-290, info="at %r" % (p,))
            c2 = dict(case)
            c2["out_on_grid"] = base            # other axes at knots: linear-space splines may be <= 0 between knots (early return 0)
            skip = [1, 2] if case.get("skip_beamcx_nonpos") else []
            c2["skip_nonpos"] = skip
            multi = _points(ctx, acc, rate, axes, [True, True, True, False, False], c2, bool(fl[0]),
                            ref, (lam, lam_e, 1e-9) if ref is not None else 1.0, sweep_base=base,
                            wide=_span_labels(ctx, acc, qs[0]), nearest=False)
            if sibs is not None:
                rs = sibs.get(int(rate.donor_metastable))
                ctx.check(rs is not None, acc + ":grid-sibling", lambda: "sibling key lacks metastable %r" % (rate.donor_metastable,))
                for idx, pp in zip(sorted(todo), pts):
                    w2 = want_at(idx) / conv * case["sib"]["scale"] * (HC / (lam2 * 1e-9))
                    ctx.close(_call(ctx, acc + ":grid-sibling", rs, pp) / w2, 1.0, acc + ":grid-sibling", rtol=1e-9,
                              info="(sibling key rq=%r tr=%r of the same provider; wavelength %r)" % (cs["rq"], cs["tr"], lam2))
            if str(int(rate.donor_metastable)) == ms0:
                interf.build()
                interf.alternate(rate, pts, first, axes, None, _lowest, path, ad)
            r2 = again.get(int(rate.donor_metastable))
            ctx.check(r2 is not None, acc + ":second-object", lambda: "second call lacks metastable %r" % (rate.donor_metastable,))
            _repeat(ctx, acc, rate, r2, pts, first)
            nt = nt or (multi and any(float(q.max()) > float(q.min()) for q in qs))
        ctx.nt(nt)
    finally:
        shutil.rmtree(path, ignore_errors=True)
        for c in closers:
            c.close()


# ================================================================================================ wavelength accessor
def run_wl(case, ctx):
    fl, name, q, tri = case["flags"], case["sp"], case["q"], case["tr"]
    ctx.label("cov:wavelength:%s:%s" % (_flag_label(fl), "present" if case.get("wl_el") is not None or case.get("wl_iso") is not None else "missing"))
    path = tempfile.mkdtemp(prefix="vf_c07_repo_")
    closers = []
    try:
        wl = _wl_store(case, name, q, tri)
        for sib in case.get("siblings", []):       # other charge / other transition / other species: must not be picked up
            sq, stri, sname, v = sib
            sq = sq % (SP[sname].atomic_number + 1)
            key = (_sym(SP[sname]), sq, stri)
            if key not in ((_sym(SP[name]), q, tri), (_sym(_elem(name)), q, tri)) and key not in wl.d:
                wl.put(SP[sname], sq, stri, v)
        # other transitions stored in the SAME json files the lookup opens (the isotope's and its element's)
        for j, v in enumerate(case.get("same_file", [])):
            t2 = (tri + 1 + j) % len(TRANSITIONS)
            if t2 != tri:
                for spx in {SP[name], _elem(name)}:
                    if (_sym(spx), q, t2) not in wl.d:
                        wl.put(spx, q, t2, v + j)
                ctx.label("sib:other-transition-same-file")
        want_keys = dict(wl.d)
        wl.write(ctx, path)
        ad = _ad(path, fl, case.get("adform", 0))
        want = wl.expect(name, q, tri, fl[2])
        own = want_keys.get((_sym(SP[name]), q, tri))
        if want is None:
            ctx.label("wl:missing")
            ctx.raises((RuntimeError,), "wavelength:missing", ad.wavelength, SP[name], q, _tr(tri))
            ctx.raises((RuntimeError,), "wavelength:missing", lambda: ad.wavelength(ion=SP[name], charge=q, transition=_tr_alt(tri)))
        else:
            ctx.label("wl:isotope-own" if (_is_iso(name) and own is not None) else ("wl:fallback-used" if _is_iso(name) else "wl:element"))
            with ctx.cut("wavelength"):
                got = ad.wavelength(SP[name], q, _tr(tri))
                got2 = ad.wavelength(ion=SP[name], charge=q, transition=_tr_alt(tri))      # keywords, other spelling, read twice
            ctx.check(float(got) == want, "wavelength:value", lambda: "wavelength(%s, %d, %r) = %r, stored %r (own %r)" % (name, q, _tr(tri), got, want, own))
            ctx.check(float(got2) == want, "wavelength:value", lambda: "second read wavelength(ion=%s, charge=%d, transition=%r) = %r, stored %r" % (name, q, _tr_alt(tri), got2, want))
        if case.get("interf") and want is not None:
            pathB = tempfile.mkdtemp(prefix="vf_c07_repoB_")
            closers.append(_Closer(pathB))
            wB = _WL()
            for spx in (_elem(name), SP[name]):
                if (_sym(spx), q, tri) in want_keys:
                    wB.put(spx, q, tri, want_keys[(_sym(spx), q, tri)] + case["interf"])
            wB.write(ctx, pathB)
            adB = _ad(pathB, [fl[0], 1 - fl[1], fl[2]], 0)
            with ctx.cut("wavelength:interference"):
                gB = adB.wavelength(SP[name], q, _tr(tri))
                gA = ad.wavelength(SP[name], q, _tr(tri))
                gB2 = adB.wavelength(SP[name], q, _tr(tri))
            ctx.check(float(gB) == wB.expect(name, q, tri, fl[2]) and float(gB2) == float(gB), "wavelength:interference",
                      lambda: "provider B (other data_path): %r / %r, stored %r" % (gB, gB2, wB.expect(name, q, tri, fl[2])))
            ctx.check(float(gA) == want, "wavelength:interference", lambda: "provider A after B was used: %r, stored %r" % (gA, want))
            ctx.label("interference")
        ctx.nt(len(want_keys) > 0)
    finally:
        shutil.rmtree(path, ignore_errors=True)
        for c in closers:
            c.close()


# ================================================================================================ missing data
def _expect_missing(ctx, what, getter, null, battery, lenient_null=False, is_list=False):
    """missing data: RuntimeError, or (null requested) a rate that is zero at the battery."""
    if not null:
        ctx.raises((RuntimeError,), what, getter)
        _counts["runtimeerror_expected"] += 1
        return
    try:
        rate = getter()
    except RuntimeError as e:
        if lenient_null:
            ctx.label("wl-missing:raised-with-null")
            return
        ctx.fail(what, "null rates requested but the accessor raised RuntimeError: %s" % (e,))
    except Exception as e:  # noqa
        ctx.fail(what, "null rates requested but the accessor raised %s: %s" % (type(e).__name__, e))
    rates = rate if isinstance(rate, list) else [rate]
    if is_list:
        ctx.check(isinstance(rate, list) and len(rate) >= 1, what, lambda: "expected a non-empty list of null rates, got %r" % (rate,))
    for r in rates:
        _check_zero_everywhere(ctx, what + ":null-is-zero", r, battery)


_SMALL2 = {"ne": [1e18, 1e19], "te": [1.0, 10.0]}
_TAB22 = [[1e-15, 2e-15], [3e-15, 5e-15]]


def _small(acc):
    if acc in ADF11 or acc == "thermal_cx_rate":
        return dict(_SMALL2, rates=_TAB22)
    if acc in PEC2:
        return dict(_SMALL2, rate=_TAB22)
    if acc == "thermal_cx_pec":
        return dict(_SMALL2, td=[1.0, 10.0], rate=[[[1e-15, 2e-15], [3e-15, 5e-15]], [[2e-15, 3e-15], [4e-15, 7e-15]]])
    if acc in BEAM_ACC:
        return {"e": [1e3, 1e4], "n": [1e18, 1e19], "t": [1.0, 10.0], "sen": _TAB22, "st": [1e-15, 2e-15], "sref": 1e-15,
                "eref": 1e3, "nref": 1e18, "tref": 1.0}
    d = {"qref": 1e-15}
    for (x, q), lo in zip(BCX_AXES, (1e3, 1.0, 1e18, 1.0, 1.0)):
        d[x] = [lo, 10 * lo]
        d[q] = [1e-15, 2e-15]
    return d


def _write_small(ctx, path, acc, sp, q, tri, donor, dq, ms):
    """valid 2x2 content for `acc` under the given key (used for sibling keys)."""
    d = _small(acc)
    with ctx.cut("setup:sibling"):
        if acc in ADF11:
            getattr(R, ADF11[acc])({sp: {q: d}}, path)
        elif acc == "thermal_cx_rate":
            R.update_thermal_cx_rates({donor: {dq: {sp: {q: d}}}}, path)
        elif acc in PEC2:
            R.update_pec_rates({PEC2[acc]: {sp: {q: {_tr(tri): d}}}}, path)
        elif acc == "thermal_cx_pec":
            R.update_pec_thermal_cx_rates({donor: {dq: {sp: {q: {_tr(tri): d}}}}}, path)
        elif acc == "beam_stopping_rate":
            R.update_beam_stopping_rates({donor: {sp: {q: d}}}, path)
        elif acc == "beam_population_rate":
            R.update_beam_population_rates({donor: {ms: {sp: {q: d}}}}, path)
        elif acc == "beam_emission_pec":
            R.update_beam_emission_rates({donor: {sp: {q: {_tr(tri): d}}}}, path)
        elif acc == "beam_cx_pec":
            R.update_beam_cx_rates({donor: {sp: {q: {_tr(tri): {ms: d}}}}}, path)


def _get_any(ad, acc, name, q, tri, donor_name, dq, ms, form=0):
    sp, donor = SP[name], SP[donor_name]
    if form == 1:
        tr = _tr_alt(tri)
        if acc in ADF11:
            return getattr(ad, acc)(ion=sp, charge=q)
        if acc == "thermal_cx_rate":
            return ad.thermal_cx_rate(donor_element=donor, donor_charge=dq, receiver_element=sp, receiver_charge=q)
        if acc in PEC2:
            return getattr(ad, acc)(ion=sp, charge=q, transition=tr)
        if acc == "thermal_cx_pec":
            return ad.thermal_cx_pec(donor_element=donor, donor_charge=dq, receiver_element=sp, receiver_charge=q, transition=tr)
        if acc == "beam_stopping_rate":
            return ad.beam_stopping_rate(beam_ion=donor, plasma_ion=sp, charge=q)
        if acc == "beam_population_rate":
            return ad.beam_population_rate(beam_ion=donor, metastable=ms, plasma_ion=sp, charge=q)
        if acc == "beam_emission_pec":
            return ad.beam_emission_pec(beam_ion=donor, plasma_ion=sp, charge=q, transition=tr)
        if acc == "beam_cx_pec":
            return ad.beam_cx_pec(donor_ion=donor, receiver_ion=sp, receiver_charge=q, transition=tr)
    if acc in ADF11:
        return getattr(ad, acc)(sp, q)
    if acc == "thermal_cx_rate":
        return ad.thermal_cx_rate(donor, dq, sp, q)
    if acc in PEC2:
        return getattr(ad, acc)(sp, q, _tr(tri))
    if acc == "thermal_cx_pec":
        return ad.thermal_cx_pec(donor, dq, sp, q, _tr(tri))
    if acc == "beam_stopping_rate":
        return ad.beam_stopping_rate(donor, sp, q)
    if acc == "beam_population_rate":
        return ad.beam_population_rate(donor, ms, sp, q)
    if acc == "beam_emission_pec":
        return ad.beam_emission_pec(donor, sp, q, _tr(tri))
    if acc == "beam_cx_pec":
        return ad.beam_cx_pec(donor, sp, q, _tr(tri))
    if acc == "total_radiated_power":
        return ad.total_radiated_power(sp)
    if acc == "fractional_abundance":
        return ad.fractional_abundance(sp, q)
    raise AssertionError(acc)


def run_missing(case, ctx):
    acc, fl, name, q, tri = case["acc"], case["flags"], case["sp"], case["q"], case["tr"]
    donor_name, dq, ms = case.get("donor", "hydrogen"), case.get("dq", 0), case.get("ms", 1)
    variant = case["variant"]
    ctx.label("acc:" + acc, "cov:%s:%s:missing" % (acc, _flag_label(fl)), "variant:" + variant, "req:" + ("isotope" if _is_iso(name) else "element"))
    path = tempfile.mkdtemp(prefix="vf_c07_repo_")
    closers = []
    try:
        if variant == "default-path":
            # data_path omitted: the documented default repository (under the redirected, empty HOME) -> everything is missing
            ad = OpenADAS(permit_extrapolation=bool(fl[0]), missing_rates_return_null=bool(fl[1]), wavelength_element_fallback=bool(fl[2]))
            ctx.check(ad.data_path == R.DEFAULT_REPOSITORY_PATH and ad.data_path.startswith(_SCRATCH_HOME), "data_path",
                      lambda: "default data_path %r" % (ad.data_path,))
            ctx.label("entry:default-path")
        else:
            ad = _ad(path, fl, case.get("adform", 0))
        form = case.get("form", 0)
        getter = lambda: _get_any(ad, acc, name, q, tri, donor_name, dq, ms, form)  # noqa: E731
        if acc in INHERITED:
            ctx.label("inherited-not-implemented")
            ctx.raises((RuntimeError,), acc + ":missing", getter)
            return
        el, del_ = _elem(name), _elem(donor_name)
        zmax = el.atomic_number
        if variant == "sibling":
            # same family, one key component changed: other charge (same json file for ADF11-like / thermal CX),
            # other transition (same file for PEC-like), other metastable, isotope-symbol decoy of the requested key
            q2 = q + 1 if q + 1 <= zmax else q - 1
            wlq = 0 if acc == "beam_emission_pec" else _wl_charge(acc, q)
            w = _WL()
            w.put(el, wlq, tri, 500.0)
            if _is_iso(name):
                w.put(SP[name], wlq, tri, 400.0)
            w.write(ctx, path)
            if q2 >= (1 if acc in ("thermal_cx_pec", "beam_cx_pec") else 0):
                _write_small(ctx, path, acc, el, q2, tri, del_, dq, ms)
                if acc in ADF11 or acc == "thermal_cx_rate":
                    ctx.label("sib:other-charge-same-file:" + acc)
            if acc in PHOTON:
                # the json file the accessor opens EXISTS and holds other transitions: the lookup fails on the key, not the file
                _write_small(ctx, path, acc, el, q, (tri + 1) % len(TRANSITIONS), del_, dq, ms)
                _write_small(ctx, path, acc, el, q, (tri + 2) % len(TRANSITIONS), del_, dq, ms)
                ctx.label("sib:other-transition-same-file:" + acc)
            if acc in ("beam_population_rate",):
                _write_small(ctx, path, acc, el, q, tri, del_, dq, ms + 1)
            if _is_iso(name) and _sym(SP[name]) != _sym(el):
                _write_small(ctx, path, acc, SP[name], q, tri, del_, dq, ms)       # data under the isotope's own symbol: not its element's
            ctx.nt()
        battery = [list(b[:ARITY[acc]]) for b in case["battery"]]
        battery = battery + battery[:1]                      # the first point again at the end (same null object re-used)

        def _present_elsewhere():
            pathB = tempfile.mkdtemp(prefix="vf_c07_repoB_")
            closers.append(_Closer(pathB))
            _write_small(ctx, pathB, acc, el, q, tri, del_, dq, ms)
            wB = _WL()
            if acc == "beam_emission_pec":
                wB.put(del_, 0, tri, 500.0)              # wavelength of the BEAM species
            else:
                wB.put(el, _wl_charge(acc, q), tri, 500.0)
            wB.write(ctx, pathB)
            adB = _ad(pathB, [fl[0], 1 - fl[1], 1], 0)
            with ctx.cut(acc + ":interference:present-elsewhere"):
                rB = _get_any(adB, acc, name, q, tri, donor_name, dq, ms, 0)
                rB = rB[0] if isinstance(rB, list) else rB
                small = _small(acc)
                keys = ("ne", "te", "td")[:ARITY[acc]] if "ne" in small else (("e", "n", "t") if "e" in small else tuple(x for x, _ in BCX_AXES))
                p0 = [small[k][0] for k in keys]
                v = float(rB(*p0))
            ctx.check(v > 0.0 and math.isfinite(v), acc + ":interference:present-elsewhere", lambda: "provider B has the key but returned %r at %r" % (v, p0))
            ctx.label("interference")
        interf = case.get("interf") if acc not in INHERITED and variant != "default-path" else None
        if interf == "first":
            _present_elsewhere()
        _expect_missing(ctx, acc + ":missing", getter, fl[1], battery, is_list=(acc == "beam_cx_pec"))
        if interf == "after":
            _present_elsewhere()
        _expect_missing(ctx, acc + ":missing-again", getter, fl[1], battery[:2], is_list=(acc == "beam_cx_pec"))   # provider asked twice
        if fl[1]:
            ctx.label("null:" + acc)
    finally:
        shutil.rmtree(path, ignore_errors=True)
        for c in closers:
            c.close()


# ================================================================================================ dispatcher
def run_conv(case, ctx):
    """cherab.core.utility.conversion.PhotonToJ (the documented photon -> J conversion used by every photon coefficient)."""
    x, lam = case["x"], float(case["wl"])
    want = np.array(x, dtype=np.float64) * HC / (lam * 1e-9)
    for form, arg in (("ndarray", np.array(x, dtype=np.float64)), ("list-of-float", None), ("scalar", None)):
        with ctx.cut("PhotonToJ.to"):
            if form == "ndarray":
                got = PhotonToJ.to(arg, lam)
                back = PhotonToJ.inv(got, lam)
            else:
                got = np.array([PhotonToJ.to(float(v), lam) for v in x])
                back = np.array([PhotonToJ.inv(float(g), lam) for g in got])
        ctx.close(got / want, np.ones_like(want), "PhotonToJ.to", rtol=1e-12, info="(%s)" % form)
        ctx.close(back / np.array(x, dtype=np.float64), np.ones_like(want), "PhotonToJ.inv", rtol=1e-12, info="(%s)" % form)
    ctx.label("entry:PhotonToJ.to", "entry:PhotonToJ.inv")
    ctx.nt()


RUNNERS = {"tab": run_tab, "beam": run_beam, "beamcx": run_beamcx, "wl": run_wl, "missing": run_missing, "conv": run_conv}


def run_any(case, ctx):
    RUNNERS[case["k"]](case, ctx)


# ================================================================================================ strategies
def _np_log10_edges_agree(grid, i):
    a = np.log10(np.array(grid, dtype=np.float64))
    return float(a[i]) == math.log10(grid[i])


def _fix_edges(grid):
    """Finding C07-edge-knot-log10 open: move an edge knot by a few ulp until libc and numpy log10 agree on it."""
    if not _open(F_EDGE) or len(grid) == 0:
        return grid
    g = list(grid)
    for i, direction in ((0, math.inf), (len(g) - 1, -math.inf)):
        for _ in range(200):
            if _np_log10_edges_agree(g, i):
                break
            g[i] = float(np.nextafter(g[i], direction))
    return g


_NICE = [1.0, 2.0, 5.0]


@st.composite
def _grid(draw, lo, hi, nmin=2, nmax=7, hmin=0.2, log=True):
    """strictly increasing positive grid; decades [lo, hi] for the first knot."""
    n = draw(st.integers(nmin, nmax))
    if draw(st.integers(0, 3)) == 0:
        k0 = draw(st.integers(int(math.ceil(lo)) * 3, int(math.floor(hi)) * 3 + 2))
        g = [float("%ge%d" % (_NICE[(k0 + i) % 3], (k0 + i) // 3)) for i in range(n)]
    else:
        u = draw(st.floats(lo, hi))
        steps = draw(st.lists(st.floats(hmin, 1.2), min_size=n - 1, max_size=n - 1))
        g, acc = [10.0 ** u], u
        for s in steps:
            acc += s
            g.append(10.0 ** acc)
    if not log:
        return g
    if _open(F_EDGE):
        return _fix_edges(g)
    edgy = draw(st.integers(0, 5))          # 0,1: harmful one way; 2: the other way; else as drawn
    if edgy <= 2:
        g[0] = _harmful_edge(g[0], 0, edgy == 2)
        g[-1] = _harmful_edge(g[-1], 1, edgy == 2)
    return g


@st.composite
def _values(draw, shape, blo, bhi, wmax, magic=False):
    base = draw(st.floats(blo, bhi))
    w = draw(st.sampled_from([0.0, 0.3, 1.0, wmax, wmax])) if draw(st.integers(0, 7)) == 0 else draw(st.floats(0.05, wmax))
    n = int(np.prod(shape))
    u = draw(st.lists(st.floats(0.0, 1.0), min_size=n, max_size=n))
    v = 10.0 ** (base + w * np.array(u).reshape(shape))
    if magic:                                # dimensionless tables: some entries exactly 1.0 (log10 = 0), equal neighbours
        for i in draw(st.lists(st.integers(0, n - 1), max_size=3)):
            v.flat[i] = 1.0
    return v.tolist()


@st.composite
def _wide_values(draw, shape, lo, hi, maxspan, temps=None, taxis=1):
    """Table whose dynamic range WITHIN the table is drawn log-uniformly up to what float64 holds (exponents in [lo, hi], at most
    `maxspan` decades in one table): rough (every entry anywhere in the window), one tiny entry among O(1) ones, one huge entry
    among tiny ones, steep A*exp(-E/T) columns along the temperature axis (E/T_min up to ~650)."""
    n = int(np.prod(shape))
    kind = draw(st.sampled_from(["rough", "tiny1", "huge1", "arrhenius", "arrhenius"] if temps is not None else ["rough", "tiny1", "huge1"]))
    span = draw(st.one_of(st.floats(30.0, maxspan), st.just(maxspan)))
    a = draw(st.floats(lo, hi - span))                      # window [a, a + span] inside [lo, hi]
    u = np.array(draw(st.lists(st.floats(0.0, 1.0), min_size=n, max_size=n))).reshape(shape)
    if kind == "rough":
        ex = a + span * u
    elif kind == "tiny1":
        ex = (a + span) - 2.0 * u
        ex.flat[draw(st.integers(0, n - 1))] = a
    elif kind == "huge1":
        ex = a + 2.0 * u
        ex.flat[draw(st.integers(0, n - 1))] = a + span
    else:
        t = np.array(temps, dtype=np.float64)
        e_ion = span * math.log(10.0) / (1.0 / t[0] - 1.0 / t[-1])          # exp(-E/T) drops by `span` decades from T_max to T_min
        col = -e_ion / t / math.log(10.0)
        col = col - col.max()
        shp = [1] * len(shape)
        shp[taxis] = len(t)
        ex = (a + span) + col.reshape(shp) + 0.5 * u
    return (10.0 ** np.clip(ex, lo, hi)).tolist()


def _cf(na):
    return st.lists(st.lists(st.floats(0.05, 0.95), min_size=na, max_size=na), min_size=2, max_size=3)


def _sib(kinds):
    return st.one_of(st.none(), st.fixed_dictionaries({"what": st.sampled_from(kinds), "scale": st.sampled_from([2.0, 0.5, 3.0, 7.0])}))


_adform = st.integers(0, 2)


def _us(na):
    return st.lists(st.lists(st.floats(0.02, 0.98), min_size=na, max_size=na), min_size=3, max_size=3)


def _fs(na):
    f = st.one_of(st.floats(1.001, 10.0), st.sampled_from([10.0, 1.5, 1.0001]))
    return st.lists(st.lists(f, min_size=2, max_size=2), min_size=na, max_size=na)


def _bad(na):
    return st.lists(st.integers(0, len(NONPOS) - 1), min_size=na, max_size=na)


_flags = st.sampled_from(FLAGS)
_lam = st.one_of(st.floats(1.0, 1.0e4), st.floats(1.0, 1.0e4), st.sampled_from([1.0, 656.28, 1.0e4]))
_trs = st.integers(0, len(TRANSITIONS) - 1)
_decoy = st.one_of(st.none(), st.sampled_from([2.0, 0.5, 3.0, 10.0]))


@st.composite
def _wl_pair(draw, name):
    """(wl_el, wl_iso): mostly available; every presence pattern occurs."""
    pat = draw(st.sampled_from(["both", "both", "both", "el", "el", "iso", "none", "same"])) if _is_iso(name) else \
        draw(st.sampled_from(["el", "el", "el", "el", "none"]))
    a, b = draw(_lam), draw(_lam)
    if pat == "same":
        b = a
    return (a if pat in ("both", "el", "same") else None), (b if pat in ("both", "iso", "same") else None)


def _species(draw, iso_ok=True):
    return draw(st.sampled_from(ELEMENTS + (ISOTOPES if iso_ok else [])))


@st.composite
def tab_case(draw, acc=None, flags=None, single=None):
    acc = acc or draw(st.sampled_from(TAB_ACC))
    fl = flags or draw(_flags)
    c = {"k": "tab", "acc": acc, "flags": fl}
    three = acc == "thermal_cx_pec"
    tcx = acc in ("thermal_cx_rate", "thermal_cx_pec")
    name = _species(draw, iso_ok=not (three and _open(F_TCXISO)))
    c["sp"] = name
    z = SP[name].atomic_number
    c["q"] = draw(st.integers(1 if three else 0, z))
    c["tr"] = draw(_trs)
    if tcx:
        c["donor"] = draw(st.sampled_from(BEAMS + ["helium", "helium3"]))
        c["dq"] = draw(st.integers(0, SP[c["donor"]].atomic_number - 1))
    # axes: 2..7 points (3-D: <= 4,4,3); one-point axes are a separate class (finding F_SINGLE)
    if single is None:
        single = (not _open(F_SINGLE)) and draw(st.integers(0, 5)) == 0
    na = 3 if three else 2
    one = draw(st.lists(st.booleans(), min_size=na, max_size=na).filter(any)) if single else [False] * na
    lim = [4, 4, 3] if three else [7, 7]
    rng = [(10.0, 21.0), (-1.5, 2.5), (-1.5, 2.5)]
    c["axes"] = [draw(_grid(rng[k][0], rng[k][1], 1 if one[k] else 2, 1 if one[k] else lim[k])) for k in range(na)]
    shape = [len(a) for a in c["axes"]]
    if draw(st.integers(0, 3)) == 0 and all(n >= 2 for n in shape):
        # 3-D: <= 150 decades in one table (see TOLERANCES); photon tables >= 1e-280 so that table * h c / lambda stays a normal double
        c["table"] = draw(_wide_values(shape, -280.0 if acc in PHOTON else -300.0, 290.0, 150.0 if three else 570.0, temps=c["axes"][1]))
    else:
        c["table"] = draw(_values(shape, -25.0 if acc in PHOTON else -40.0, -8.0, 6.0))
    c["decoy"] = draw(_decoy) if (_is_iso(name) or (tcx and _is_iso(c["donor"]))) else None
    if acc in PHOTON:
        c["wl_el"], c["wl_iso"] = draw(_wl_pair(name))
    c["us"], c["fs"], c["bad"] = draw(_us(na)), draw(_fs(na)), draw(_bad(na))
    c["cf"], c["sib"], c["adform"] = draw(_cf(na)), draw(_sib(["q", "tr"])), draw(_adform)
    if draw(st.integers(0, 2)) > 0:          # second object B: same accessor and key, other provider / table / grid sizes / flags
        axB = [draw(_grid(rng[k][0], rng[k][1], 2, lim[k])) for k in range(na)]
        c["B"] = {"axes": axB, "table": draw(_values([len(a) for a in axB], -25.0 if acc in PHOTON else -40.0, -8.0, 6.0)),
                  "flags": [draw(st.integers(0, 1)), draw(st.integers(0, 1))], "first": draw(st.booleans())}
    return c


@st.composite
def beam_case(draw, acc=None, flags=None, single=None):
    acc = acc or draw(st.sampled_from(BEAM_ACC))
    fl = flags or draw(_flags)
    c = {"k": "beam", "acc": acc, "flags": fl}
    c["beam"] = draw(st.sampled_from(BEAMS + ["hydrogen"]))
    c["target"] = _species(draw)
    c["tq"] = draw(st.integers(0, SP[c["target"]].atomic_number))
    c["ms"] = draw(st.integers(1, 3))
    c["tr"] = draw(_trs)
    if single is None:
        single = draw(st.integers(0, 4)) == 0
    opts = [[1, 0, 0], [0, 1, 0], [1, 1, 0]] + ([] if _open(F_SINGLE) else [[0, 0, 1], [1, 1, 1], [1, 0, 1]])
    one = draw(st.sampled_from(opts)) if single else [0, 0, 0]
    rng = [(2.0, 4.5), (10.0, 21.0), (-1.5, 2.5)]
    g = [draw(_grid(rng[k][0], rng[k][1], 1 if one[k] else 2, 1 if one[k] else (5, 5, 6)[k], hmin=0.3)) for k in range(3)]
    c["e"], c["n"], c["t"] = g
    collapsed = one[0] or one[1]
    # 'sen' is extrapolated linearly (2-D) but quadratically when one of its axes has a single knot; 'st' always quadratically
    unit = acc == "beam_population_rate" and draw(st.booleans())      # populations are dimensionless numbers of order 1
    if unit:
        c["sen"] = draw(_values([len(g[0]), len(g[1])], -3.0, 0.0, 1.5 if collapsed else 3.0, magic=True))
        c["st"] = draw(_values([len(g[2])], -1.0, 0.0, 1.5, magic=True))
        c["sref"] = draw(st.one_of(st.just(1.0), st.floats(0.1, 10.0)))
    elif draw(st.integers(0, 3)) == 0 and not collapsed:
        c["sen"] = draw(_wide_values([len(g[0]), len(g[1])], -250.0, 250.0, 500.0))
        c["st"] = draw(_values([len(g[2])], -16.0, -12.0, 1.5))
        c["sref"] = draw(st.floats(1e-16, 1e-12))
    else:
        c["sen"] = draw(_values([len(g[0]), len(g[1])], -25.0 if acc in PHOTON else -20.0, -8.0, 1.5 if collapsed else 5.0))
        c["st"] = draw(_values([len(g[2])], -16.0, -12.0, 1.5))
        c["sref"] = draw(st.floats(1e-16, 1e-12))
    c["decoy"] = draw(_decoy) if (_is_iso(c["beam"]) or _is_iso(c["target"])) else None
    if acc in PHOTON:
        c["wl_el"], c["wl_iso"] = draw(_wl_pair(c["beam"]))
    c["us"], c["fs"], c["bad"] = draw(_us(3)), draw(_fs(3)), draw(_bad(3))
    c["cf"], c["sib"], c["adform"] = draw(_cf(3)), draw(_sib(["q", "tr", "ms"])), draw(_adform)
    if draw(st.integers(0, 2)) > 0:
        gB = [draw(_grid(rng[k][0], rng[k][1], 2, (5, 5, 6)[k], hmin=0.3)) for k in range(3)]
        c["B"] = {"e": gB[0], "n": gB[1], "t": gB[2], "sen": draw(_values([len(gB[0]), len(gB[1])], -20.0, -8.0, 5.0)),
                  "st": draw(_values([len(gB[2])], -16.0, -12.0, 1.5)), "sref": draw(st.floats(1e-16, 1e-12)),
                  "flags": [draw(st.integers(0, 1)), draw(st.integers(0, 1))], "first": draw(st.booleans())}
    return c


@st.composite
def _bcx_data(draw, single):
    unit = draw(st.integers(0, 3)) == 0        # coefficients of order 1 with qref exactly 1.0 are as valid as 1e-15 ones
    d = {"qref": draw(st.one_of(st.just(1.0), st.floats(0.1, 10.0))) if unit else draw(st.floats(1e-16, 1e-12))}
    one = draw(st.lists(st.booleans(), min_size=5, max_size=5).filter(any)) if single else [False] * 5
    rng = [(2.0, 4.5), (-1.0, 2.5), (17.0, 20.0), (0.0, 0.3), (-1.0, 0.3)]
    for k, (x, q) in enumerate(BCX_AXES):
        d[x] = draw(_grid(rng[k][0], rng[k][1], 1 if one[k] else 2, 1 if one[k] else 5, hmin=0.3, log=(k == 0)))
        # qeb: log space, quadratic extrapolation (<= 1.5 decades); the others: LINEAR space, nearest extrapolation
        d[q] = draw(_values([len(d[x])], -1.0 if unit else -16.0, 0.0 if unit else -12.0, 1.5 if k == 0 else 3.0, magic=unit))
    if not one[0] and draw(st.integers(0, 3)) == 0:
        d["qeb"] = draw(_wide_values([len(d["eb"])], -250.0, 250.0, 500.0))
    return d


@st.composite
def beamcx_case(draw, flags=None, single=None):
    fl = flags or draw(_flags)
    c = {"k": "beamcx", "flags": fl}
    c["donor"] = draw(st.sampled_from(BEAMS + ["hydrogen", "hydrogen"]))
    c["recv"] = _species(draw)
    c["rq"] = draw(st.integers(1, SP[c["recv"]].atomic_number))
    c["tr"] = draw(_trs)
    if single is None:
        single = draw(st.integers(0, 4)) == 0
    mss = draw(st.sampled_from([[1], [1], [2], [1, 2], [1, 3]]))
    c["ms"] = {str(m): draw(_bcx_data(single)) for m in mss}
    c["decoy"] = draw(_decoy) if (_is_iso(c["donor"]) or _is_iso(c["recv"])) else None
    c["wl_el"], c["wl_iso"] = draw(_wl_pair(c["recv"]))
    c["idx"] = draw(st.lists(st.lists(st.integers(0, 6), min_size=5, max_size=5), min_size=2, max_size=4))
    c["us"], c["fs"], c["bad"] = draw(_us(5)), draw(_fs(5)), draw(_bad(5))
    c["cf"], c["sib"], c["adform"] = draw(_cf(5)), draw(_sib(["q", "tr"])), draw(_adform)
    c["skip_beamcx_nonpos"] = bool(_open(F_BCXNP))
    if draw(st.integers(0, 2)) > 0:
        c["B"] = {"d": draw(_bcx_data(False)), "flags": [draw(st.integers(0, 1)), draw(st.integers(0, 1))], "first": draw(st.booleans())}
    return c


@st.composite
def wl_case(draw, flags=None):
    fl = flags or draw(_flags)
    name = _species(draw)
    c = {"k": "wl", "flags": fl, "sp": name, "q": draw(st.integers(0, SP[name].atomic_number)), "tr": draw(_trs)}
    c["wl_el"], c["wl_iso"] = draw(_wl_pair(name))
    c["siblings"] = draw(st.lists(st.tuples(st.integers(0, 10), _trs, st.sampled_from(ELEMENTS + ISOTOPES), _lam).map(list), max_size=3))
    c["same_file"] = draw(st.lists(st.floats(1.0, 1.0e4), max_size=2))
    c["adform"] = draw(_adform)
    c["interf"] = draw(st.one_of(st.none(), st.sampled_from([1.0, 0.25, 100.0])))
    return c


_arg = st.one_of(st.floats(1e-3, 1e22), st.sampled_from([0.0, -1.0, 1e300, 1e-300, -1e300, 1.0, 1e19, 100.0]))


@st.composite
def missing_case(draw, acc=None, flags=None):
    acc = acc or draw(st.sampled_from(TAB_ACC + BEAM_ACC + ["beam_cx_pec"] + INHERITED))
    fl = list(flags or draw(_flags))
    if (acc == "recombination_pec" and _open(F_RPEC)) or (acc == "beam_cx_pec" and _open(F_BCXNULL)):
        fl[1] = 0                                   # excluded_known: the null path of these two accessors
    name = _species(draw)
    z = SP[name].atomic_number
    cx = acc in ("thermal_cx_pec", "beam_cx_pec")
    c = {"k": "missing", "acc": acc, "flags": fl, "sp": name, "q": draw(st.integers(1 if cx else 0, z)), "tr": draw(_trs),
         "variant": draw(st.sampled_from(["empty", "sibling", "sibling", "sibling", "default-path"])), "form": draw(st.integers(0, 1)),
         "adform": draw(_adform)}
    c["donor"] = draw(st.sampled_from(BEAMS))
    c["dq"] = 0
    c["ms"] = draw(st.integers(1, 2))
    c["battery"] = draw(st.lists(st.lists(_arg, min_size=5, max_size=5), min_size=3, max_size=6))
    c["interf"] = draw(st.sampled_from([None, "first", "after"]))
    return c


# ---- matrix: deterministic cases, every accessor x flag combination x present/missing x element/isotope
def _hx(axis, rev=False):
    """first / last knot moved (by < 1500 ulp) onto doubles whose numpy and libm log10 differ (see _harmful_edge)."""
    g = list(axis)
    if _open(F_EDGE):
        return _fix_edges(g)
    g[0] = _harmful_edge(g[0], 0, rev)
    g[-1] = _harmful_edge(g[-1], 1, rev)
    return g


def matrix_cases(tier):
    # zig-zag tables spanning 6 decades between neighbours: an interpolant that is not built in log space undershoots below 0
    zz = [[1.5e-15, 2e-9, 4e-15, 3e-10], [3e-9, 5e-15, 9e-10, 2e-15], [2e-15, 7e-10, 1e-15, 6e-9]]
    mild = [[1.5e-15, 2e-15, 4e-15, 5e-15], [3e-15, 5e-15, 9e-15, 9.5e-15], [4e-15, 6e-15, 9.5e-15, 1e-14]]
    pts2 = {"us": [[0.3, 0.6], [0.5, 0.5], [0.9, 0.1]], "fs": [[2.0, 10.0], [10.0, 3.0]], "bad": [0, 2], "cf": [[0.5, 0.5], [0.2, 0.8], [0.85, 0.15]]}
    pts3 = {"us": [[0.3, 0.6, 0.4], [0.5, 0.5, 0.5], [0.9, 0.1, 0.7]], "fs": [[2.0, 10.0], [10.0, 3.0], [1.5, 10.0]], "bad": [0, 2, 1],
            "cf": [[0.5, 0.5, 0.5], [0.2, 0.8, 0.3], [0.85, 0.15, 0.7]]}
    pts5 = {"us": [[0.3, 0.6, 0.4, 0.2, 0.8], [0.5] * 5, [0.9, 0.1, 0.7, 0.5, 0.3]], "fs": [[2.0, 10.0]] * 5, "bad": [0, 2, 1, 0, 0],
            "cf": [[0.5] * 5, [0.2, 0.8, 0.3, 0.15, 0.85], [0.85, 0.15, 0.7, 0.9, 0.1]]}
    n = 0
    for fl in FLAGS:
        for iso in (False, True):
            sp = "deuterium" if iso else "hydrogen"
            wlp = {"wl_el": 656.28, "wl_iso": 656.10 if iso else None}
            ne, te, td = _hx([1e18, 2e18, 1e19], iso), _hx([0.2, 1.0, 10.0, 100.0], iso), _hx([0.5, 5.0], iso)
            for acc in TAB_ACC:
                n += 1
                c = {"k": "tab", "acc": acc, "flags": fl, "sp": sp, "q": 1, "tr": 0, "decoy": 2.0 if iso else None,
                     "axes": [ne, te], "table": zz, "sib": {"what": "tr" if iso else "q", "scale": 3.0}, "adform": n % 3}
                c.update(pts2)
                if acc in ("thermal_cx_rate", "thermal_cx_pec"):
                    c["donor"], c["dq"] = ("deuterium" if iso else "hydrogen"), 0
                if acc == "thermal_cx_pec":
                    if iso and _open(F_TCXISO):
                        c["sp"] = "hydrogen"            # excluded_known: isotope receiver of thermal_cx_pec
                    c["axes"] = [ne, te, td]
                    c["table"] = [[[v, 1e3 * v] for v in row] for row in zz]
                    c.update(pts3)
                if acc in PHOTON:
                    c.update(wlp)
                axB = [[3e17, 3e18, 3e19, 3e20, 3e21], [0.3, 30.0]] + ([[2.0, 20.0, 200.0]] if acc == "thermal_cx_pec" else [])
                tB = [[7e-12 * (1 + i) * (1 + 2 * j) for j in range(2)] for i in range(5)]
                c["B"] = {"axes": axB, "table": [[[v, 2 * v, 5 * v] for v in row] for row in tB] if acc == "thermal_cx_pec" else tB,
                          "flags": [1 - fl[0], fl[1]], "first": bool(n % 2)}
                yield c
            e, nn, t = _hx([1e4, 5e4, 1e5], iso), _hx([1e19, 1e20, 1e21, 2e21], iso), _hx([0.5, 1.0, 100.0, 1000.0], iso)
            for acc in BEAM_ACC:
                n += 1
                c = {"k": "beam", "acc": acc, "flags": fl, "beam": sp, "target": "carbon13" if iso else "carbon", "tq": 5, "ms": 2, "tr": 0,
                     "e": e, "n": nn, "t": t, "sen": zz if not fl[0] else mild, "st": [1e-14, 2e-14, 2.5e-14, 1.2e-14],
                     "sref": 1.5e-14, "decoy": 2.0 if iso else None, "sib": {"what": ["q", "tr", "ms"][n % 3], "scale": 3.0}, "adform": n % 3}
                c.update(pts3)
                if acc in PHOTON:
                    c.update(wlp)
                c["B"] = {"e": [3e3, 3e4], "n": [3e18, 3e19], "t": [3.0, 30.0, 300.0, 3000.0, 6000.0], "sen": [[7e-12, 9e-12], [8e-12, 2e-11]],
                          "st": [1e-14, 3e-14, 2e-14, 1.1e-14, 1.3e-14], "sref": 2e-14, "flags": [1 - fl[0], fl[1]], "first": bool(n % 2)}
                yield c
            d = {"qref": 2e-15}
            for (x, q), lo in zip(BCX_AXES, (1e4, 100.0, 1e19, 1.0, 1.0)):
                d[x] = [lo, 2 * lo, 5 * lo, 10 * lo]
                d[q] = [1e-15, 2e-15, 2.5e-15, 1.1e-15] if x == "eb" else [1e-15, 9e-13, 2e-15, 8e-13]     # linear space: zig-zag
            d["eb"] = _hx(d["eb"], iso)
            n += 1
            c = {"k": "beamcx", "flags": fl, "donor": sp, "recv": "carbon13" if iso else "carbon", "rq": 5, "tr": 3,
                 "ms": {"1": d, "2": dict(d, qref=1.0, qti=[1.0, 0.5, 1.0, 2.0])},
                 "decoy": 2.0 if iso else None, "wl_el": 529.05, "wl_iso": 529.0 if iso else None, "idx": [[0, 1, 2, 0, 1], [2, 2, 2, 2, 2], [3, 3, 3, 3, 3]],
                 "skip_beamcx_nonpos": bool(_open(F_BCXNP)), "sib": {"what": "tr" if iso else "q", "scale": 3.0}, "adform": n % 3}
            c.update(pts5)
            dB = {"qref": 3e-14}
            for (x, q), lo in zip(BCX_AXES, (3e3, 30.0, 3e18, 1.5, 0.5)):
                dB[x] = [lo, 3 * lo]
                dB[q] = [4e-14, 7e-14]
            c["B"] = {"d": dB, "flags": [1 - fl[0], fl[1]], "first": bool(n % 2)}
            yield c
            yield {"k": "wl", "flags": fl, "sp": sp, "q": 0, "tr": 0, "wl_el": 656.28, "wl_iso": 656.10 if iso else None,
                   "siblings": [[0, 1, "hydrogen", 486.1], [1, 0, "helium", 468.6]], "same_file": [434.0], "adform": n % 3, "interf": 1.0}
            yield {"k": "wl", "flags": fl, "sp": sp, "q": 0, "tr": 0, "wl_el": None if not iso else 656.28, "wl_iso": None,
                   "siblings": [[0, 1, "hydrogen", 486.1]], "same_file": [434.0, 410.0], "adform": (n + 1) % 3}
            bat = [[1e19, 10.0, 1e19, 2.0, 2.0], [0.0, 0.0, 0.0, 0.0, 0.0], [-1.0, 5.0, 1e300, -1.0, 1e-300], [1e300] * 5, [1.0] * 5]
            for acc in TAB_ACC + BEAM_ACC + ["beam_cx_pec"] + INHERITED:
                f2 = list(fl)
                if (acc == "recombination_pec" and _open(F_RPEC)) or (acc == "beam_cx_pec" and _open(F_BCXNULL)):
                    if f2[1]:
                        continue                        # excluded_known cell of the matrix
                for variant in ("empty", "sibling") + (() if iso else ("default-path",)):
                    n += 1
                    yield {"k": "missing", "acc": acc, "flags": f2, "sp": sp, "q": 1, "tr": 0, "variant": variant, "donor": sp if acc not in TAB_ACC else "hydrogen",
                           "dq": 0, "ms": 1, "battery": bat, "form": n % 2, "adform": n % 3, "interf": ["first", "after"][n % 2]}
    # ---- single-point axes the classes accept: every 1-D / constant branch of the beam classes and of BeamCXPEC
    for fl in ([0, 0, 0], [1, 0, 0]):
        for acc in BEAM_ACC:
            for one in ([1, 0, 0], [0, 1, 0], [1, 1, 0]):
                e = [2e4] if one[0] else _hx([1e4, 5e4, 1e5])
                nn = [1e20] if one[1] else _hx([1e19, 1e20, 1e21, 2e21])
                sen = [[v * (1 + 0.3 * j) * (1 + 0.1 * i) for j in range(len(nn))] for i, v in enumerate([1.5e-15, 3e-15, 2e-15][:len(e)])]
                c = {"k": "beam", "acc": acc, "flags": fl, "beam": "hydrogen", "target": "carbon", "tq": 5, "ms": 1, "tr": 0, "e": e, "n": nn,
                     "t": _hx([0.5, 1.0, 100.0, 1000.0]), "sen": sen, "st": [1e-14, 2e-14, 2.5e-14, 1.2e-14], "sref": 1.0e-14, "decoy": None,
                     "wl_el": 656.28, "wl_iso": None, "sib": None, "adform": 0}
                c.update(pts3)
                yield c
        for k in range(5):
            d = {"qref": 2e-15}
            for j, ((x, q), lo) in enumerate(zip(BCX_AXES, (1e4, 100.0, 1e19, 1.0, 1.0))):
                d[x] = [2 * lo] if j == k else [lo, 2 * lo, 5 * lo]
                d[q] = [1.5e-15] if j == k else [1e-15, 2e-15, 2.5e-15]
            if k != 0:
                d["eb"] = _hx(d["eb"])
            c = {"k": "beamcx", "flags": fl, "donor": "hydrogen", "recv": "carbon", "rq": 5, "tr": 3, "ms": {"1": d}, "decoy": None,
                 "wl_el": 529.05, "wl_iso": None, "idx": [[0, 1, 2, 0, 1]], "skip_beamcx_nonpos": bool(_open(F_BCXNP)), "sib": None, "adform": 0}
            c.update(pts5)
            yield c
    # ---- dynamic range WITHIN one table: an ionisation-like exp(-E/Te) cut-off (45 decades), one tiny entry among O(1) ones,
    # and the full float64 range in one table, for every rate class
    te5 = [0.2, 0.5, 1.0, 10.0, 100.0]
    arrh = [[a * 1e-14 * math.exp(-13.6 / t) / (1.0 + 0.01 * t) for t in te5] for a in (1.0, 1.3, 2.1)]      # 1e-44 ... 1e-15
    tiny1 = [[1.0, 2.0, 0.5, 3.0e-250, 1.5], [2.5, 0.7, 1.1, 0.9, 4.0], [0.3, 5.0, 1e-120, 2.0, 1.0]]
    full = [[1e-280, 1e290, 3e-100, 7e150, 2e-10], [5e200, 4e-270, 1.0, 6e-33, 8e280], [9e-5, 2e77, 3e-199, 1e289, 5e-279]]
    for fl in ([0, 0, 0], [1, 0, 0]):
        for j, tab in enumerate((arrh, tiny1, full)):
            for acc in TAB_ACC:
                c = {"k": "tab", "acc": acc, "flags": fl, "sp": "hydrogen", "q": 1, "tr": 0, "decoy": None, "axes": [[1e18, 1e19, 1e20], te5],
                     "table": tab, "sib": None, "adform": 0, "wl_el": 656.28, "wl_iso": None}
                c.update(pts2)
                if acc in ("thermal_cx_rate", "thermal_cx_pec"):
                    c["donor"], c["dq"] = "hydrogen", 0
                if acc == "thermal_cx_pec":
                    c["axes"] = c["axes"] + [[0.5, 5.0]]
                    # <= 150 decades in one 3-D table (see TOLERANCES)
                    c["table"] = [[[max(v, 1e-140) if v < 1.0 else min(v, 1e10), 2.0 * (max(v, 1e-140) if v < 1.0 else min(v, 1e10))] for v in row]
                                  for row in tab]
                    c.update(pts3)
                yield c
            for acc in BEAM_ACC:
                c = {"k": "beam", "acc": acc, "flags": fl, "beam": "hydrogen", "target": "carbon", "tq": 5, "ms": 1, "tr": 0,
                     "e": [1e4, 5e4, 1e5], "n": [1e18, 1e19, 1e20, 1e21, 2e21], "t": [0.5, 1.0, 100.0, 1000.0],
                     "sen": [[min(max(v, 1e-250), 1e250) for v in row] for row in tab], "st": [1e-14, 2e-14, 2.5e-14, 1.2e-14], "sref": 1.5e-14,
                     "decoy": None, "sib": None, "adform": 0, "wl_el": 656.28, "wl_iso": None}
                c.update(pts3)
                yield c
            d = {"qref": 2e-15}
            for (x, q), lo in zip(BCX_AXES, (1e4, 100.0, 1e19, 1.0, 1.0)):
                d[x] = [lo, 2 * lo, 5 * lo, 10 * lo, 20 * lo]
                d[q] = [1e-15, 2e-15, 2.5e-15, 1.1e-15, 1.3e-15]
            d["qeb"] = [min(max(v, 1e-250), 1e250) for v in tab[j]]
            c = {"k": "beamcx", "flags": fl, "donor": "hydrogen", "recv": "carbon", "rq": 5, "tr": 3, "ms": {"1": d}, "decoy": None,
                 "wl_el": 529.05, "wl_iso": None, "idx": [[0, 1, 2, 0, 1]], "skip_beamcx_nonpos": bool(_open(F_BCXNP)), "sib": None, "adform": 0}
            c.update(pts5)
            yield c
    yield {"k": "conv", "x": [1.0, 1e-15, 3.5e-20, 2.0], "wl": 656.28}
    yield {"k": "conv", "x": [7e-16], "wl": 1.0}


SUBCHECKS = {
    "matrix": Enum(matrix_cases, run_any),
    "tab": Given(tab_case, run_any, quick=1600, thorough=30000),
    "beam": Given(beam_case, run_any, quick=800, thorough=12000),
    "beamcx": Given(beamcx_case, run_any, quick=480, thorough=8000),
    "wl": Given(wl_case, run_any, quick=320, thorough=4000),
    "missing": Given(missing_case, run_any, quick=800, thorough=12000),
}
