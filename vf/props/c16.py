"""C16 - spectroscopic instruments: the lazily cached settings follow the parameters (history property), the spectral
range covers every pixel / filter with bins no wider than narrowest pixel / min_bins, and Spectrometer.calibrate
conserves the integral of the spectrum over every pixel."""
import bisect
import math
import os
from fractions import Fraction

import numpy as np
from hypothesis import strategies as st

from ..core import Given, Machine
from ..findings import is_open

from raysect.optical import Spectrum  # noqa: E402
from raysect.optical.observer import RadiancePipeline0D, SpectralRadiancePipeline0D  # noqa: E402
from cherab.tools.spectroscopy import (Spectrometer, CzernyTurnerSpectrometer, Polychromator,  # noqa: E402
                                       PolychromatorFilter, TrapezoidalFilter)

ID = "C16"
SHARDS = {"quick": 8, "thorough": 16}

# ---- known findings: ONE switch per class. While an entry is open its input class is excluded *in the generators*
# (run()/the model only obey the flags stored in the case, so the committed probe replays keep failing until /repo is
# fixed). VERIF_C16_NO_EXCLUSIONS=1 switches the exclusions off (used to validate proposed patches on a scratch copy).
_NOEXCL = os.environ.get("VERIF_C16_NO_EXCLUSIONS", "") == "1"
F_CT = "C16-czerny-no-pipeline-classes"    # CzernyTurnerSpectrometer: pipeline_classes / create_pipelines() raise AttributeError
F_ACC = "C16-acc-list-aliased"             # accommodated_spectra setter keeps the caller's (mutable) list
F_FIL = "C16-filters-list-aliased"         # Polychromator.filters setter keeps the caller's (mutable) list


def _open(fid):
    return (not _NOEXCL) and is_open(fid)


RULE = ("Hypothesis strategies. hist: a state machine (20-30 steps) over Spectrometer (1-3 pixel-edge arrays, 1-40 pixels; "
        "uniform / uneven / one-narrow / binary-grid / integer-grid / almost-even (polynomial calibration, relative spread "
        "1e-9..1e-3) widths; arrays free, ascending, descending, nested, touching or duplicated, in any list order), "
        "CzernyTurnerSpectrometer (1-3 accommodated spectra, 1-40 and survey-style up to 200 pixels, also nested / "
        "descending / duplicated / overlapping entries in any order and the doc-string parameter set; diffraction angle over "
        "the whole accepted range - acute, within 5 degrees of 90 on either side, obtuse up to 179.5 - with order 1-6, pixel "
        "spacing 1e3-1e5 nm, focal length 1e8-5e9 nm and the grating constructed from the angle so that the documented "
        "dispersion formula is real and positive over the layout: the narrowest pixel is the last one for acute and the "
        "first or an inner one for obtuse angles) and Polychromator (1-4 TrapezoidalFilter / "
        "PolychromatorFilter objects, also a later filter enclosing all earlier ones, touching almost-even windows, the same "
        "filter object twice). Arguments are handed over in every accepted form: arrays as list / tuple / float64 / float32 / "
        "int64 ndarray / Python ints / strided and reversed views, outer container list or tuple, scalars as Python / numpy / "
        "int-vs-float, accommodated_spectra as tuple / list / 2-D ndarray, positional or keyword, defaults omitted. Ops = every "
        "public setter (wavelength_to_pixel, min_bins_per_pixel, diffraction_order, grating, focal_length, pixel_spacing, "
        "diffraction_angle, accommodated_spectra, filters, min_bins_per_window, name), re-assignments of every float-valued "
        "parameter (pixel edges, grating, focal length, pixel spacing, angle, start wavelengths, filter wavelengths) to its "
        "current value times (1 +- eps, 4 eps, 1e-9, 2e-6, 1e-3), 1-4 in a row, arrays that share first edge, last edge and "
        "length but differ inside (with a true duplicate as control), rejected setter values, in-place "
        "modification of the containers the caller handed in, and reads of an ordered subset of min/max_wavelength, "
        "spectral_bins, wavelengths, wavelength_to_pixel, pipeline_classes, pipeline_kwargs, create_pipelines(), calibrate(), "
        "resolution(); every read is compared with an instrument constructed directly (canonical float64 lists, positional) "
        "from the current parameters, either after every step or only where the history reads, and in full at the end; "
        "arrays returned earlier must stay intact, containers handed in must stay bit-identical. ineq: directly constructed "
        "instruments of the three kinds in a drawn argument form, settings read in a random order, compared with the "
        "canonical form; filters compared with canonically built ones. calib: 1-3 monotone pixel-edge arrays (or a "
        "Czerny-Turner layout), source Spectrum with the instrument's own range/bins, a tight range with 1-300 bins, a range "
        "with margins, bins on the pixel scale (0.2-3 pixel widths) or sample points centred on pixel edges; samples random / "
        "seeded / spike / alternating; plus a constant and a linear spectrum on the same binning, the layout with adjacent "
        "pixels merged, a second spectrometer with another layout used in between, source spectra with more and fewer bins, "
        "and the first call repeated at the end. Interference / repeat (all three sub-checks): while the instrument under "
        "test is alive a second and third instrument of the same class with other generated parameters, built the same way "
        "(in a third of the cases both with every default left to default), is read, re-parametrised through its setters "
        "and calibrated, before or after the first use of the instrument under test; every read is made twice in a row and "
        "must reproduce the value read earlier since the last parameter change. Non-trivial: hist - at least one setter applied after the "
        "cached setting (spectral range/bins, pipeline kwargs or pipeline classes) had been read on that instrument, and which "
        "changed that setting; ineq - at least two pixels (filter windows) whose widths differ (by more than 1e-12 relative); "
        "calib - >= 2 source bins and at least one pixel edge that is not on a source bin edge (farther than 1e-6 bin widths).")
ASSUMPTIONS = [
    "raysect's Spectrum defines the spectrum: samples at the bin centres reported by Spectrum.wavelengths, linear "
    "interpolation between them, nearest-sample extrapolation in the outer half bins (raysect.core.math integrate docstring)",
    "an instrument constructed directly with the current parameter values (the values handed to the setters, as float64 "
    "lists / Python scalars, the same filter objects) is the reference; both objects run the same arithmetic on the same "
    "float64 values, so all comparisons are exact (numbers are compared by value, not by Python type)",
    "a setter call that raises is not a parameter change: afterwards the instrument must still equal a fresh one built "
    "from the unchanged parameters (if an invalid value is accepted nothing is claimed and the history stops comparing)",
    "modifying, after the call, a list / array that was handed to a constructor or setter is not a parameter change either",
    "the pipeline settings of an instrument built in a clean process are the documented ones (class doc-strings and "
    "cherab/tools/tests/test_spectroscopic_instruments.py): one SpectralRadiancePipeline0D named after the spectrometer; one "
    "RadiancePipeline0D per filter named '<instrument>: <filter>' carrying that filter object",
    "building, using or re-parametrising ANOTHER instrument is not a parameter change of this one; a value read from an "
    "instrument stays the value until one of its own setters is called (reads are repeatable, bit for bit)",
    "a filter's window is the one it was specified with: [min, max] of the wavelength array, centre -+ window/2 for the "
    "trapezoid (2 ulp allowed for the latter); for the polychromator 'narrowest pixel / min_bins_per_pixel' reads "
    "'narrowest filter window / min_bins_per_window'",
    "only valid parameters are generated: Czerny-Turner sets obey p = 0.5*order*grating*lambda <= 0.85 cos^2(angle) for "
    "acute and <= 0.85 |cos(angle)| for obtuse angles over the whole layout (resolution() real and positive; the growth of p "
    "over n pixels is bounded by 0.71 n spacing/focal_length); the grating is constructed from the angle, a re-alignment "
    "sets angle and grating in the order that keeps the intermediate state valid; other candidate setter values violating "
    "the bound are skipped; angles within 0.25 degrees of 90 are not generated (cos^2 < 2e-5 leaves no admissible grating)",
    "float32 / integer argument forms are used only for values exactly representable in that type",
]
_EPS = float(np.finfo(float).eps)
_TINY = 5e-324         # spacing of subnormal numbers: absolute error of an operation whose result underflows
TOLERANCES = {
    "hist": "exact equality (same arithmetic on the same parameters in both objects)",
    "ineq.cover": "exact float comparisons (min/max of the very same floats); trapezoid window edges 2 ulp",
    "ineq.binwidth": "(max-min)/bins <= narrowest/min_bins*(1+1e-12), the statement's bound; the code's ceil() argument "
                     "carries <= 3 roundings (6.7e-16 relative)",
    "calib.integral": "|value*width - exact integral| <= 4 eps (K+16) M width, K = source samples inside the pixel, M = "
                      "largest |sample| touching the pixel: the trapezium sum has K+2 terms, each with <= 10 roundings "
                      "(lerp, mean, product), the running sum adds <= (K+2) eps, width and division 1.5 eps; the "
                      "reference integral and value*width are evaluated in exact rational arithmetic; + (K+16) 2^-1074 max(1, width) "
                      "for gradual underflow (samples may be subnormal)",
    "calib.additive": "sum of the per-pixel tolerances of the pixels involved",
    "calib.const": "4 eps (K+16) c",
    "calib.linear": "4 eps (K+17) M (samples of the line are correctly rounded: + eps/2 M)",
    "calib.reuse": "bit-identical",
    "interference / repeat": "bit-identical (nothing is recomputed with other inputs)",
}
SETTER_LABELS = ["spectrometer.wavelength_to_pixel", "spectrometer.min_bins_per_pixel", "spectrometer.name",
                 "czerny.diffraction_order", "czerny.grating", "czerny.focal_length", "czerny.pixel_spacing",
                 "czerny.diffraction_angle", "czerny.accommodated_spectra", "czerny.min_bins_per_pixel", "czerny.name",
                 "poly.filters", "poly.min_bins_per_window", "poly.name"]
READS_ALL = ["min_wavelength", "max_wavelength", "spectral_bins", "pipeline_kwargs", "pipeline_classes",
             "create_pipelines", "wavelengths", "wavelength_to_pixel", "calibrate", "resolution", "params"]
# public entry points of the anchored files and the label that proves each was exercised:
#   SpectroscopicInstrument.{name, pipeline_classes, pipeline_kwargs, create_pipelines, min/max_wavelength, spectral_bins} -> hist:read:*
#   Spectrometer.{wavelength_to_pixel, wavelengths, min_bins_per_pixel, calibrate}, CzernyTurnerSpectrometer.{6 parameters,
#   wavelength_to_pixel, resolution} -> hist:set:* / hist:read:*;  Polychromator.{filters, min_bins_per_window} -> hist:set:poly.*
#   PolychromatorFilter.{name, min/max_wavelength, window, central_wavelength, __call__}, TrapezoidalFilter.flat_top -> ineq:filter:*
REQUIRED_LABELS = (["hist:kind:spectrometer", "hist:kind:czerny", "hist:kind:poly", "hist:nt:spectral", "hist:nt:kwargs",
                    "hist:nt:classes", "hist:rejected", "hist:mode:every_step", "hist:mode:sparse",
                    "hist:owned:intact", "hist:owned:mutated:w2p", "hist:kept:intact",
                    "hist:interference:spectrometer", "hist:interference:czerny", "hist:interference:poly",
                    "hist:interference:bare", "hist:interference:before-first-use", "hist:interference:after-first-use",
                    "hist:repeat", "hist:repeat:calibrate-sizes",
                    "ineq:interference", "ineq:interference:bare", "ineq:interference:before-first-use",
                    "ineq:interference:after-first-use", "ineq:repeat", "ineq:filter:repeat",
                    "calib:interference", "calib:interference:bare", "calib:repeat:sizes",
                    "hist:ct:angle:acute", "hist:ct:angle:near90", "hist:ct:angle:obtuse",
                    "ineq:ct:angle:acute", "ineq:ct:angle:near90", "ineq:ct:angle:obtuse",
                    "calib:ct:angle:acute", "calib:ct:angle:near90", "calib:ct:angle:obtuse",
                    "ineq:ct:narrowest:first", "ineq:ct:narrowest:last",
                    "ineq:arr:twins", "calib:arr:twins", "calib:arr:duplicate",
                    "hist:nudge:spectrometer.wavelength_to_pixel", "hist:nudge:czerny.grating", "hist:nudge:czerny.focal_length",
                    "hist:nudge:czerny.pixel_spacing", "hist:nudge:czerny.diffraction_angle",
                    "hist:nudge:czerny.accommodated_spectra", "hist:nudge:poly.filters",
                    "hist:nudge:rel:2.22045e-16", "hist:nudge:rel:8.88178e-16", "hist:nudge:rel:2e-06", "hist:nudge:rel:1e-09",
                    "hist:nudge:rel:0.001",
                    "ineq:kind:spectrometer", "ineq:kind:czerny", "ineq:kind:poly",
                    "ineq:arr:nested", "ineq:arr:descending", "ineq:arr:duplicate", "ineq:arr:touching", "ineq:arr:enclosing-later",
                    "ineq:widths:almost", "ineq:widths:uneven", "ineq:filter:trap", "ineq:filter:gen", "ineq:filter:same",
                    "ineq:filter:trap-defaults", "ineq:preset:docs",
                    "calib:range:own", "calib:range:tight", "calib:range:margin", "calib:range:pixscale", "calib:range:centred",
                    "calib:unaligned", "calib:aligned", "calib:knot-on-edge", "calib:widths:almost",
                    "calib:spectra:1", "calib:spectra:2", "calib:spectra:3", "calib:layout:czerny",
                    "calib:samples:list", "calib:samples:rng", "calib:samples:spike", "calib:samples:alt"]
                   + ["hist:set:" + x for x in SETTER_LABELS] + ["hist:read:" + x for x in READS_ALL]
                   + ["%s:form:%s" % (sub, f) for sub in ("hist", "ineq")
                      for f in ("arr:list", "arr:tuple", "arr:f64", "arr:f32", "arr:i64", "arr:pyint", "arr:strided", "arr:rev",
                                "outer:list", "outer:tuple", "sc:py", "sc:np", "sc:alt", "kw", "positional", "omit",
                                "acc:tuple", "acc:list", "acc:nd", "acc:alt", "filters:list", "filters:tuple")])


# ------------------------------------------------------------------------------------------------ strategies
def _logu(a, b):
    return st.floats(math.log(a), math.log(b)).map(math.exp)


_strnames = st.one_of(st.text(alphabet="ab XY:_é", max_size=6), st.sampled_from(["", "", "spec", "MySpectrometer"]))
_names = st.one_of(_strnames, st.integers(0, 99))
_mbpp = st.one_of(st.just(1), st.integers(1, 8))
_mbw = st.one_of(st.just(10), st.integers(1, 30))


@st.composite
def edges_one(draw, max_pix=40):
    cls = draw(st.sampled_from(["uniform", "uneven", "uneven", "onenarrow", "grid", "intgrid", "almost", "almost"]))
    n = draw(st.one_of(st.integers(1, 4), st.integers(1, max_pix), st.sampled_from([1, 2, max_pix])))
    if cls == "grid":                       # binary-exact edges: pixels coincide with the instrument's own bins
        lo = float(draw(st.integers(200, 1000)))
        widths = [0.25 * draw(st.integers(1, 8)) for _ in range(n)] if draw(st.booleans()) else \
            [0.25 * draw(st.integers(1, 8))] * n
    elif cls == "intgrid":
        lo = float(draw(st.integers(200, 1000)))
        widths = [float(draw(st.integers(1, 3))) for _ in range(n)] if draw(st.booleans()) else [1.0] * n
    elif cls == "almost":                   # polynomial calibration with a tiny quadratic term
        lo = draw(st.floats(200.0, 1000.0))
        n = max(n, 2)
        w0 = draw(_logu(0.01, 3.0))
        q = draw(st.sampled_from([-1.0, 1.0])) * draw(_logu(1e-9, 1e-3)) * w0 / (2.0 * n)
        return [lo + w0 * i + q * i * i for i in range(n + 1)]
    else:
        lo = draw(st.floats(200.0, 1000.0))
        if cls == "uniform":
            widths = [draw(_logu(0.01, 3.0))] * n
        elif cls == "uneven":
            base = draw(_logu(0.01, 1.0))
            widths = [base * draw(st.floats(1.0, 6.0)) for _ in range(n)]
        else:
            widths = [draw(_logu(0.02, 3.0))] * n
            widths[draw(st.integers(0, n - 1))] *= draw(st.floats(0.05, 0.9))
    e = [lo]
    for w in widths:
        e.append(e[-1] + w)
    return e


def _shift(e, d):
    return [x + d for x in e]


@st.composite
def layout(draw, max_pix=40):
    arrs = draw(st.lists(edges_one(max_pix), min_size=1, max_size=3))
    if len(arrs) == 1:
        return arrs
    how = draw(st.sampled_from(["free", "free", "nested", "nested", "descending", "ascending", "touching", "duplicate",
                                "twins", "twins"]))
    if how == "twins":          # same first edge, last edge and length, other interior edges (+ a true duplicate as control)
        a = arrs[0]
        if len(a) < 3:
            a = [a[0], a[0] + 0.4 * (a[-1] - a[0]), a[-1]] if len(a) == 2 else a
        n = len(a) - 1
        wmin = min(y - x for x, y in zip(a[:-1], a[1:]))
        q = draw(st.sampled_from([-1.0, 1.0])) * draw(_logu(1e-6, 0.4)) * wmin / n
        b = [x + q * i * (n - i) for i, x in enumerate(a)]
        b[0], b[-1] = a[0], a[-1]
        arrs = [a, b] + ([list(a)] if draw(st.booleans()) else [])
    elif how == "duplicate":
        arrs[1] = list(arrs[0])
    elif how == "touching":
        arrs[1] = _shift(arrs[1], arrs[0][-1] - arrs[1][0])
        arrs[1][0] = arrs[0][-1]
    elif how == "nested":
        k = max(range(len(arrs)), key=lambda i: arrs[i][-1] - arrs[i][0])
        for j in range(len(arrs)):
            room = (arrs[k][-1] - arrs[k][0]) - (arrs[j][-1] - arrs[j][0])
            if j != k and room > 0:
                arrs[j] = _shift(arrs[j], arrs[k][0] + draw(st.floats(0.0, 1.0)) * room - arrs[j][0])
    elif how in ("ascending", "descending"):
        pos = draw(st.floats(200.0, 600.0))
        out = []
        for e in arrs:
            out.append(_shift(e, pos - e[0]))
            pos = out[-1][-1] + draw(_logu(0.01, 50.0))
        arrs = out[::-1] if how == "descending" else out
    if how in ("nested", "touching", "duplicate", "free", "twins"):
        arrs = [arrs[i] for i in draw(st.permutations(list(range(len(arrs)))))]
    for e in arrs:      # shifting can merge two neighbouring edges only if a width is below 1 ulp: never here, but keep run() safe
        if any(b <= a for a, b in zip(e[:-1], e[1:])):
            return [[400.0, 401.0, 402.5]]
    return arrs


def _f32ok(v):
    return all(float(np.float32(x)) == x for x in v)


def _intok(v):
    return all(float(x).is_integer() for x in v)


def array_forms(values):
    f = ["list", "tuple", "f64", "strided", "rev"]
    if _f32ok(values):
        f += ["f32"] * 3
    if _intok(values):          # rare value classes: prefer the forms only they allow
        f += ["i64", "pyint"] * 4
    return f


@st.composite
def w2p_forms(draw, w2p):
    return {"arr": [draw(st.sampled_from(array_forms(e))) for e in w2p], "outer": draw(st.sampled_from(["tuple", "list"]))}


_call_form = st.fixed_dictionaries({"sc": st.sampled_from(["py", "np", "alt"]), "kw": st.booleans(), "omit": st.booleans()})
_acc_form = st.sampled_from(["tuple", "list", "nd", "alt"])


def ct_limit(angle):
    """Largest p = order*grating*lambda/2 for which the documented dispersion formula
    dx/dp (sqrt(cos^2 - p^2) - p tan) / (m fl g) is real and positive: cos^2 for acute angles (positivity), |cos| for obtuse
    ones (the root; both terms are positive there)."""
    c = math.cos(math.radians(angle))
    return c * c if angle < 90.0 else abs(c)


def _ct_t(p, n):
    """bound of the growth of p over n pixels: resolution <= dx/dp (|cos| + |sin|) / (m g fl) <= 1.42 dx/dp / (m g fl)"""
    return 0.71 * n * p["pixel_spacing"] / p["focal_length"]


def ct_valid(p):
    """every wavelength of the layout keeps p <= 0.85 * limit (generator-side guard only)"""
    if abs(p["angle"] - 90.0) < 0.25 or not (0.0 < p["angle"] < 179.9):
        return False
    mg = p["order"] * p["grating"]
    return all(0.5 * mg * l0 + _ct_t(p, n) <= 0.85 * ct_limit(p["angle"]) for l0, n in p["acc"])


def ct_grating(p, u):
    """grating (for the order, angle, spacing, focal length and layout in p) that puts the largest p of the layout at the
    fraction u of the admissible 0.85 * limit; None if the layout alone (pixels * spacing / focal length) exceeds it"""
    budget = 0.85 * ct_limit(p["angle"])
    t = max(_ct_t(p, n) for _, n in p["acc"])
    if abs(p["angle"] - 90.0) < 0.25 or t >= 0.6 * budget:
        return None
    return 2.0 * u * (budget - t) / max(l0 for l0, _ in p["acc"]) / p["order"]


def angle_class(a):
    return "ct:angle:near90" if abs(a - 90.0) <= 5.0 else "ct:angle:acute" if a < 90.0 else "ct:angle:obtuse"


_ct_order = st.sampled_from([1, 1, 2, 3, 4, 6])
_ct_angle = st.one_of(st.floats(1.0, 85.0), st.floats(85.0, 89.5), st.floats(90.5, 95.0), st.floats(95.0, 179.5), st.floats(95.0, 179.5),
                      st.sampled_from([10.0, 1.0, 30.0, 60.0, 100.0, 120.0, 150.0, 179.0]))
_ct_u = st.floats(0.05, 0.98)


def _ct_grating():        # kept for replays of old cases; new cases derive the grating from the angle (ct_grating)
    return st.one_of(_logu(1e-4, 2e-3), st.sampled_from([2e-3, 1e-3]))


def _ct_focal():
    return st.one_of(_logu(1e8, 5e9), st.sampled_from([1e9, 5e8]))


def _ct_spacing():
    return st.one_of(_logu(1e3, 1e5), st.sampled_from([2e4, 1e4]))


@st.composite
def _ct_acc(draw):
    pix = st.one_of(st.integers(1, 8), st.integers(1, 40), st.integers(1, 40), st.integers(41, 200), st.sampled_from([1, 2]))
    lam = st.one_of(st.floats(300.0, 700.0), st.integers(300, 700).map(float))
    acc = draw(st.lists(st.tuples(lam, pix).map(list), min_size=1, max_size=3))
    if len(acc) > 1:
        how = draw(st.sampled_from(["free", "free", "nested", "nested", "descending", "duplicate", "overlap", "overlap"]))
        if how == "duplicate":
            acc[1] = list(acc[0])
        elif how == "overlap":       # starts a few pixel widths apart, in any order
            for j in range(1, len(acc)):
                acc[j][0] = acc[0][0] + draw(st.sampled_from([-1.0, 1.0])) * draw(_logu(1e-3, 1.0))
            acc = [acc[i] for i in draw(st.permutations(list(range(len(acc)))))]
        elif how == "descending":
            acc.sort(key=lambda x: -x[0])
        elif how == "nested":     # pixel widths are ~1e-3..1 nm: a start a fraction of a pixel later + a quarter of the pixels
            k = max(range(len(acc)), key=lambda i: acc[i][1])
            for j in range(len(acc)):
                if j != k and acc[k][1] >= 4:
                    acc[j] = [acc[k][0] + draw(_logu(1e-4, 1e-2)), max(1, acc[k][1] // 4)]
            acc = [acc[i] for i in draw(st.permutations(list(range(len(acc)))))]
    return acc


@st.composite
def czerny_params(draw, small=False):
    if draw(st.integers(0, 11)) == 0:           # the parameter set of the class doc-string / unit tests
        return {"order": 1, "grating": 2e-3, "focal_length": 1e9, "pixel_spacing": 2e4, "angle": 10.0,
                "acc": [[400.0, 40 if small else 64], [500.0, 32]], "mbpp": draw(_mbpp), "name": draw(_names), "preset": "docs"}
    p = {"order": draw(_ct_order), "grating": None, "focal_length": draw(_ct_focal()),
         "pixel_spacing": draw(_ct_spacing()), "angle": draw(_ct_angle), "acc": draw(_ct_acc()),
         "mbpp": draw(_mbpp), "name": draw(_names)}
    if small:
        p["acc"] = [[l0, min(n, 40)] for l0, n in p["acc"]]
    # valid by construction: a focal length long enough for the layout at this angle, then the grating from the angle
    budget = 0.85 * ct_limit(p["angle"])
    need = 0.71 * max(n for _, n in p["acc"]) * p["pixel_spacing"] / (0.5 * budget)
    if p["focal_length"] < need:
        p["focal_length"] = need
    p["grating"] = ct_grating(p, draw(_ct_u))
    if p["grating"] is None or not ct_valid(p):      # cannot happen; keeps run() safe
        p.update(order=1, grating=2e-3, focal_length=1e9, pixel_spacing=2e4, angle=10.0, acc=[[400.0, 8]])
    return p


@st.composite
def filter_spec(draw):
    form = {"kw": draw(st.booleans()), "omit": draw(st.booleans()), "arr": "list"}
    if draw(st.booleans()):
        w = draw(st.one_of(_logu(0.2, 20.0), st.just(3.0)))
        ft = draw(st.one_of(st.none(), st.floats(0.05, 1.0), st.just(1.0)))
        c = draw(st.one_of(st.floats(300.0, 900.0), st.integers(300, 900).map(float)))
        return {"t": "trap", "c": c, "w": w, "ft": None if ft is None else ft * w, "name": draw(_strnames), "form": form}
    n = draw(st.integers(2, 6))
    wl = [draw(st.one_of(st.floats(300.0, 900.0), st.integers(300, 900).map(float)))]
    for _ in range(n - 1):
        wl.append(wl[-1] + draw(st.one_of(_logu(0.05, 5.0), st.sampled_from([1.0, 2.0]))))
    s = [draw(st.sampled_from([0.0, 1.0, 0.5]) | st.floats(0.0, 1.0)) for _ in range(n)]
    s[draw(st.integers(0, n - 1))] = draw(st.floats(0.05, 1.0))          # never identically zero
    perm = draw(st.permutations(list(range(n))))
    form["arr"] = draw(st.sampled_from(array_forms(wl)))
    return {"t": "gen", "wl": [wl[i] for i in perm], "s": [s[i] for i in perm], "norm": draw(st.booleans()),
            "name": draw(_strnames), "form": form}


def spec_window(s, specs):
    """[lo, hi] the filter was specified with."""
    if s["t"] == "same":
        return spec_window(specs[s["i"]], specs)
    if s["t"] == "trap":
        return s["c"] - 0.5 * s["w"], s["c"] + 0.5 * s["w"]
    return min(s["wl"]), max(s["wl"])


@st.composite
def _filters(draw):
    how = draw(st.sampled_from(["free", "free", "free", "enclosing", "enclosing", "tiling", "same"]))
    if how == "tiling":                      # touching trapezoids with almost equal windows
        n = draw(st.integers(2, 4))
        w = draw(_logu(0.2, 10.0))
        pos = draw(st.floats(300.0, 800.0))
        specs = []
        for _ in range(n):
            wi = w * (1.0 + draw(st.sampled_from([0.0, 1.0])) * draw(_logu(1e-9, 1e-3)))
            specs.append({"t": "trap", "c": pos + 0.5 * wi, "w": wi, "ft": None, "name": draw(_strnames),
                          "form": {"kw": False, "omit": False, "arr": "list"}})
            pos = pos + wi
        return [specs[i] for i in draw(st.permutations(list(range(n))))]
    specs = draw(st.lists(filter_spec(), min_size=1, max_size=4 if how == "free" else 3))
    if how == "same":
        specs.insert(draw(st.integers(1, len(specs))), {"t": "same", "i": 0})
    elif how == "enclosing":                 # a LATER filter extends the accumulated range on both sides
        lo = min(spec_window(s, specs)[0] for s in specs)
        hi = max(spec_window(s, specs)[1] for s in specs)
        a, b = draw(_logu(1e-3, 30.0)), draw(_logu(1e-3, 30.0))
        form = {"kw": draw(st.booleans()), "omit": draw(st.booleans()), "arr": "list"}
        if draw(st.booleans()):
            enc = {"t": "gen", "wl": [lo - a, 0.5 * (lo + hi), hi + b], "s": [draw(st.sampled_from([0.0, 0.3])), 1.0, 0.0],
                   "norm": False, "name": draw(_strnames), "form": form}
        else:
            enc = {"t": "trap", "c": 0.5 * (lo + hi), "w": (hi - lo) + 2.0 * max(a, b), "ft": None, "name": draw(_strnames), "form": form}
        specs.insert(draw(st.integers(1, len(specs))), enc)
    return specs


@st.composite
def instrument_params(draw, kind=None):
    kind = kind or draw(st.sampled_from(["spectrometer", "czerny", "poly", "poly"]))
    fm = draw(_call_form)
    if kind == "spectrometer":
        p = {"w2p": draw(layout()), "mbpp": draw(_mbpp), "name": draw(_names)}
        fm.update(draw(w2p_forms(p["w2p"])))
    elif kind == "czerny":
        p = draw(czerny_params())
        fm["acc"] = draw(_acc_form)
    else:
        p = {"filters": draw(_filters()), "mbw": draw(_mbw), "name": draw(_names)}
        fm["filters"] = draw(st.sampled_from(["list", "tuple"]))
    return {"kind": kind, "p": p, "fm": fm, "pipes": not (kind == "czerny" and _open(F_CT))}


DEFAULTS = {"spectrometer": {"mbpp": 1, "name": ""}, "czerny": {"mbpp": 1, "name": ""}, "poly": {"mbw": 10, "name": ""}}


def as_bare(kind, p, fm):
    """the same instrument with every optional constructor argument left to its documented default"""
    p = dict(p)
    p.update(DEFAULTS[kind])
    fm = dict(fm or {})
    fm["omit"] = True
    return p, fm


def like(fm):
    """argument form of a second instrument 'built the same way': same calling convention, plain containers"""
    fm = fm or {}
    return {"sc": fm.get("sc", "py"), "kw": bool(fm.get("kw")), "omit": bool(fm.get("omit")),
            "acc": fm.get("acc", "tuple"), "filters": fm.get("filters", "list"), "outer": fm.get("outer", "tuple")}


# ------------------------------------------------------------------------------------------------ builders / observation
def formed_array(values, f):
    values = [float(v) for v in values]
    if f == "tuple":
        return tuple(values)
    if f == "f64":
        return np.array(values, dtype=np.float64)
    if f == "f32":
        return np.array(values, dtype=np.float32)
    if f == "i64":
        return np.array([int(v) for v in values], dtype=np.int64)
    if f == "pyint":
        return [int(v) for v in values]
    if f == "strided":
        big = np.full(2 * len(values), -7.0)
        big[::2] = values
        return big[::2]
    if f == "rev":
        return np.array(values[::-1], dtype=np.float64)[::-1]
    return list(values)


def sc_int(v, mode):
    return np.int64(v) if mode == "np" else float(v) if mode == "alt" else int(v)


def sc_float(v, mode):
    if mode == "np":
        return np.float64(v)
    if mode == "alt" and float(v).is_integer():
        return int(v)
    return v


def _is_default(v, d):
    if d is None or v is None:
        return v is None and d is None
    if isinstance(d, str) or isinstance(v, str):
        return isinstance(v, str) and isinstance(d, str) and v == d
    return bool(v == d)


def _call(cls, order, args, defaults, fm):
    """cls(...) positional or by keyword; with fm['omit'] arguments equal to the documented defaults are left out."""
    keys = list(order)
    if fm.get("omit"):
        if fm.get("kw"):
            keys = [k for k in keys if not (k in defaults and _is_default(args[k], defaults[k]))]
        else:
            while keys and keys[-1] in defaults and _is_default(args[keys[-1]], defaults[keys[-1]]):
                keys.pop()
    if fm.get("kw"):
        return cls(**{k: args[k] for k in keys})
    return cls(*[args[k] for k in keys])


def build_filter(s, built=None, canonical=False):
    if s["t"] == "same":
        return built[s["i"]]
    fm = {} if canonical else s.get("form", {})
    if s["t"] == "trap":
        args = {"central_wavelength": s["c"], "window": s["w"], "flat_top": s["ft"], "name": s["name"]}
        return _call(TrapezoidalFilter, ["central_wavelength", "window", "flat_top", "name"], args,
                     {"window": 3.0, "flat_top": None, "name": ""}, fm)
    a = fm.get("arr", "list")
    args = {"wavelengths": formed_array(s["wl"], a), "samples": formed_array(s["s"], "f64" if a in ("f64", "strided", "rev") else "list"),
            "normalise": bool(s["norm"]), "name": s["name"]}
    return _call(PolychromatorFilter, ["wavelengths", "samples", "normalise", "name"], args, {"normalise": False, "name": ""}, fm)


def build_filters(specs, canonical=False):
    out = []
    for s in specs:
        out.append(build_filter(s, out, canonical))
    return out


def _acc(acc):
    return tuple((float(a), int(b)) for a, b in acc)


def formed_acc(acc, f):
    if f == "list":
        return [[float(a), int(b)] for a, b in acc]
    if f == "nd":
        return np.array([[float(a), float(b)] for a, b in acc], dtype=np.float64)
    if f == "alt":
        return [[int(a) if float(a).is_integer() else float(a), float(b)] for a, b in acc]
    return _acc(acc)


def formed_w2p(w2p, fm):
    forms = fm.get("arr") or ["list"] * len(w2p)
    arrs = [formed_array(e, forms[i] if i < len(forms) else "list") for i, e in enumerate(w2p)]
    return tuple(arrs) if fm.get("outer", "tuple") == "tuple" else list(arrs)


def build(kind, p, filters=None):
    """canonical form: float64 lists, Python scalars, positional"""
    if kind == "spectrometer":
        return Spectrometer(tuple(list(e) for e in p["w2p"]), p["mbpp"], p["name"])
    if kind == "czerny":
        return CzernyTurnerSpectrometer(p["order"], p["grating"], p["focal_length"], p["pixel_spacing"], p["angle"],
                                        _acc(p["acc"]), p["mbpp"], p["name"])
    return Polychromator(list(filters), p["mbw"], p["name"])


def build_formed(kind, p, fm, filters=None):
    """(instrument, {parameter: the container object handed over}) in the argument form fm"""
    fm = fm or {}
    sc = fm.get("sc", "py")
    if kind == "spectrometer":
        w = formed_w2p(p["w2p"], fm)
        args = {"wavelength_to_pixel": w, "min_bins_per_pixel": sc_int(p["mbpp"], sc), "name": p["name"]}
        return _call(Spectrometer, ["wavelength_to_pixel", "min_bins_per_pixel", "name"], args,
                     {"min_bins_per_pixel": 1, "name": ""}, fm), {"w2p": w}
    if kind == "czerny":
        a = formed_acc(p["acc"], fm.get("acc", "tuple"))
        args = {"diffraction_order": sc_int(p["order"], sc), "grating": sc_float(p["grating"], sc),
                "focal_length": sc_float(p["focal_length"], sc), "pixel_spacing": sc_float(p["pixel_spacing"], sc),
                "diffraction_angle": sc_float(p["angle"], sc), "accommodated_spectra": a,
                "min_bins_per_pixel": sc_int(p["mbpp"], sc), "name": p["name"]}
        return _call(CzernyTurnerSpectrometer, ["diffraction_order", "grating", "focal_length", "pixel_spacing", "diffraction_angle",
                                                "accommodated_spectra", "min_bins_per_pixel", "name"], args,
                     {"min_bins_per_pixel": 1, "name": ""}, fm), {"acc": a}
    f = list(filters) if fm.get("filters", "list") == "list" else tuple(filters)
    args = {"filters": f, "min_bins_per_window": sc_int(p["mbw"], sc), "name": p["name"]}
    return _call(Polychromator, ["filters", "min_bins_per_window", "name"], args, {"min_bins_per_window": 10, "name": ""}, fm), {"filters": f}


def form_labels(kind, fm):
    fm = fm or {}
    out = ["form:sc:" + fm.get("sc", "py"), "form:kw" if fm.get("kw") else "form:positional"]
    if fm.get("omit"):
        out.append("form:omit")
    if kind == "spectrometer":
        out += ["form:arr:" + f for f in fm.get("arr", [])] + ["form:outer:" + fm.get("outer", "tuple")]
    elif kind == "czerny":
        out.append("form:acc:" + fm.get("acc", "tuple"))
    else:
        out.append("form:filters:" + fm.get("filters", "list"))
    return out


def owned_intact(ctx, owned, p, filters, what):
    """the containers handed to the constructor / setter are bit-identical afterwards"""
    if "w2p" in owned:
        w = owned["w2p"]
        ctx.check(len(w) == len(p["w2p"]), what, "the caller's sequence of arrays changed its length")
        for a, e in zip(w, p["w2p"]):
            if isinstance(a, np.ndarray):
                ctx.check(a.flags.writeable, what, "the caller's array was made read-only")
                a = a.tolist()
            ctx.check(len(a) == len(e) and all(float(x) == float(y) for x, y in zip(a, e)), what,
                      lambda: "the caller's array was modified: %s, handed in %s" % (_show(list(a)), _show(e)))
    if "acc" in owned:
        a = [[float(x), int(y)] for x, y in owned["acc"]]
        ctx.check(a == [[float(x), int(y)] for x, y in p["acc"]], what,
                  lambda: "the caller's accommodated_spectra was modified: %s, handed in %s" % (_show(a), _show(p["acc"])))
    if "filters" in owned:
        ctx.check(len(owned["filters"]) == len(filters) and all(x is y for x, y in zip(owned["filters"], filters)), what,
                  "the caller's filter sequence was modified")


SPECTRAL = ("min_wavelength", "max_wavelength", "spectral_bins")
GETTERS = {"spectrometer": ["min_bins_per_pixel", "name"],
           "czerny": ["min_bins_per_pixel", "name", "diffraction_order", "grating", "focal_length", "pixel_spacing",
                      "diffraction_angle"],
           "poly": ["min_bins_per_window", "name"]}


def applicable(kind, pipes, what):
    if what in ("wavelengths", "wavelength_to_pixel", "calibrate"):
        return kind != "poly"
    if what == "resolution":
        return kind == "czerny"
    if what in ("pipeline_classes", "create_pipelines"):
        return pipes
    return True


def read_one(inst, kind, what, aux):
    """One observation of the instrument as a comparable python value (called inside ctx.cut)."""
    if what in SPECTRAL:
        v = getattr(inst, what)
        return int(v) if what == "spectral_bins" else float(v)
    if what == "pipeline_kwargs":
        return [dict(d) for d in inst.pipeline_kwargs]
    if what == "pipeline_classes":
        return list(inst.pipeline_classes)
    if what == "create_pipelines":
        return [(type(q), q.name, getattr(q, "filter", None)) for q in inst.create_pipelines()]
    if what in ("wavelengths", "wavelength_to_pixel"):
        return [np.array(a, dtype=float) for a in getattr(inst, what)]
    if what == "calibrate":
        return [np.array(a, dtype=float) for a in inst.calibrate(aux)]
    if what == "resolution":                 # at wavelengths of the layout itself (inside the valid domain)
        starts = [float(e[0]) for e in inst.wavelength_to_pixel]
        return [float(inst.resolution(starts[0])), float(inst.resolution(np.float64(starts[-1]))),
                np.array(inst.resolution(np.array(starts)), dtype=float)]
    out = [getattr(inst, g) for g in GETTERS[kind]]
    if kind == "czerny":
        out.append([[float(a), int(b)] for a, b in inst.accommodated_spectra])
    if kind == "poly":
        out.append([id(f) for f in inst.filters])
    return out


def _num(x):
    return isinstance(x, (int, float, np.integer, np.floating)) and not isinstance(x, (bool, np.bool_))


def same(a, b):
    if isinstance(a, (list, tuple)) and isinstance(b, (list, tuple)):
        return len(a) == len(b) and all(same(x, y) for x, y in zip(a, b))
    if isinstance(a, np.ndarray) or isinstance(b, np.ndarray):
        a, b = np.asarray(a), np.asarray(b)
        return a.shape == b.shape and bool(np.array_equal(a, b))
    if isinstance(a, dict) and isinstance(b, dict):
        return sorted(a) == sorted(b) and all(same(a[k], b[k]) for k in a)
    if _num(a) and _num(b):
        return bool(a == b)
    return type(a) == type(b) and (a is b or a == b)


def _show(v):
    s = repr(v)
    return s if len(s) < 300 else s[:300] + "..."


def calib_spectrum(fresh, seed, nb=None):
    """Spectrum over the range a correct instrument reports, seeded samples (used by the 'calibrate' read)."""
    nb = nb or 1 + int(seed) % 97
    mn, mx = (fresh[0], fresh[1]) if isinstance(fresh, (list, tuple)) else (float(fresh.min_wavelength), float(fresh.max_wavelength))
    sp = Spectrum(float(mn), float(mx), nb)
    sp.samples[:] = np.random.RandomState(int(seed) % (2 ** 31)).rand(nb)
    return sp


def cells_of(inst, kind, p):
    """list of (lo, hi) of every pixel (spectrometers: reported and handed in) or specified filter window (polychromator)."""
    if kind == "poly":
        return [tuple(float(x) for x in spec_window(s, p["filters"])) for s in p["filters"]]
    out = []
    for e in inst.wavelength_to_pixel:
        e = np.asarray(e, dtype=float)
        out.extend(zip(e[:-1].tolist(), e[1:].tolist()))
    if kind == "spectrometer":      # the arrays handed in, not only the ones the instrument reports
        out += [(float(a), float(b)) for e in p["w2p"] for a, b in zip(e[:-1], e[1:])]
    return out


def check_ineq(ctx, inst, kind, p, filters, what):
    with ctx.cut(what + ":read"):
        mn, mx, bins = float(inst.min_wavelength), float(inst.max_wavelength), inst.spectral_bins
        cells = cells_of(inst, kind, p)
    nb = p["mbw"] if kind == "poly" else p["mbpp"]
    ctx.check(isinstance(bins, (int, np.integer)) and bins >= 1, what + ":bins", "spectral_bins = %r" % (bins,))
    ctx.check(math.isfinite(mn) and math.isfinite(mx) and 0 < mn < mx, what + ":range", "spectral range (%r, %r)" % (mn, mx))
    slack = 0.0
    if kind == "poly":              # trapezoid edges c -+ w/2 are recomputed by the filter: 2 ulp
        slack = 2.0 * float(np.spacing(mx))
        cells = cells + [(float(f.min_wavelength), float(f.max_wavelength)) for f in filters]
    for lo, hi in cells:
        ctx.check(mn <= lo + slack and hi - slack <= mx, what + ":cover",
                  lambda: "spectral range [%r, %r] does not cover the %s [%r, %r]"
                  % (mn, mx, "filter window" if kind == "poly" else "pixel", lo, hi))
    narrow = min(hi - lo for lo, hi in cells)
    step = (mx - mn) / int(bins)
    ctx.check(step <= narrow / nb * (1.0 + 1e-12) + (2 * slack / nb), what + ":binwidth",
              lambda: "bin width (max-min)/bins = (%r-%r)/%d = %r exceeds narrowest %s %r / min_bins %d = %r"
              % (mx, mn, bins, step, "window" if kind == "poly" else "pixel", narrow, nb, narrow / nb))
    return cells


def check_pipelines(ctx, inst, kind, p, filters, pipes, what):
    """Pipeline settings as documented (class doc-strings, in-repo unit tests): an absolute reference that does not
    depend on what other instruments exist in the process."""
    name = str(p["name"])
    if kind == "poly":
        kw = [{"name": name + ": " + f.name, "filter": f} for f in filters]
        cls = [RadiancePipeline0D] * len(filters)
    else:
        kw, cls = [{"name": name}], [SpectralRadiancePipeline0D]
    with ctx.cut(what + ":read"):
        got_kw = read_one(inst, kind, "pipeline_kwargs", None)
        got_cls = read_one(inst, kind, "pipeline_classes", None) if pipes else cls
        got_p = read_one(inst, kind, "create_pipelines", None) if pipes else None
    ctx.check(same(got_kw, kw), what + ":pipeline_kwargs", lambda: "pipeline_kwargs is %s, the parameters imply %s" % (_show(got_kw), _show(kw)))
    ctx.check(same(got_cls, cls), what + ":pipeline_classes", lambda: "pipeline_classes is %s, the parameters imply %s" % (_show(got_cls), _show(cls)))
    if got_p is not None:
        want = [(c, c(**k).name, k.get("filter")) for c, k in zip(cls, kw)]      # raysect substitutes a default for an empty name
        ctx.check(same(got_p, want), what + ":create_pipelines", lambda: "create_pipelines() gives %s, the parameters imply %s" % (_show(got_p), _show(want)))


def width_class(cells):
    w = [hi - lo for lo, hi in cells]
    if len(w) < 2 or max(w) <= min(w) * (1.0 + 1e-12):
        return "even"
    return "almost" if max(w) <= 1.001 * min(w) else "uneven"


def arrangement_labels(kind, p):
    """classes of the layout, computed from the data (not from the generator's intent)"""
    out = set()
    if kind == "poly":
        spans = [spec_window(s, p["filters"]) for s in p["filters"]]
        for k in range(1, len(spans)):
            if spans[k][0] < min(s[0] for s in spans[:k]) and spans[k][1] > max(s[1] for s in spans[:k]):
                out.add("arr:enclosing-later")
        return sorted(out)
    if kind == "czerny":
        acc = p["acc"]
        for i in range(len(acc)):
            for j in range(len(acc)):
                if i != j and list(acc[i]) == list(acc[j]):
                    out.add("arr:duplicate")
                elif i != j and acc[i][0] >= acc[j][0] and acc[i][1] * 2 <= acc[j][1] and acc[i][0] - acc[j][0] < 0.02:
                    out.add("arr:nested")
        if any(acc[i][0] > acc[i + 1][0] for i in range(len(acc) - 1)):
            out.add("arr:descending")
        return sorted(out)
    e = p["w2p"]
    for i in range(len(e)):
        for j in range(len(e)):
            if i == j:
                continue
            if list(e[i]) == list(e[j]):
                out.add("arr:duplicate")
            elif e[i][0] == e[j][0] and e[i][-1] == e[j][-1] and len(e[i]) == len(e[j]):
                out.add("arr:twins")
            elif e[i][0] >= e[j][0] and e[i][-1] <= e[j][-1]:
                out.add("arr:nested")
            if e[i][0] == e[j][-1]:
                out.add("arr:touching")
    if any(e[i][0] > e[i + 1][0] for i in range(len(e) - 1)):
        out.add("arr:descending")
    return sorted(out)


# ------------------------------------------------------------------------------------------------ 1. histories
def _read_args():
    return st.fixed_dictionaries({"what": st.lists(st.sampled_from(READS_ALL), min_size=1, max_size=4, unique=True),
                                  "seed": st.integers(0, 10 ** 6)})


@st.composite
def hist_params(draw):
    d = draw(instrument_params())
    d["every_step"] = draw(st.booleans())
    d["bare"] = draw(st.sampled_from([False, False, True]))     # every default left to default (also for the other instruments)
    return d


def _other_arg(kind):
    return lambda: st.fixed_dictionaries({"b": instrument_params(kind), "b2": instrument_params(kind), "seed": st.integers(0, 10 ** 6)})


@st.composite
def _w2p_arg(draw):
    w = draw(layout())
    return {"w2p": w, "fm": draw(w2p_forms(w))}


_sc_form = st.sampled_from(["py", "py", "np", "alt"])


def _with_sc(strategy_fn):
    return lambda: st.fixed_dictionaries({"v": strategy_fn(), "sc": _sc_form})


_E = float(np.finfo(float).eps)
NUDGES = [_E, 4 * _E, 2e-6, 1e-9, 1e-3]       # relative re-assignments of a numeric parameter (fit / fine-tuning loops)
NUDGE_TARGETS = {"spectrometer": ["wavelength_to_pixel"],
                 "czerny": ["grating", "focal_length", "pixel_spacing", "diffraction_angle", "accommodated_spectra"],
                 "poly": ["filters"]}
CT_KEYS = {"grating": "grating", "focal_length": "focal_length", "pixel_spacing": "pixel_spacing", "diffraction_angle": "angle"}


def nudged_spec(s, f):
    s = dict(s)
    if s["t"] == "trap":
        s["c"] = s["c"] * f
    elif s["t"] == "gen":
        s["wl"] = [x * f for x in s["wl"]]
        s["form"] = dict(s.get("form", {}), arr="list")
    return s


INVALID = {
    "spectrometer": [("wavelength_to_pixel", [[400.0, 401.0, 401.0]]), ("wavelength_to_pixel", [[400.0, 402.0], [500.0]]),
                     ("wavelength_to_pixel", [[400.0, 399.0]]), ("wavelength_to_pixel", [[[400.0, 401.0]]]),
                     ("min_bins_per_pixel", 0), ("min_bins_per_pixel", -2)],
    "czerny": [("diffraction_order", 0), ("grating", -1e-3), ("grating", 0.0), ("focal_length", 0.0), ("pixel_spacing", -2e4),
               ("diffraction_angle", 0.0), ("diffraction_angle", -5.0), ("accommodated_spectra", ((400.0, 8), (-500.0, 8))),
               ("accommodated_spectra", ((400.0, 8), (500.0, 0))), ("min_bins_per_pixel", 0)],
    "poly": [("min_bins_per_window", 0), ("min_bins_per_window", -1), ("filters", "FILTER+INT"), ("filters", ["not a filter"])],
}


class Hist:
    """Real instrument + dict of its current parameters; reads are compared with an instrument freshly constructed
    from the dict (the same filter objects)."""
    OPS = {
        "read": _read_args,
        "set_name": lambda: _names,
        "set_min_bins": _with_sc(lambda: st.one_of(st.integers(1, 30), st.sampled_from([1, 10]))),
        "set_w2p": _w2p_arg,
        "set_order": _with_sc(lambda: _ct_order),
        "set_grating": lambda: st.fixed_dictionaries({"u": _ct_u, "sc": _sc_form}),
        "set_focal_length": _with_sc(_ct_focal),
        "set_pixel_spacing": _with_sc(_ct_spacing),
        "set_angle": lambda: st.fixed_dictionaries({"angle": _ct_angle, "u": _ct_u, "sc": _sc_form}),
        "set_acc": lambda: st.fixed_dictionaries({"v": _ct_acc(), "f": _acc_form}),
        "set_filters": lambda: st.fixed_dictionaries({"v": _filters(), "f": st.sampled_from(["list", "tuple"])}),
        "set_invalid": lambda: st.integers(0, 59),
        "mutate_owned": lambda: st.fixed_dictionaries({"how": st.integers(0, 5), "acc": st.just(not _open(F_ACC)),
                                                       "fil": st.just(not _open(F_FIL))}),
        "nudge": lambda: st.fixed_dictionaries({"which": st.integers(0, 11), "sc": _sc_form,
                                               "rel": st.lists(st.tuples(st.sampled_from([-1.0, 1.0]), st.sampled_from(NUDGES)).map(list),
                                                               min_size=1, max_size=4)}),
        "other_spectrometer": _other_arg("spectrometer"),
        "other_czerny": _other_arg("czerny"),
        "other_poly": _other_arg("poly"),
    }

    def __init__(self, ctx, params):
        self.ctx = ctx
        self.kind = params["kind"]
        self.p = {k: v for k, v in params["p"].items()}
        self.fm = dict(params.get("fm") or {})
        self.bare = bool(params.get("bare", False))
        if self.bare:
            self.p, self.fm = as_bare(self.kind, self.p, self.fm)
        self.others = []          # other instruments of the same class, kept alive
        self.snap = {}            # values read since the last parameter change
        self.n_reads = 0
        self.pipes = bool(params.get("pipes", True))
        self.every = bool(params.get("every_step", True))
        self.filters = None
        self.inst = None
        self.dead = False
        self.cached = {"spectral": False, "kwargs": False, "classes": False}
        self.exp = None
        self.n_eff = {"spectral": 0, "kwargs": 0, "classes": 0}
        self.names = set()
        self.reads = set()
        self.forms = set()
        self.owned = {}
        self.kept = []            # (what, returned arrays, copies taken at that time)
        self.n_rejected = self.n_skipped = 0
        self.flags = set()

    # -- plumbing
    def _fresh(self):
        with self.ctx.cut("construct-fresh"):
            return build(self.kind, self.p, self.filters)

    def _expected(self):
        f = self._fresh()
        with self.ctx.cut("fresh:settings"):
            return {"spectral": [read_one(f, self.kind, w, None) for w in SPECTRAL],
                    "kwargs": read_one(f, self.kind, "pipeline_kwargs", None),
                    "classes": len(self.filters) if self.kind == "poly" else 1}

    def _ensure(self):
        """Construction is done lazily inside the first step (a Violation raised from __init__ would lose the case)."""
        if self.inst is not None:
            return
        with self.ctx.cut("construct"):
            if self.kind == "poly":
                self.filters = build_filters(self.p["filters"])
            self.inst, self.owned = build_formed(self.kind, self.p, self.fm, self.filters)
        self.forms.update(form_labels(self.kind, self.fm))
        if self.kind == "czerny":
            self.flags.add(angle_class(self.p["angle"]))
        self._owned_check()
        self.exp = self._expected()

    def _owned_check(self):
        if self.owned:
            owned_intact(self.ctx, self.owned, self.p, self.filters, self.kind + ":caller-data")
            self.flags.add("owned:intact")

    def close(self):
        self.inst = self.filters = None
        self.kept = []
        self.owned = {}
        self.others = []
        self.snap = {}

    def _hist(self):
        return "[history: setters %s; current parameters %s]" % (sorted(self.names), _show(self.p))

    def _read(self, whats, seed):
        ctx, kind = self.ctx, self.kind
        aux = None
        if "calibrate" in whats and kind != "poly":     # range a correct instrument reports (computed at the last parameter change)
            aux = calib_spectrum(self.exp["spectral"], seed)
        whats = [w for w in whats if applicable(kind, self.pipes, w)]
        gots = {}
        for w in whats:         # the instrument under test is read BEFORE the reference instrument is built
            with ctx.cut("read:" + w):
                gots[w] = read_one(self.inst, kind, w, aux)
        fresh = self._fresh()
        for w in whats:
            got = gots[w]
            with ctx.cut("fresh:" + w):
                want = read_one(fresh, kind, w, aux)
            ctx.check(same(got, want), "%s:%s" % (kind, w),
                      lambda: "%s is %s, a freshly constructed instrument gives %s %s" % (w, _show(got), _show(want), self._hist()))
            self.reads.add(w)
            self.n_reads += 1
            if w == "calibrate":        # source spectra with more and with fewer bins in between
                with ctx.cut("read:calibrate"):
                    for nb in (3 * aux.bins + 7, 1):
                        self.inst.calibrate(calib_spectrum(self.exp["spectral"], seed + nb, nb))
                self.flags.add("repeat:calibrate-sizes")
            with ctx.cut("read:" + w):
                again = read_one(self.inst, kind, w, aux)
            ctx.check(same(again, got), "%s:repeat:%s" % (kind, w),
                      lambda: "%s read twice in a row: %s, then %s %s" % (w, _show(got), _show(again), self._hist()))
            key = w if w != "calibrate" else "calibrate:%d" % int(seed)
            if key in self.snap:
                ctx.check(same(got, self.snap[key]), "%s:repeat:%s" % (kind, w),
                          lambda: "%s is %s, it was %s when read earlier and no parameter of this instrument was changed since %s"
                          % (w, _show(got), _show(self.snap[key]), self._hist()))
                self.flags.add("repeat")
            else:
                self.snap[key] = got
            if w in SPECTRAL or w == "calibrate":
                self.cached["spectral"] = True
            if w in ("pipeline_kwargs", "create_pipelines"):
                self.cached["kwargs"] = True
            if w in ("pipeline_classes", "create_pipelines"):
                self.cached["classes"] = True
            if w in ("wavelengths", "wavelength_to_pixel", "calibrate") and len(self.kept) < 6:
                with ctx.cut("read:" + w):      # the objects the instrument hands out, kept like a caller would
                    ret = list(self.inst.calibrate(aux)) if w == "calibrate" else list(getattr(self.inst, w))
                self.kept.append((w, ret, [np.array(a, dtype=float, copy=True) for a in ret]))

    def _kept_check(self):
        for w, ret, copies in self.kept:
            self.ctx.check(len(ret) == len(copies) and all(same(np.asarray(a), c) for a, c in zip(ret, copies)), self.kind + ":kept:" + w,
                           lambda: "arrays returned earlier by %s were modified by later operations %s" % (w, self._hist()))
        if self.kept:
            self.flags.add("kept:intact")

    def _full(self):
        self._read([w for w in READS_ALL], 12345)
        check_ineq(self.ctx, self.inst, self.kind, self.p, self.filters, self.kind + ":ineq")
        check_pipelines(self.ctx, self.inst, self.kind, self.p, self.filters, self.pipes, self.kind + ":documented")

    def invariant(self):
        if self.inst is None:
            self._ensure()
        if self.every and not self.dead:
            self._full()

    def finish(self):
        self._ensure()
        ctx = self.ctx
        if not self.dead:
            self._full()
            self._kept_check()
            self._owned_check()
        ctx.label("kind:" + self.kind, "mode:every_step" if self.every else "mode:sparse")
        if self.kind == "czerny" and not self.pipes:
            ctx.label("excluded_known")
        for n in sorted(self.names):
            if not n.startswith("("):
                ctx.label("set:%s.%s" % (self.kind, n))
        for w in sorted(self.reads):
            ctx.label("read:" + w)
        for f in sorted(self.forms | self.flags):
            ctx.label(f)
        for k, n in self.n_eff.items():
            if n:
                ctx.label("nt:" + k)
        if self.n_rejected:
            ctx.label("rejected")
        if self.n_skipped:
            ctx.label("skipped_invalid_combination")
        if self.dead:
            ctx.label("invalid_value_accepted")
        ctx.nt(sum(self.n_eff.values()) >= 1)

    # -- setters
    def _set(self, attr, key, value, arg_for_setter=None, owned=None):
        """setattr(inst, attr, value) on the real object, p[key] = value in the model, then bookkeeping for the RULE."""
        self._ensure()
        if self.dead:
            return
        with self.ctx.cut("set:" + attr):
            setattr(self.inst, attr, value if arg_for_setter is None else arg_for_setter)
        self.p[key] = value
        self.names.add(attr)
        self.snap = {}
        if owned is not None:
            self.owned = owned
            self._owned_check()
        new = self._expected()
        for k in ("spectral", "kwargs", "classes"):
            if not same(new[k], self.exp[k]):
                if self.cached[k]:
                    self.n_eff[k] += 1
                self.cached[k] = False
        self.exp = new

    def do_read(self, arg):
        self._ensure()
        if not self.dead:
            self._read(list(arg["what"]), arg["seed"])

    def do_set_name(self, arg):
        self._set("name", "name", arg)

    @staticmethod
    def _vs(arg):
        return (arg["v"], arg.get("sc", "py")) if isinstance(arg, dict) else (arg, "py")

    def do_set_min_bins(self, arg):
        v, sc = self._vs(arg)
        self.forms.add("form:sc:" + sc)
        if self.kind == "poly":
            self._set("min_bins_per_window", "mbw", int(v), arg_for_setter=sc_int(int(v), sc))
        else:
            v = 1 + (int(v) - 1) % 8
            self._set("min_bins_per_pixel", "mbpp", v, arg_for_setter=sc_int(v, sc))

    def pre_set_w2p(self):
        return self.kind == "spectrometer"

    def do_set_w2p(self, arg):
        if isinstance(arg, dict):
            w2p, fm = [list(e) for e in arg["w2p"]], arg.get("fm") or {}
        else:
            w2p, fm = [list(e) for e in arg], {}
        formed = formed_w2p(w2p, fm)
        self.forms.update(["form:arr:" + f for f in fm.get("arr", [])] + ["form:outer:" + fm.get("outer", "tuple")])
        self._set("wavelength_to_pixel", "w2p", w2p, arg_for_setter=formed, owned={"w2p": formed})

    def _set_ct(self, attr, key, arg):
        self._ensure()
        f = sc = None
        if key == "acc":
            value, f = (arg["v"], arg.get("f", "tuple")) if isinstance(arg, dict) else (arg, "tuple")
        else:
            value, sc = self._vs(arg)
        trial = dict(self.p)
        trial[key] = value
        if not ct_valid(trial):
            self.n_skipped += 1
            return
        if key == "acc":
            formed = formed_acc(value, f)
            self.forms.add("form:acc:" + f)
            self._set(attr, key, [list(x) for x in value], arg_for_setter=formed, owned={"acc": formed})
        else:
            self.forms.add("form:sc:" + sc)
            self._set(attr, key, value, arg_for_setter=sc_int(value, sc) if key == "order" else sc_float(value, sc))

    def pre_set_grating(self):
        return self.kind == "czerny"

    def do_set_grating(self, arg):
        """new grating chosen for the current angle / order / layout (valid by construction)"""
        self._ensure()
        if "v" in arg:                      # cases recorded before the angle range was widened
            return self._set_ct("grating", "grating", arg)
        g = ct_grating(self.p, arg["u"])
        if g is None:
            self.n_skipped += 1
            return
        self.forms.add("form:sc:" + arg["sc"])
        self._set("grating", "grating", g, arg_for_setter=sc_float(g, arg["sc"]))

    def pre_set_angle(self):
        return self.kind == "czerny"

    def do_set_angle(self, arg):
        """re-alignment: a new diffraction angle anywhere in (0, 180) together with a grating that keeps the documented
        formula real for it; the two setters are called in the order that keeps the intermediate state valid too"""
        self._ensure()
        if "v" in arg:
            return self._set_ct("diffraction_angle", "angle", arg)
        trial = dict(self.p)
        trial["angle"] = arg["angle"]
        g = ct_grating(trial, arg["u"])
        if g is None:
            self.n_skipped += 1
            return
        sc = arg["sc"]
        self.forms.add("form:sc:" + sc)
        steps = [("grating", "grating", g), ("diffraction_angle", "angle", arg["angle"])]
        if g >= self.p["grating"]:          # a larger p is admissible only under the new angle
            steps.reverse()
        for attr, key, v in steps:
            self._set(attr, key, v, arg_for_setter=sc_float(v, sc))
        self.flags.add(angle_class(arg["angle"]))

    def do_nudge(self, arg):
        """A numeric parameter is re-assigned to its current value times (1 +- tiny), several times in a row: every
        re-assignment is a parameter change, the instrument must equal one built directly with the final value."""
        self._ensure()
        if self.dead:
            return
        targets = NUDGE_TARGETS[self.kind]
        attr = targets[int(arg["which"]) % len(targets)]
        sc = arg.get("sc", "py")
        for sign, rel in arg["rel"]:
            f = 1.0 + float(sign) * float(rel)
            if attr == "wavelength_to_pixel":
                w2p = [[x * f for x in e] for e in self.p["w2p"]]
                if any(b <= a for e in w2p for a, b in zip(e[:-1], e[1:])):
                    self.n_skipped += 1
                    continue
                formed = tuple(list(e) for e in w2p)
                self._set(attr, "w2p", w2p, arg_for_setter=formed, owned={"w2p": formed})
            elif attr == "accommodated_spectra":
                acc = [[l0 * f, n] for l0, n in self.p["acc"]]
                trial = dict(self.p, acc=acc)
                if not ct_valid(trial):
                    self.n_skipped += 1
                    continue
                formed = _acc(acc)
                self._set(attr, "acc", acc, arg_for_setter=formed, owned={"acc": formed})
            elif attr == "filters":
                specs = [nudged_spec(s, f) for s in self.p["filters"]]
                with self.ctx.cut("construct-filter"):
                    new = build_filters(specs)
                self.filters = new
                formed = list(new)
                self._set(attr, "filters", specs, arg_for_setter=formed, owned={"filters": formed})
            else:
                key = CT_KEYS[attr]
                v = self.p[key] * f
                trial = dict(self.p)
                trial[key] = v
                if not ct_valid(trial):
                    self.n_skipped += 1
                    continue
                self._set(attr, key, v, arg_for_setter=sc_float(v, sc))
            self.flags.add("nudge:%s.%s" % (self.kind, attr))
            self.flags.add("nudge:rel:%g" % float(rel))

    def pre_set_filters(self):
        return self.kind == "poly"

    def do_set_filters(self, arg):
        self._ensure()
        if self.dead:
            return
        specs, f = (arg["v"], arg.get("f", "list")) if isinstance(arg, dict) else (arg, "list")
        with self.ctx.cut("construct-filter"):
            new = build_filters(specs)
        self.filters = new
        formed = list(new) if f == "list" else tuple(new)
        self.forms.add("form:filters:" + f)
        self._set("filters", "filters", [dict(s) for s in specs], arg_for_setter=formed, owned={"filters": formed})

    def do_set_invalid(self, arg):
        self._ensure()
        if self.dead:
            return
        attr, value = INVALID[self.kind][int(arg) % len(INVALID[self.kind])]
        if value == "FILTER+INT":
            value = [self.filters[0], 5]
        try:
            setattr(self.inst, attr, value)
        except Exception:   # noqa - a rejected value: parameters unchanged, compared below / at the next read
            self.n_rejected += 1
            self._read([w for w in READS_ALL], 777)
            return
        self.dead = True     # invalid value accepted: no "final parameters" are defined, nothing more is claimed

    def do_mutate_owned(self, arg):
        """The caller modifies, in place, the container it handed to the constructor / last setter. This is not a
        parameter change: the instrument must keep reporting the parameters it was given."""
        self._ensure()
        if self.dead or not self.owned:
            return
        how = int(arg["how"])
        done = None
        if "w2p" in self.owned:
            w = self.owned["w2p"]
            for a in w:
                if isinstance(a, np.ndarray):
                    a += 1
                    done = "w2p"
                elif isinstance(a, list):
                    a[how % len(a)] = a[0] - 5.0
                    done = "w2p"
            if isinstance(w, list):
                w.append([100.0, 101.0])
                done = "w2p"
        elif "acc" in self.owned:
            a = self.owned["acc"]
            if not arg.get("acc", True):
                self.flags.add("excluded_known")
            elif isinstance(a, list):
                if how % 2:
                    a.append([350.0, 3])
                else:
                    a[0][1] = int(a[0][1]) + 2
                done = "acc"
            elif isinstance(a, np.ndarray):
                a[0, 1] += 2.0
                done = "acc"
        elif "filters" in self.owned:
            f = self.owned["filters"]
            if not arg.get("fil", True):
                self.flags.add("excluded_known")
            elif isinstance(f, list):
                if how % 2 and len(f) > 1:
                    f.pop()
                else:
                    with self.ctx.cut("construct-filter"):
                        f.append(TrapezoidalFilter(250.0 + how, 2.0, None, "late"))
                done = "filters"
        self.owned = {}
        if done:
            self.flags.add("owned:mutated:" + done)
            self.names.add("(caller modified its %s container)" % done)
            self._read([w for w in READS_ALL if w != "calibrate"], 5)


def compare_reads(ctx, inst, make_fresh, kind, pipes, aux, what, info):
    whats = [w for w in READS_ALL if applicable(kind, pipes, w)]
    gots = {}
    for w in whats:             # read before the reference instrument is built
        with ctx.cut("%s:read:%s" % (what, w)):
            gots[w] = read_one(inst, kind, w, aux)
    with ctx.cut(what + ":construct-fresh"):
        fresh = make_fresh()
    for w in whats:
        got = gots[w]
        with ctx.cut("%s:fresh:%s" % (what, w)):
            want = read_one(fresh, kind, w, aux)
        ctx.check(same(got, want), "%s:%s:%s" % (kind, what, w),
                  lambda: "%s of the %s is %s, a freshly constructed instrument gives %s %s" % (w, what, _show(got), _show(want), info))


def use_other(ctx, kind, b, b2, fm, bare, pipes, seed, what="other"):
    """Build a second instrument of the same class from the parameter set b (built the same way as the instrument under
    test), read everything, move it to the parameter set b2 through its setters, read everything again (it is compared
    with fresh instruments as well). Returns the instrument (the caller keeps it alive)."""
    pb, pb2 = dict(b["p"]), dict(b2["p"])
    fmb = like(fm)
    if bare:
        pb, fmb = as_bare(kind, pb, fmb)
    with ctx.cut(what + ":construct"):
        fb = build_filters(pb["filters"]) if kind == "poly" else None
        other, _ = build_formed(kind, pb, fmb, fb)
    for step in (0, 1):
        aux = None
        if kind != "poly":      # the spectrum must cover the instrument: lowest / highest edge of a reference layout
            with ctx.cut(what + ":construct-fresh"):
                ee = build(kind, pb, fb).wavelength_to_pixel
            aux = calib_spectrum([min(float(e[0]) for e in ee), max(float(e[-1]) for e in ee)], seed + step)
            with ctx.cut(what + ":use"):     # the other instrument is used before anything else is built
                other.calibrate(aux)
        compare_reads(ctx, other, (lambda pb=dict(pb), fb=fb: build(kind, pb, fb)), kind, pipes, aux, what, "[parameters %s]" % _show(pb))
        check_ineq(ctx, other, kind, pb, fb, "%s:%s:ineq" % (kind, what))
        check_pipelines(ctx, other, kind, pb, fb, pipes, "%s:%s:documented" % (kind, what))
        if step:
            break
        with ctx.cut(what + ":set"):
            other.name = pb2["name"]
            pb["name"] = pb2["name"]
            if kind == "poly":
                other.min_bins_per_window = pb2["mbw"]
                fb = build_filters(pb2["filters"])
                other.filters = list(fb)
                pb["mbw"], pb["filters"] = pb2["mbw"], pb2["filters"]
            else:
                other.min_bins_per_pixel = pb2["mbpp"]
                pb["mbpp"] = pb2["mbpp"]
                if kind == "spectrometer":
                    other.wavelength_to_pixel = tuple(list(e) for e in pb2["w2p"])
                    pb["w2p"] = pb2["w2p"]
                else:
                    trial = dict(pb)
                    trial["acc"] = pb2["acc"]
                    if ct_valid(trial):
                        other.accommodated_spectra = _acc(pb2["acc"])
                        pb["acc"] = pb2["acc"]
                    trial = dict(pb)
                    trial["focal_length"] = pb2["focal_length"]
                    if ct_valid(trial):
                        other.focal_length = pb2["focal_length"]
                        pb["focal_length"] = pb2["focal_length"]
    return other


def _do_other(self, arg):
    """Another instrument of the same class is built, read, re-parametrised and read again while this one is alive;
    nothing about this one may change."""
    self._ensure()
    if self.dead:
        return
    first_use = self.n_reads == 0
    other = use_other(self.ctx, self.kind, arg["b"], arg["b2"], self.fm, self.bare, self.pipes, int(arg["seed"]))
    self.others = (self.others + [other])[-3:]
    self.flags.add("interference:" + self.kind)
    self.flags.add("interference:before-first-use" if first_use else "interference:after-first-use")
    if self.bare:
        self.flags.add("interference:bare")
    self.names.add("(another %s was built and used)" % self.kind)
    self._read([w for w in READS_ALL], int(arg["seed"]) if first_use else 12345)


def _install_ct():
    for kind in ("spectrometer", "czerny", "poly"):
        setattr(Hist, "do_other_" + kind, _do_other)
        setattr(Hist, "pre_other_" + kind, (lambda self, kind=kind: self.kind == kind))
    for op, attr, key in (("set_order", "diffraction_order", "order"),
                          ("set_focal_length", "focal_length", "focal_length"), ("set_pixel_spacing", "pixel_spacing", "pixel_spacing"),
                          ("set_acc", "accommodated_spectra", "acc")):
        setattr(Hist, "do_" + op, (lambda self, arg, attr=attr, key=key: self._set_ct(attr, key, arg)))
        setattr(Hist, "pre_" + op, (lambda self: self.kind == "czerny"))


_install_ct()


# ------------------------------------------------------------------------------------------------ 2. inequalities
@st.composite
def ineq_strategy(draw):
    d = draw(instrument_params())
    d["order"] = draw(st.permutations(list(SPECTRAL)))
    d["bare"] = draw(st.sampled_from([False, False, True]))
    d["other"] = draw(instrument_params(d["kind"]))
    d["other2"] = draw(instrument_params(d["kind"]))
    d["other_first"] = draw(st.booleans())       # the other instrument is used before this one is read for the first time
    return d


FXS = {}      # per-case scratch: id(filter) -> (points, first observation); cleared in run_ineq


def filter_props(f, xs):
    out = [f.name, float(f.min_wavelength), float(f.max_wavelength), float(f.window), float(f.central_wavelength)]
    if isinstance(f, TrapezoidalFilter):
        out.append(float(f.flat_top))
    return out + [float(f(x)) for x in xs]


def run_ineq(case, ctx):
    kind, p, pipes, fm = case["kind"], case["p"], bool(case.get("pipes", True)), case.get("fm") or {}
    bare = bool(case.get("bare"))
    if bare:
        p, fm = as_bare(kind, p, fm)
    ctx.label("kind:" + kind, *form_labels(kind, fm))
    ctx.label(*arrangement_labels(kind, p))
    if p.get("preset"):
        ctx.label("preset:" + p["preset"])
    filters = None
    FXS.clear()
    with ctx.cut("construct"):
        if kind == "poly":
            filters = build_filters(p["filters"])
        b = build(kind, p, filters)
    with ctx.cut("read-reference"):      # the reference is read before any other instrument of this case exists
        ref = {w: read_one(b, kind, w, None) for w in READS_ALL if w != "calibrate" and applicable(kind, pipes, w)}
    with ctx.cut("construct"):
        a, owned = build_formed(kind, p, fm, filters)
    owned_intact(ctx, owned, p, filters, kind + ":caller-data")
    others = []
    other_first = bool(case.get("other_first")) and "other" in case
    if other_first:
        others.append(use_other(ctx, kind, case["other"], case["other2"], fm, bare, pipes, 11))
        ctx.label("interference", "interference:before-first-use")
    if kind == "poly":      # filters built in the drawn form against canonically built ones; every filter accessor
        with ctx.cut("construct-filter"):
            canon = build_filters(p["filters"], canonical=True)
        for f, g, s in zip(filters, canon, p["filters"]):
            if s["t"] == "same":
                ctx.label("filter:same")
                continue
            lo, hi = spec_window(s, p["filters"])
            xs = [lo - 1.0, lo + 0.25 * (hi - lo), 0.5 * (lo + hi), lo + 0.9 * (hi - lo), hi + 1.0]
            with ctx.cut("filter"):
                x, y = filter_props(f, xs), filter_props(g, xs)
            FXS[id(f)] = (xs, x)
            ctx.check(same(x, y), "filter:form", lambda: "filter built as %s reports %s, built canonically %s" % (_show(s), _show(x), _show(y)))
            ctx.check(x[0] == str(s["name"]), "filter:name", lambda: "filter name %r, given %r" % (x[0], s["name"]))
            tol = 2.0 * float(np.spacing(hi)) if s["t"] == "trap" else 0.0
            ctx.check(abs(x[1] - lo) <= tol and abs(x[2] - hi) <= tol, "filter:window",
                      lambda: "filter reports the window [%r, %r], specified [%r, %r] (%s)" % (x[1], x[2], lo, hi, _show(s)))
            ctx.label("filter:" + s["t"])
            if s["t"] == "trap" and s["form"].get("omit") and (s["w"] == 3.0 or s["ft"] is None):
                ctx.label("filter:trap-defaults")
    with ctx.cut("read"):
        got = {w: read_one(a, kind, w, None) for w in case["order"]}      # settings read in the drawn order
    cells = check_ineq(ctx, a, kind, p, filters, kind)
    check_pipelines(ctx, a, kind, p, filters, pipes, kind + ":documented")
    first = {}
    for rnd in (0, 1):
        for w in READS_ALL:
            if w == "calibrate" or not applicable(kind, pipes, w):
                continue
            with ctx.cut("read:" + w):
                x, y = read_one(a, kind, w, None), read_one(b, kind, w, None)
            ctx.check(same(x, y), kind + ":" + w, lambda: "instrument built with arguments in the form %s differs from the canonically "
                                                       "built one in %s: %s / %s" % (fm, w, _show(x), _show(y)))
            ctx.check(same(x, ref[w]), kind + ":interference:" + w,
                      lambda: "%s is %s; the reference instrument gave %s before any other instrument of this case existed"
                      % (w, _show(x), _show(ref[w])))
            if w in got:
                ctx.check(same(got[w], x), kind + ":order:" + w, lambda: "%s depends on the order of reading: %s / %s" % (w, _show(got[w]), _show(x)))
            if rnd:
                ctx.check(same(x, first[w]), kind + ":repeat:" + w, lambda: "%s was %s, after another instrument was used it is %s" % (w, _show(first[w]), _show(x)))
            first.setdefault(w, x)
        if rnd or "other" not in case:
            break
        # a second (and third) instrument of the same class, other parameters, built the same way, used in between
        others.append(use_other(ctx, kind, case["other2"], case["other"], fm, bare, pipes, 12))
        ctx.label("interference", "interference:after-first-use", "repeat")
        if bare:
            ctx.label("interference:bare")
    if kind == "poly":      # every filter evaluated again after all the other filters were built and evaluated
        for f, s in zip(filters, p["filters"]):
            if s["t"] != "same":
                with ctx.cut("filter"):
                    again = filter_props(f, FXS[id(f)][0])
                ctx.check(same(again, FXS[id(f)][1]), "filter:repeat", lambda: "filter %s reports %s, the first time %s" % (_show(s), _show(again), _show(FXS[id(f)][1])))
                ctx.label("filter:repeat")
        FXS.clear()
    owned_intact(ctx, owned, p, filters, kind + ":caller-data")
    if kind == "czerny" and not pipes:
        ctx.label("excluded_known")
    wc = width_class(cells)
    ctx.label("widths:" + wc)
    if kind == "czerny":
        ctx.label(angle_class(p["angle"]))
        for e in a.wavelength_to_pixel:
            d = np.diff(np.asarray(e, dtype=float))
            if d.size >= 3:
                k = int(np.argmin(d))
                ctx.label("ct:narrowest:" + ("first" if k == 0 else "last" if k == d.size - 1 else "inner"))
    ctx.nt(wc != "even")


# ------------------------------------------------------------------------------------------------ 3. calibration
@st.composite
def calib_strategy(draw):
    if draw(st.integers(0, 5)) == 0:
        lay = {"kind": "czerny", "p": draw(czerny_params(small=True))}
        est = 10 ** 9
    else:
        w2p = draw(layout())
        mbpp = draw(st.integers(1, 5))
        lay = {"kind": "edges", "w2p": w2p, "mbpp": mbpp}
        narrow = min(b - a for e in w2p for a, b in zip(e[:-1], e[1:]))
        est = (max(e[-1] for e in w2p) - min(e[0] for e in w2p)) / (narrow / mbpp)     # size guard only
    rng = draw(st.sampled_from(["own", "tight", "tight", "margin", "margin", "pixscale", "pixscale", "centred"]))
    if rng == "own" and est > 1500:
        rng = "tight"
    bins = draw(st.one_of(st.integers(1, 6), st.integers(1, 60), st.integers(1, 300)))
    sk = draw(st.sampled_from(["list", "rng", "rng", "spike", "alt"]))
    if sk == "list" and rng in ("tight", "margin"):
        hi = draw(_logu(1e-3, 1e6))
        samples = {"kind": "list", "values": [draw(st.floats(0.0, 1.0)) * hi for _ in range(bins)]}
    elif sk == "spike":
        samples = {"kind": "spike", "u": draw(st.floats(0.0, 0.999)), "v": draw(_logu(1e-3, 1e6)), "bg": draw(st.sampled_from([0.0, 1.0]))}
    elif sk == "alt":
        samples = {"kind": "alt", "hi": draw(_logu(1e-3, 1e6)), "lo": draw(st.sampled_from([0.0, 0.0, 0.5])), "phase": draw(st.integers(0, 1))}
    else:
        samples = {"kind": "rng", "seed": draw(st.integers(0, 2 ** 31 - 1)), "hi": draw(_logu(1e-3, 1e6))}
    other = {"w2p": draw(layout(12)), "bins": draw(st.integers(1, 200)), "seed": draw(st.integers(0, 2 ** 31 - 1))}
    return {"layout": lay, "other": other, "range": rng, "lo_m": draw(_logu(1e-3, 50.0)), "hi_m": draw(_logu(1e-3, 50.0)), "bins": bins,
            "scale": draw(st.floats(0.2, 3.0)), "samples": samples, "const": draw(_logu(1e-6, 1e6)),
            "lin_a": draw(st.floats(0.1, 10.0)), "lin_u": draw(st.floats(-0.9, 3.0))}


class PiecewiseLinear:
    """The spectrum as raysect defines it, integrated exactly (rational arithmetic on the float knots/samples)."""

    def __init__(self, xs, ys):
        self.xs = [float(x) for x in xs]
        self.ys = [float(y) for y in ys]
        self._fx, self._fy = {}, {}

    def X(self, i):
        v = self._fx.get(i)
        if v is None:
            v = self._fx[i] = Fraction(self.xs[i])
        return v

    def Y(self, i):
        v = self._fy.get(i)
        if v is None:
            v = self._fy[i] = Fraction(self.ys[i])
        return v

    def value(self, t):
        """exact value at the float t"""
        xs = self.xs
        if t <= xs[0]:
            return self.Y(0)
        if t >= xs[-1]:
            return self.Y(len(xs) - 1)
        k = bisect.bisect_right(xs, t) - 1
        return self.Y(k) + (self.Y(k + 1) - self.Y(k)) * (Fraction(t) - self.X(k)) / (self.X(k + 1) - self.X(k))

    def integral(self, a, b):
        """(exact integral over [a, b], number of knots strictly inside, max |sample| touching [a, b])"""
        xs = self.xs
        i0, i1 = bisect.bisect_right(xs, a), bisect.bisect_left(xs, b)
        pts = [(Fraction(a), self.value(a))] + [(self.X(i), self.Y(i)) for i in range(i0, i1)] + [(Fraction(b), self.value(b))]
        tot = Fraction(0)
        for (p, fp), (q, fq) in zip(pts, pts[1:]):
            tot += (fp + fq) * (q - p) / 2
        lo, hi = max(i0 - 1, 0), min(max(i1, i0), len(xs) - 1)
        return tot, max(i1 - i0, 0), max(abs(y) for y in self.ys[lo:hi + 1])


def make_samples(spec, n):
    k = spec["kind"]
    if k == "list":
        v = np.array(spec["values"], dtype=float)
        return v if v.size == n else np.resize(v, n)
    if k == "spike":
        v = np.full(n, float(spec["bg"]))
        v[min(n - 1, int(spec["u"] * n))] = spec["v"]
        return v
    if k == "alt":
        v = np.full(n, float(spec["lo"]) * spec["hi"])
        v[int(spec["phase"]) % 2::2] = spec["hi"]
        return v
    return np.random.RandomState(int(spec["seed"])).rand(n) * spec["hi"]


def _calibrate(ctx, inst, sp, what, shapes, raw=False):
    with ctx.cut(what):
        cal = inst.calibrate(sp)
    ctx.check(len(cal) == len(shapes), what, "calibrate returned %d arrays for %d accommodated spectra" % (len(cal), len(shapes)))
    out = []
    for c, n in zip(cal, shapes):
        c = np.asarray(c, dtype=float)
        ctx.check(c.shape == (n,) and bool(np.all(np.isfinite(c))), what, lambda: "calibrated spectrum %s for %d pixels" % (_show(c), n))
        out.append(c)
    return (out, cal) if raw else out


_MAXBINS = 6000


def run_calib(case, ctx):
    lay = case["layout"]
    with ctx.cut("construct"):
        if lay["kind"] == "czerny":
            inst = build("czerny", lay["p"])
            ctx.label("layout:czerny", angle_class(lay["p"]["angle"]))
        else:
            bare = lay["mbpp"] == 1          # every default left to default
            inst = Spectrometer(tuple(list(e) for e in lay["w2p"])) if bare else Spectrometer(tuple(list(e) for e in lay["w2p"]), lay["mbpp"])
            ctx.label("layout:edges")
        edges = [[float(x) for x in e] for e in inst.wavelength_to_pixel]
    if lay["kind"] == "edges":
        ctx.check(same(edges, [[float(x) for x in e] for e in lay["w2p"]]), "edges", "wavelength_to_pixel differs from the arrays handed in")
    lo, hi = min(e[0] for e in edges), max(e[-1] for e in edges)
    widths = sorted(b - a for e in edges for a, b in zip(e[:-1], e[1:]))
    rng = case["range"]
    smin, smax, bins = lo, hi, int(case["bins"])
    if rng == "own":
        with ctx.cut("settings"):
            smin, smax, bins = float(inst.min_wavelength), float(inst.max_wavelength), int(inst.spectral_bins)
        if not (1 <= bins <= 20000 and smin <= lo and smax >= hi):      # guard against absurd settings (checked in ineq)
            smin, smax, bins = lo, hi, int(case["bins"])
    elif rng == "margin":
        smin, smax = lo - case["lo_m"], hi + case["hi_m"]
    elif rng == "pixscale":             # source bins comparable to the pixels: 0.2 .. 3 median pixel widths
        m = min(case["lo_m"], 1.0) * widths[0]
        smin, smax = lo - m, hi + m
        want = int(math.ceil((smax - smin) / (case.get("scale", 1.0) * widths[len(widths) // 2])))
        bins = max(1, min(want, _MAXBINS))
        if want > _MAXBINS:
            ctx.label("pixscale:capped")
    elif rng == "centred":              # sample points one first-pixel width apart, the first one on the lowest edge
        d = edges[0][1] - edges[0][0]
        want = int(round((hi - lo) / d)) + 1
        if want <= _MAXBINS:
            smin, smax, bins = lo - 0.5 * d, lo + (want - 0.5) * d, want
            if smax < hi:
                smax = hi
    ctx.label("range:" + rng, "spectra:%d" % len(edges), "samples:" + case["samples"]["kind"])
    wc = width_class([(a, b) for e in edges for a, b in zip(e[:-1], e[1:])])
    ctx.label("widths:" + wc)
    if lay["kind"] == "edges":
        ctx.label(*arrangement_labels("spectrometer", {"w2p": edges}))
    shapes = [len(e) - 1 for e in edges]
    delta = (smax - smin) / bins

    def spectrum(values):
        sp = Spectrum(smin, smax, bins)
        sp.samples[:] = values
        return sp

    values = make_samples(case["samples"], bins)
    sp = spectrum(values)
    xs = [float(x) for x in sp.wavelengths]
    pl = PiecewiseLinear(xs, sp.samples)
    cal, raw = _calibrate(ctx, inst, sp, "calibrate", shapes, raw=True)
    first = [c.copy() for c in cal]

    # interference / repeat: another spectrometer (other layout, built the same way) is calibrated with its own spectrum,
    # this one with spectra of more and of fewer bins; the first call is repeated right away and at the very end
    oth = case.get("other")
    if oth:
        ob = [[float(x) for x in e] for e in oth["w2p"]]
        with ctx.cut("other:construct"):
            if lay["kind"] == "edges" and lay["mbpp"] != 1:
                inst_b = Spectrometer(tuple(list(e) for e in ob), lay["mbpp"])
            else:
                inst_b = Spectrometer(tuple(list(e) for e in ob))
            sp_b = Spectrum(min(e[0] for e in ob) - 0.5, max(e[-1] for e in ob) + 0.5, int(oth["bins"]))
            sp_b.samples[:] = np.random.RandomState(int(oth["seed"])).rand(int(oth["bins"])) * 7.0
        first_b = [c.copy() for c in _calibrate(ctx, inst_b, sp_b, "other:calibrate", [len(e) - 1 for e in ob])]
        for nb in (3 * bins + 5, max(1, bins // 3)):
            big = Spectrum(smin, smax, nb)
            big.samples[:] = np.random.RandomState(int(oth["seed"]) % 1000 + nb).rand(nb)
            _calibrate(ctx, inst, big, "calibrate-other-size", shapes)
        rep = _calibrate(ctx, inst, sp, "calibrate-repeat", shapes)
        ctx.check(same(rep, first), "interference", lambda: "calibrate() after another spectrometer was used and after spectra with %d and %d bins "
                                                         "gives %s, the first time %s" % (3 * bins + 5, max(1, bins // 3), _show(rep), _show(first)))
        ctx.label("interference", "repeat:sizes")
        if lay["kind"] == "edges" and lay["mbpp"] == 1:
            ctx.label("interference:bare")

    # (a) value * width == exact integral of the spectrum over the pixel
    ints, tols = [], []
    for k, e in enumerate(edges):
        ik, tk = [], []
        for i in range(len(e) - 1):
            a, b = e[i], e[i + 1]
            exact, nk, m = pl.integral(a, b)
            w = Fraction(b) - Fraction(a)
            got = Fraction(float(cal[k][i])) * w
            tol = 4.0 * _EPS * (nk + 16) * m * float(w) + (nk + 16) * _TINY * max(1.0, float(w))
            err = float(abs(got - exact))
            ctx.check(err <= tol, "integral",
                      lambda: "spectrum %d pixel %d [%r, %r]: value*width = %r, integral of the spectrum = %r (|diff| %.3g > tol %.3g; "
                              "source range [%r, %r], %d bins)" % (k, i, a, b, float(got), float(exact), err, tol, smin, smax, bins))
            ik.append(got)
            tk.append(tol)
        ints.append(ik)
        tols.append(tk)

    # (b) additivity: the layout with adjacent pixels merged (independent of how the spectrum is interpolated)
    if any(n >= 2 for n in shapes):
        merged = [e[::2] + ([e[-1]] if (len(e) - 1) % 2 else []) for e in edges]
        with ctx.cut("construct-merged"):
            inst2 = Spectrometer(tuple(merged), 1)
        cal2 = _calibrate(ctx, inst2, sp, "calibrate-merged", [len(e) - 1 for e in merged])
        for k, e in enumerate(merged):
            for j in range(len(e) - 1):
                parts = ints[k][2 * j:2 * j + 2]
                got = Fraction(float(cal2[k][j])) * (Fraction(e[j + 1]) - Fraction(e[j]))
                tol = 2.0 * sum(tols[k][2 * j:2 * j + 2])
                err = float(abs(got - sum(parts)))
                ctx.check(err <= tol, "additive",
                          lambda: "spectrum %d: merged pixel [%r, %r] holds %r, its %d parts hold %r (|diff| %.3g > tol %.3g)"
                                  % (k, e[j], e[j + 1], float(got), len(parts), float(sum(parts)), err, tol))

    # (c) constants are preserved
    c = float(case["const"])
    calc = _calibrate(ctx, inst, spectrum(np.full(bins, c)), "calibrate-const", shapes)
    for k, e in enumerate(edges):
        nk = np.array([max(bisect.bisect_left(xs, e[i + 1]) - bisect.bisect_right(xs, e[i]), 0) for i in range(len(e) - 1)])
        bad = np.abs(calc[k] - c) > 4.0 * _EPS * (nk + 16) * c
        if bad.any():
            i = int(np.argmax(bad))
            ctx.fail("const", "constant spectrum %r: spectrum %d pixel %d [%r, %r] calibrated to %r" % (c, k, i, e[i], e[i + 1], float(calc[k][i])))

    # (d) a linear spectrum gives its value at the pixel centre (pixels between the first and last source sample)
    if bins >= 2:
        a0 = Fraction(float(case["lin_a"]))
        slope = Fraction(float(case["lin_u"])) * a0 / (Fraction(smax) - Fraction(smin))
        fsmin = Fraction(smin)
        yl = np.array([float(a0 + slope * (Fraction(x) - fsmin)) for x in xs])
        m = float(np.max(np.abs(yl)))
        call = _calibrate(ctx, inst, spectrum(yl), "calibrate-linear", shapes)
        n_lin = 0
        for k, e in enumerate(edges):
            for i in range(len(e) - 1):
                a, b = e[i], e[i + 1]
                if a < xs[0] or b > xs[-1]:
                    continue
                n_lin += 1
                want = a0 + slope * ((Fraction(a) + Fraction(b)) / 2 - fsmin)
                nk = max(bisect.bisect_left(xs, b) - bisect.bisect_right(xs, a), 0)
                err = abs(float(Fraction(float(call[k][i])) - want))
                tol = 4.0 * _EPS * (nk + 17) * m
                ctx.check(err <= tol, "linear",
                          lambda: "linear spectrum: spectrum %d pixel %d [%r, %r] calibrated to %r, value at the pixel centre is %r "
                                  "(|diff| %.3g > tol %.3g)" % (k, i, a, b, float(call[k][i]), float(want), err, tol))
        ctx.label("linear:checked" if n_lin else "linear:none-inside")

    # (e) re-use: the arrays returned by the first call are intact after 3 more calls on the same instrument, the source
    # spectrum was not touched, and repeating the first call reproduces the first result bit for bit
    for k in range(len(first)):
        ctx.check(same(np.asarray(raw[k], dtype=float), first[k]), "reuse:first-result",
                  "the arrays returned by the first calibrate() call were modified by later calls")
    ctx.check(same(np.asarray(sp.samples), values) and sp.min_wavelength == smin and sp.max_wavelength == smax and sp.bins == bins,
              "reuse:spectrum", "calibrate() modified the source spectrum")
    again = _calibrate(ctx, inst, sp, "calibrate-again", shapes)
    ctx.check(same(again, first), "reuse:repeat", lambda: "repeating the first calibrate() call gives %s, first time %s" % (_show(again), _show(first)))
    if oth:
        again_b = _calibrate(ctx, inst_b, sp_b, "other:calibrate-again", [len(e) - 1 for e in ob])
        ctx.check(same(again_b, first_b), "interference:other", lambda: "the other spectrometer: repeating its calibrate() call gives %s, first time %s"
                  % (_show(again_b), _show(first_b)))

    # classes
    una = False
    knot = False
    xset = set(xs)
    for e in edges:
        f = (np.array(e) - smin) / delta
        if np.any(np.abs(f - np.round(f)) > 1e-6):
            una = True
        if any(x in xset for x in e):
            knot = True
    ctx.label("unaligned" if una else "aligned")
    if knot:
        ctx.label("knot-on-edge")
    ctx.label("pixels:%s" % ("1" if max(shapes) == 1 else "2-8" if max(shapes) <= 8 else "9+"))
    ctx.nt(una and bins >= 2)


SUBCHECKS = {
    "hist": Machine(Hist, quick=1000, thorough=12000, steps=(20, 30), params=hist_params),
    "ineq": Given(ineq_strategy, run_ineq, quick=2400, thorough=30000),
    "calib": Given(calib_strategy, run_calib, quick=2400, thorough=30000),
}
