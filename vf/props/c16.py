"""C16 - spectroscopic instruments: the lazily cached settings follow the parameters (history property), the spectral
range covers every pixel / filter with bins no wider than narrowest pixel / min_bins, and Spectrometer.calibrate
conserves the integral of the spectrum over every pixel."""
import bisect
import math
import os
from fractions import Fraction

import numpy as np
from hypothesis import strategies as st

from ..core import Given, Machine
from ..findings import is_open

from raysect.optical import Spectrum  # noqa: E402
from cherab.tools.spectroscopy import (Spectrometer, CzernyTurnerSpectrometer, Polychromator,  # noqa: E402
                                       PolychromatorFilter, TrapezoidalFilter)

ID = "C16"
SHARDS = {"quick": 8, "thorough": 16}

# ---- known findings: ONE switch per class. While the entry is open the input class is excluded *in the generators*
# (run()/the model only obey the flag stored in the case, so the committed probe replay keeps failing until /repo is
# fixed). VERIF_C16_NO_EXCLUSIONS=1 switches the exclusion off (used to validate the proposed patch on a scratch copy).
_NOEXCL = os.environ.get("VERIF_C16_NO_EXCLUSIONS", "") == "1"
F_CT = "C16-czerny-no-pipeline-classes"    # CzernyTurnerSpectrometer: pipeline_classes / create_pipelines() raise AttributeError
F_ACC = "C16-acc-list-aliased"             # accommodated_spectra setter keeps the caller's (mutable) list
F_FIL = "C16-filters-list-aliased"         # Polychromator.filters setter keeps the caller's (mutable) list


def _open(fid):
    return (not _NOEXCL) and is_open(fid)


RULE = ("Hypothesis strategies. hist: a state machine (20-30 steps) over Spectrometer (1-3 pixel-edge arrays, 1-40 pixels, "
        "uniform / uneven / one-narrow / binary-grid widths), CzernyTurnerSpectrometer (1-3 accommodated spectra, 1-40 and "
        "survey-style up to 200 pixels) and Polychromator (1-4 TrapezoidalFilter / PolychromatorFilter objects); ops = every "
        "public setter (wavelength_to_pixel, min_bins_per_pixel, diffraction_order, grating, focal_length, pixel_spacing, "
        "diffraction_angle, accommodated_spectra, filters, min_bins_per_window, name), rejected setter values, and reads of "
        "an ordered subset of min/max_wavelength, spectral_bins, wavelengths, wavelength_to_pixel, pipeline_classes, "
        "pipeline_kwargs, create_pipelines(), calibrate(); every read is compared with an instrument constructed directly "
        "from the current parameters, either after every step or only where the history reads, and in full at the end. "
        "ineq: directly constructed instruments of the three kinds, settings read in a random order. calib: 1-3 monotone "
        "pixel-edge arrays (or a Czerny-Turner layout), source Spectrum with the instrument's own range/bins, a tight range "
        "with 1-300 bins or a range with margins, samples random / seeded / spike, plus a constant and a linear spectrum on "
        "the same binning and the layout with adjacent pixels merged. Non-trivial: hist - at least one setter applied after "
        "the cached setting (spectral range/bins or pipeline kwargs) had been read on that instrument, and which changed "
        "that setting; ineq - at least two pixels (filter windows) whose widths differ by > 1 %; calib - >= 2 source bins "
        "and at least one pixel edge that is not on a source bin edge (farther than 1e-6 bin widths).")
ASSUMPTIONS = [
    "raysect's Spectrum defines the spectrum: samples at the bin centres reported by Spectrum.wavelengths, linear "
    "interpolation between them, nearest-sample extrapolation in the outer half bins (raysect.core.math integrate docstring)",
    "an instrument constructed directly with the current parameter values (the values handed to the setters, the same "
    "filter objects) is the reference; both objects run the same arithmetic, so all comparisons are exact",
    "a setter call that raises is not a parameter change: afterwards the instrument must still equal a fresh one built "
    "from the unchanged parameters (if an invalid value is accepted nothing is claimed and the history stops comparing)",
    "a filter's window is [filter.min_wavelength, filter.max_wavelength] as the filter reports it; for the polychromator "
    "'narrowest pixel / min_bins_per_pixel' reads 'narrowest filter window / min_bins_per_window'",
    "only valid parameters are generated: Czerny-Turner sets obey 0.5*order*grating*lambda <= 0.85 cos^2(angle) over the "
    "whole layout (resolution() real and positive); candidate setter values violating it are skipped",
]
_EPS = float(np.finfo(float).eps)
_TINY = 5e-324         # spacing of subnormal numbers: absolute error of an operation whose result underflows
TOLERANCES = {
    "hist": "exact equality (same arithmetic on the same parameters in both objects)",
    "ineq.cover": "exact float comparisons (min/max of the very same floats)",
    "ineq.binwidth": "(max-min)/bins <= narrowest/min_bins*(1+1e-12), the statement's bound; the code's ceil() argument "
                     "carries <= 3 roundings (6.7e-16 relative)",
    "calib.integral": "|value*width - exact integral| <= 4 eps (K+16) M width, K = source samples inside the pixel, M = "
                      "largest |sample| touching the pixel: the trapezium sum has K+2 terms, each with <= 10 roundings "
                      "(lerp, mean, product), the running sum adds <= (K+2) eps, width and division 1.5 eps; the "
                      "reference integral and value*width are evaluated in exact rational arithmetic; + (K+16) 2^-1074 max(1, width) "
                      "for gradual underflow (samples may be subnormal)",
    "calib.additive": "sum of the per-pixel tolerances of the pixels involved",
    "calib.const": "4 eps (K+16) c",
    "calib.linear": "4 eps (K+17) M (samples of the line are correctly rounded: + eps/2 M)",
}
REQUIRED_LABELS = ["hist:kind:spectrometer", "hist:kind:czerny", "hist:kind:poly", "hist:nt:spectral", "hist:nt:kwargs",
                   "hist:rejected", "hist:mode:every_step", "hist:mode:sparse",
                   "ineq:kind:spectrometer", "ineq:kind:czerny", "ineq:kind:poly",
                   "calib:range:own", "calib:range:tight", "calib:range:margin", "calib:unaligned", "calib:aligned",
                   "calib:spectra:1", "calib:spectra:2", "calib:spectra:3", "calib:layout:czerny"]


# ------------------------------------------------------------------------------------------------ strategies
def _logu(a, b):
    return st.floats(math.log(a), math.log(b)).map(math.exp)


_strnames = st.one_of(st.text(alphabet="ab XY:_é", max_size=6), st.sampled_from(["", "spec", "MySpectrometer"]))
_names = st.one_of(_strnames, st.integers(0, 99))


@st.composite
def edges_one(draw, max_pix=40):
    cls = draw(st.sampled_from(["uniform", "uneven", "uneven", "onenarrow", "grid"]))
    n = draw(st.one_of(st.integers(1, 4), st.integers(1, max_pix)))
    if cls == "grid":                       # binary-exact edges: pixels coincide with the instrument's own bins
        lo = float(draw(st.integers(200, 1000)))
        widths = [0.25 * draw(st.integers(1, 8)) for _ in range(n)] if draw(st.booleans()) else \
            [0.25 * draw(st.integers(1, 8))] * n
    else:
        lo = draw(st.floats(200.0, 1000.0))
        if cls == "uniform":
            widths = [draw(_logu(0.01, 3.0))] * n
        elif cls == "uneven":
            base = draw(_logu(0.01, 1.0))
            widths = [base * draw(st.floats(1.0, 6.0)) for _ in range(n)]
        else:
            widths = [draw(_logu(0.02, 3.0))] * n
            widths[draw(st.integers(0, n - 1))] *= draw(st.floats(0.05, 0.9))
    e = [lo]
    for w in widths:
        e.append(e[-1] + w)
    return e


def layout(max_pix=40):
    return st.lists(edges_one(max_pix), min_size=1, max_size=3)


def ct_resolution(p, wl):
    """Pure-python copy of the documented resolution formula; used ONLY to keep generated parameter sets valid."""
    th = math.radians(p["angle"])
    mg = p["order"] * p["grating"]
    q = 0.5 * mg * wl
    d = math.cos(th) ** 2 - q * q
    if d <= 0:
        return float("nan")
    return p["pixel_spacing"] * (math.sqrt(d) - q * math.tan(th)) / (mg * p["focal_length"])


def ct_valid(p):
    c2 = math.cos(math.radians(p["angle"])) ** 2
    mg = p["order"] * p["grating"]
    for l0, n in p["acc"]:
        if 0.5 * mg * l0 > 0.85 * c2:
            return False
        r0 = ct_resolution(p, l0)                 # resolution decreases with wavelength: end <= l0 + n*r0
        if not (r0 > 0) or 0.5 * mg * (l0 + n * r0) > 0.85 * c2:
            return False
    return True


_ct_order = st.sampled_from([1, 1, 2, 3])
_ct_angle = st.floats(1.0, 30.0)


def _ct_grating():
    return _logu(1e-4, 2e-3)


def _ct_focal():
    return _logu(0.3e9, 1.5e9)


def _ct_spacing():
    return _logu(0.5e4, 3e4)


def _ct_acc():
    pix = st.one_of(st.integers(1, 8), st.integers(1, 40), st.integers(1, 40), st.integers(41, 200))
    return st.lists(st.tuples(st.floats(300.0, 700.0), pix).map(list), min_size=1, max_size=3)


@st.composite
def czerny_params(draw, small=False):
    p = {"order": draw(_ct_order), "grating": draw(_ct_grating()), "focal_length": draw(_ct_focal()),
         "pixel_spacing": draw(_ct_spacing()), "angle": draw(_ct_angle), "acc": draw(_ct_acc()),
         "mbpp": draw(st.integers(1, 8)), "name": draw(_names)}
    if small:
        p["acc"] = [[l0, min(n, 40)] for l0, n in p["acc"]]
    if not ct_valid(p):                          # by construction: order 1 and grating <= 1e-3 is always valid here
        p["order"], p["grating"] = 1, min(p["grating"], 1e-3)
    if not ct_valid(p):                          # cannot happen (0.5*P*l0 + 0.5*n*spacing/focal <= 0.36); keeps run() safe
        p.update(order=1, grating=2e-3, focal_length=1e9, pixel_spacing=2e4, angle=10.0, acc=[[400.0, 8]])
    return p


@st.composite
def filter_spec(draw):
    if draw(st.booleans()):
        w = draw(_logu(0.2, 20.0))
        ft = draw(st.one_of(st.none(), st.floats(0.05, 1.0)))
        return {"t": "trap", "c": draw(st.floats(300.0, 900.0)), "w": w, "ft": None if ft is None else ft * w,
                "name": draw(_strnames)}
    n = draw(st.integers(2, 6))
    wl = [draw(st.floats(300.0, 900.0))]
    for _ in range(n - 1):
        wl.append(wl[-1] + draw(_logu(0.05, 5.0)))
    s = [draw(st.sampled_from([0.0, 1.0, 0.5]) | st.floats(0.0, 1.0)) for _ in range(n)]
    s[draw(st.integers(0, n - 1))] = draw(st.floats(0.05, 1.0))          # never identically zero
    perm = draw(st.permutations(list(range(n))))
    return {"t": "gen", "wl": [wl[i] for i in perm], "s": [s[i] for i in perm], "norm": draw(st.booleans()),
            "name": draw(_strnames)}


def _filters():
    return st.lists(filter_spec(), min_size=1, max_size=4)


@st.composite
def instrument_params(draw, kind=None):
    kind = kind or draw(st.sampled_from(["spectrometer", "czerny", "poly", "poly"]))
    if kind == "spectrometer":
        p = {"w2p": draw(layout()), "mbpp": draw(st.integers(1, 8)), "name": draw(_names)}
    elif kind == "czerny":
        p = draw(czerny_params())
    else:
        p = {"filters": draw(_filters()), "mbw": draw(st.integers(1, 30)), "name": draw(_names)}
    return {"kind": kind, "p": p, "pipes": not (kind == "czerny" and _open(F_CT))}


# ------------------------------------------------------------------------------------------------ builders / observation
def build_filter(s):
    if s["t"] == "trap":
        return TrapezoidalFilter(s["c"], s["w"], s["ft"], s["name"])
    return PolychromatorFilter(list(s["wl"]), list(s["s"]), normalise=bool(s["norm"]), name=s["name"])


def _acc(acc):
    return tuple((float(a), int(b)) for a, b in acc)


def build(kind, p, filters=None):
    if kind == "spectrometer":
        return Spectrometer(tuple(list(e) for e in p["w2p"]), p["mbpp"], p["name"])
    if kind == "czerny":
        return CzernyTurnerSpectrometer(p["order"], p["grating"], p["focal_length"], p["pixel_spacing"], p["angle"],
                                        _acc(p["acc"]), p["mbpp"], p["name"])
    return Polychromator(list(filters), p["mbw"], p["name"])


SPECTRAL = ("min_wavelength", "max_wavelength", "spectral_bins")
READS_ALL = ["min_wavelength", "max_wavelength", "spectral_bins", "pipeline_kwargs", "pipeline_classes",
             "create_pipelines", "wavelengths", "wavelength_to_pixel", "calibrate", "params"]
GETTERS = {"spectrometer": ["min_bins_per_pixel", "name"],
           "czerny": ["min_bins_per_pixel", "name", "diffraction_order", "grating", "focal_length", "pixel_spacing",
                      "diffraction_angle"],
           "poly": ["min_bins_per_window", "name"]}


def applicable(kind, pipes, what):
    if what in ("wavelengths", "wavelength_to_pixel", "calibrate"):
        return kind != "poly"
    if what in ("pipeline_classes", "create_pipelines"):
        return pipes
    return True


def read_one(inst, kind, what, aux):
    """One observation of the instrument as a comparable python value (called inside ctx.cut)."""
    if what in SPECTRAL:
        v = getattr(inst, what)
        return int(v) if what == "spectral_bins" else float(v)
    if what == "pipeline_kwargs":
        return [dict(d) for d in inst.pipeline_kwargs]
    if what == "pipeline_classes":
        return list(inst.pipeline_classes)
    if what == "create_pipelines":
        return [(type(q), q.name, getattr(q, "filter", None)) for q in inst.create_pipelines()]
    if what in ("wavelengths", "wavelength_to_pixel"):
        return [np.array(a, dtype=float) for a in getattr(inst, what)]
    if what == "calibrate":
        return [np.array(a, dtype=float) for a in inst.calibrate(aux)]
    out = [getattr(inst, g) for g in GETTERS[kind]]
    if kind == "czerny":
        out.append([[float(a), int(b)] for a, b in inst.accommodated_spectra])
    if kind == "poly":
        out.append([id(f) for f in inst.filters])
    return out


def same(a, b):
    if isinstance(a, (list, tuple)) and isinstance(b, (list, tuple)):
        return len(a) == len(b) and all(same(x, y) for x, y in zip(a, b))
    if isinstance(a, np.ndarray) or isinstance(b, np.ndarray):
        a, b = np.asarray(a), np.asarray(b)
        return a.shape == b.shape and bool(np.array_equal(a, b))
    if isinstance(a, dict) and isinstance(b, dict):
        return sorted(a) == sorted(b) and all(same(a[k], b[k]) for k in a)
    if isinstance(a, float) and isinstance(b, float):
        return a == b
    return type(a) == type(b) and (a is b or a == b)


def _show(v):
    s = repr(v)
    return s if len(s) < 300 else s[:300] + "..."


def calib_spectrum(fresh, seed):
    """Spectrum over the range a correct instrument reports, seeded samples (used by the 'calibrate' read)."""
    nb = 1 + int(seed) % 97
    sp = Spectrum(float(fresh.min_wavelength), float(fresh.max_wavelength), nb)
    sp.samples[:] = np.random.RandomState(int(seed) % (2 ** 31)).rand(nb)
    return sp


def widths_of(inst, kind, filters):
    """list of (lo, hi) of every pixel (spectrometers) or filter window (polychromator)."""
    if kind == "poly":
        return [(float(f.min_wavelength), float(f.max_wavelength)) for f in filters]
    out = []
    for e in inst.wavelength_to_pixel:
        e = np.asarray(e, dtype=float)
        out.extend(zip(e[:-1].tolist(), e[1:].tolist()))
    return out


def check_ineq(ctx, inst, kind, p, filters, what):
    with ctx.cut(what + ":read"):
        mn, mx, bins = float(inst.min_wavelength), float(inst.max_wavelength), inst.spectral_bins
        cells = widths_of(inst, kind, filters)
    if kind == "spectrometer":      # the arrays handed in, not only the ones the instrument reports
        cells = cells + [(float(a), float(b)) for e in p["w2p"] for a, b in zip(e[:-1], e[1:])]
    nb = p["mbw"] if kind == "poly" else p["mbpp"]
    ctx.check(isinstance(bins, (int, np.integer)) and bins >= 1, what + ":bins", "spectral_bins = %r" % (bins,))
    ctx.check(math.isfinite(mn) and math.isfinite(mx) and 0 < mn < mx, what + ":range", "spectral range (%r, %r)" % (mn, mx))
    for lo, hi in cells:
        ctx.check(mn <= lo and hi <= mx, what + ":cover",
                  lambda: "spectral range [%r, %r] does not cover the %s [%r, %r]"
                  % (mn, mx, "filter window" if kind == "poly" else "pixel", lo, hi))
    narrow = min(hi - lo for lo, hi in cells)
    step = (mx - mn) / int(bins)
    ctx.check(step <= narrow / nb * (1.0 + 1e-12), what + ":binwidth",
              lambda: "bin width (max-min)/bins = (%r-%r)/%d = %r exceeds narrowest %s %r / min_bins %d = %r"
              % (mx, mn, bins, step, "window" if kind == "poly" else "pixel", narrow, nb, narrow / nb))
    return cells


def uneven(cells):
    w = [hi - lo for lo, hi in cells]
    return len(w) >= 2 and max(w) > 1.01 * min(w)


# ------------------------------------------------------------------------------------------------ 1. histories
def _read_args():
    return st.fixed_dictionaries({"what": st.lists(st.sampled_from(READS_ALL), min_size=1, max_size=4, unique=True),
                                  "seed": st.integers(0, 10 ** 6)})


@st.composite
def hist_params(draw):
    d = draw(instrument_params())
    d["every_step"] = draw(st.booleans())
    return d


INVALID = {
    "spectrometer": [("wavelength_to_pixel", [[400.0, 401.0, 401.0]]), ("wavelength_to_pixel", [[400.0, 402.0], [500.0]]),
                     ("wavelength_to_pixel", [[400.0, 399.0]]), ("wavelength_to_pixel", [[[400.0, 401.0]]]),
                     ("min_bins_per_pixel", 0), ("min_bins_per_pixel", -2)],
    "czerny": [("diffraction_order", 0), ("grating", -1e-3), ("grating", 0.0), ("focal_length", 0.0), ("pixel_spacing", -2e4),
               ("diffraction_angle", 0.0), ("diffraction_angle", -5.0), ("accommodated_spectra", ((400.0, 8), (-500.0, 8))),
               ("accommodated_spectra", ((400.0, 8), (500.0, 0))), ("min_bins_per_pixel", 0)],
    "poly": [("min_bins_per_window", 0), ("min_bins_per_window", -1), ("filters", "FILTER+INT"), ("filters", ["not a filter"])],
}


class Hist:
    """Real instrument + dict of its current parameters; reads are compared with an instrument freshly constructed
    from the dict (the same filter objects)."""
    OPS = {
        "read": _read_args,
        "set_name": lambda: _names,
        "set_min_bins": lambda: st.integers(1, 30),
        "set_w2p": layout,
        "set_order": lambda: _ct_order,
        "set_grating": _ct_grating,
        "set_focal_length": _ct_focal,
        "set_pixel_spacing": _ct_spacing,
        "set_angle": lambda: _ct_angle,
        "set_acc": _ct_acc,
        "set_filters": _filters,
        "set_invalid": lambda: st.integers(0, 59),
    }

    def __init__(self, ctx, params):
        self.ctx = ctx
        self.kind = params["kind"]
        self.p = {k: v for k, v in params["p"].items()}
        self.pipes = bool(params.get("pipes", True))
        self.every = bool(params.get("every_step", True))
        self.filters = None
        self.inst = None
        self.dead = False
        self.cached = {"spectral": False, "kwargs": False}
        self.exp = None
        self.n_eff = {"spectral": 0, "kwargs": 0}
        self.names = set()
        self.n_rejected = self.n_skipped = 0

    # -- plumbing
    def _fresh(self):
        with self.ctx.cut("construct-fresh"):
            return build(self.kind, self.p, self.filters)

    def _expected(self):
        f = self._fresh()
        with self.ctx.cut("fresh:settings"):
            return {"spectral": [read_one(f, self.kind, w, None) for w in SPECTRAL],
                    "kwargs": read_one(f, self.kind, "pipeline_kwargs", None)}

    def _ensure(self):
        """Construction is done lazily inside the first step (a Violation raised from __init__ would lose the case)."""
        if self.inst is not None:
            return
        with self.ctx.cut("construct"):
            if self.kind == "poly":
                self.filters = [build_filter(s) for s in self.p["filters"]]
            self.inst = build(self.kind, self.p, self.filters)
        self.exp = self._expected()

    def close(self):
        self.inst = self.filters = None

    def _hist(self):
        return "[history: setters %s; current parameters %s]" % (sorted(self.names), _show(self.p))

    def _read(self, whats, seed):
        ctx, kind = self.ctx, self.kind
        fresh = self._fresh()
        aux = None
        if "calibrate" in whats and kind != "poly":
            with ctx.cut("fresh:range"):
                aux = calib_spectrum(build(kind, self.p, self.filters), seed)
        for w in whats:
            if not applicable(kind, self.pipes, w):
                continue
            with ctx.cut("read:" + w):
                got = read_one(self.inst, kind, w, aux)
            with ctx.cut("fresh:" + w):
                want = read_one(fresh, kind, w, aux)
            ctx.check(same(got, want), "%s:%s" % (kind, w),
                      lambda: "%s is %s, a freshly constructed instrument gives %s %s" % (w, _show(got), _show(want), self._hist()))
            if w in SPECTRAL or w == "calibrate":
                self.cached["spectral"] = True
            if w in ("pipeline_kwargs", "create_pipelines"):
                self.cached["kwargs"] = True

    def _full(self):
        self._read([w for w in READS_ALL], 12345)
        check_ineq(self.ctx, self.inst, self.kind, self.p, self.filters, self.kind + ":ineq")

    def invariant(self):
        if self.inst is None:
            self._ensure()
        if self.every and not self.dead:
            self._full()

    def finish(self):
        self._ensure()
        ctx = self.ctx
        if not self.dead:
            self._full()
        ctx.label("kind:" + self.kind, "mode:every_step" if self.every else "mode:sparse")
        if self.kind == "czerny" and not self.pipes:
            ctx.label("excluded_known")
        for n in sorted(self.names):
            ctx.label("set:%s.%s" % (self.kind, n))
        for k, n in self.n_eff.items():
            if n:
                ctx.label("nt:" + k)
        if self.n_rejected:
            ctx.label("rejected")
        if self.n_skipped:
            ctx.label("skipped_invalid_combination")
        if self.dead:
            ctx.label("invalid_value_accepted")
        ctx.nt(sum(self.n_eff.values()) >= 1)

    # -- setters
    def _set(self, attr, key, value, arg_for_setter=None):
        """setattr(inst, attr, value) on the real object, p[key] = value in the model, then bookkeeping for the RULE."""
        self._ensure()
        if self.dead:
            return
        with self.ctx.cut("set:" + attr):
            setattr(self.inst, attr, value if arg_for_setter is None else arg_for_setter)
        self.p[key] = value
        self.names.add(attr)
        new = self._expected()
        for k in ("spectral", "kwargs"):
            if not same(new[k], self.exp[k]):
                if self.cached[k]:
                    self.n_eff[k] += 1
                self.cached[k] = False
        self.exp = new

    def do_read(self, arg):
        self._ensure()
        if not self.dead:
            self._read(list(arg["what"]), arg["seed"])

    def do_set_name(self, arg):
        self._set("name", "name", arg)

    def do_set_min_bins(self, arg):
        if self.kind == "poly":
            self._set("min_bins_per_window", "mbw", int(arg))
        else:
            self._set("min_bins_per_pixel", "mbpp", 1 + (int(arg) - 1) % 8)

    def pre_set_w2p(self):
        return self.kind == "spectrometer"

    def do_set_w2p(self, arg):
        w2p = [list(e) for e in arg]
        self._set("wavelength_to_pixel", "w2p", w2p, arg_for_setter=tuple(list(e) for e in w2p))

    def _set_ct(self, attr, key, value):
        self._ensure()
        trial = dict(self.p)
        trial[key] = value
        if not ct_valid(trial):
            self.n_skipped += 1
            return
        if key == "acc":
            self._set(attr, key, [list(x) for x in value], arg_for_setter=_acc(value))
        else:
            self._set(attr, key, value)

    def pre_set_filters(self):
        return self.kind == "poly"

    def do_set_filters(self, arg):
        self._ensure()
        if self.dead:
            return
        with self.ctx.cut("construct-filter"):
            new = [build_filter(s) for s in arg]
        self.filters = new
        self._set("filters", "filters", [dict(s) for s in arg], arg_for_setter=list(new))

    def do_set_invalid(self, arg):
        self._ensure()
        if self.dead:
            return
        attr, value = INVALID[self.kind][int(arg) % len(INVALID[self.kind])]
        if value == "FILTER+INT":
            value = [self.filters[0], 5]
        try:
            setattr(self.inst, attr, value)
        except Exception:   # noqa - a rejected value: parameters unchanged, compared below / at the next read
            self.n_rejected += 1
            self._read([w for w in READS_ALL], 777)
            return
        self.dead = True     # invalid value accepted: no "final parameters" are defined, nothing more is claimed


def _install_ct():
    for op, attr, key in (("set_order", "diffraction_order", "order"), ("set_grating", "grating", "grating"),
                          ("set_focal_length", "focal_length", "focal_length"), ("set_pixel_spacing", "pixel_spacing", "pixel_spacing"),
                          ("set_angle", "diffraction_angle", "angle"), ("set_acc", "accommodated_spectra", "acc")):
        setattr(Hist, "do_" + op, (lambda self, arg, attr=attr, key=key: self._set_ct(attr, key, arg)))
        setattr(Hist, "pre_" + op, (lambda self: self.kind == "czerny"))


_install_ct()


# ------------------------------------------------------------------------------------------------ 2. inequalities
@st.composite
def ineq_strategy(draw):
    d = draw(instrument_params())
    d["order"] = draw(st.permutations(list(SPECTRAL)))
    return d


def run_ineq(case, ctx):
    kind, p, pipes = case["kind"], case["p"], bool(case.get("pipes", True))
    ctx.label("kind:" + kind)
    filters = None
    with ctx.cut("construct"):
        if kind == "poly":
            filters = [build_filter(s) for s in p["filters"]]
        a = build(kind, p, filters)
        b = build(kind, p, filters)
    with ctx.cut("read"):
        got = {w: read_one(a, kind, w, None) for w in case["order"]}      # settings read in the drawn order
    cells = check_ineq(ctx, a, kind, p, filters, kind)
    for w in READS_ALL:
        if w == "calibrate" or not applicable(kind, pipes, w):
            continue
        with ctx.cut("read:" + w):
            x, y = read_one(a, kind, w, None), read_one(b, kind, w, None)
        ctx.check(same(x, y), kind + ":" + w, lambda: "two instruments built from the same parameters differ in %s: %s / %s" % (w, _show(x), _show(y)))
        if w in got:
            ctx.check(same(got[w], x), kind + ":order:" + w, lambda: "%s depends on the order of reading: %s / %s" % (w, _show(got[w]), _show(x)))
    if kind == "czerny" and not pipes:
        ctx.label("excluded_known")
    ctx.label("uneven" if uneven(cells) else "even")
    ctx.nt(uneven(cells))


# ------------------------------------------------------------------------------------------------ 3. calibration
@st.composite
def calib_strategy(draw):
    if draw(st.integers(0, 5)) == 0:
        lay = {"kind": "czerny", "p": draw(czerny_params(small=True))}
        est = 10 ** 9
    else:
        w2p = draw(layout())
        mbpp = draw(st.integers(1, 5))
        lay = {"kind": "edges", "w2p": w2p, "mbpp": mbpp}
        narrow = min(b - a for e in w2p for a, b in zip(e[:-1], e[1:]))
        est = (max(e[-1] for e in w2p) - min(e[0] for e in w2p)) / (narrow / mbpp)     # size guard only
    rng = draw(st.sampled_from(["own", "tight", "tight", "margin", "margin"]))
    if rng == "own" and est > 1500:
        rng = "tight"
    bins = draw(st.one_of(st.integers(1, 6), st.integers(1, 60), st.integers(1, 300)))
    sk = draw(st.sampled_from(["list", "rng", "rng", "spike"]))
    if sk == "list" and rng != "own":
        hi = draw(_logu(1e-3, 1e6))
        samples = {"kind": "list", "values": [draw(st.floats(0.0, 1.0)) * hi for _ in range(bins)]}
    elif sk == "spike":
        samples = {"kind": "spike", "u": draw(st.floats(0.0, 0.999)), "v": draw(_logu(1e-3, 1e6)), "bg": draw(st.sampled_from([0.0, 1.0]))}
    else:
        samples = {"kind": "rng", "seed": draw(st.integers(0, 2 ** 31 - 1)), "hi": draw(_logu(1e-3, 1e6))}
    return {"layout": lay, "range": rng, "lo_m": draw(_logu(1e-3, 50.0)), "hi_m": draw(_logu(1e-3, 50.0)), "bins": bins,
            "samples": samples, "const": draw(_logu(1e-6, 1e6)), "lin_a": draw(st.floats(0.1, 10.0)), "lin_u": draw(st.floats(-0.9, 3.0))}


class PiecewiseLinear:
    """The spectrum as raysect defines it, integrated exactly (rational arithmetic on the float knots/samples)."""

    def __init__(self, xs, ys):
        self.xs = [float(x) for x in xs]
        self.ys = [float(y) for y in ys]
        self._fx, self._fy = {}, {}

    def X(self, i):
        v = self._fx.get(i)
        if v is None:
            v = self._fx[i] = Fraction(self.xs[i])
        return v

    def Y(self, i):
        v = self._fy.get(i)
        if v is None:
            v = self._fy[i] = Fraction(self.ys[i])
        return v

    def value(self, t):
        """exact value at the float t"""
        xs = self.xs
        if t <= xs[0]:
            return self.Y(0)
        if t >= xs[-1]:
            return self.Y(len(xs) - 1)
        k = bisect.bisect_right(xs, t) - 1
        return self.Y(k) + (self.Y(k + 1) - self.Y(k)) * (Fraction(t) - self.X(k)) / (self.X(k + 1) - self.X(k))

    def integral(self, a, b):
        """(exact integral over [a, b], number of knots strictly inside, max |sample| touching [a, b])"""
        xs = self.xs
        i0, i1 = bisect.bisect_right(xs, a), bisect.bisect_left(xs, b)
        pts = [(Fraction(a), self.value(a))] + [(self.X(i), self.Y(i)) for i in range(i0, i1)] + [(Fraction(b), self.value(b))]
        tot = Fraction(0)
        for (p, fp), (q, fq) in zip(pts, pts[1:]):
            tot += (fp + fq) * (q - p) / 2
        lo, hi = max(i0 - 1, 0), min(max(i1, i0), len(xs) - 1)
        return tot, max(i1 - i0, 0), max(abs(y) for y in self.ys[lo:hi + 1])


def make_samples(spec, n):
    k = spec["kind"]
    if k == "list":
        v = np.array(spec["values"], dtype=float)
        return v if v.size == n else np.resize(v, n)
    if k == "spike":
        v = np.full(n, float(spec["bg"]))
        v[min(n - 1, int(spec["u"] * n))] = spec["v"]
        return v
    return np.random.RandomState(int(spec["seed"])).rand(n) * spec["hi"]


def _calibrate(ctx, inst, sp, what, shapes):
    with ctx.cut(what):
        cal = inst.calibrate(sp)
    ctx.check(len(cal) == len(shapes), what, "calibrate returned %d arrays for %d accommodated spectra" % (len(cal), len(shapes)))
    out = []
    for c, n in zip(cal, shapes):
        c = np.asarray(c, dtype=float)
        ctx.check(c.shape == (n,) and bool(np.all(np.isfinite(c))), what, lambda: "calibrated spectrum %s for %d pixels" % (_show(c), n))
        out.append(c)
    return out


def run_calib(case, ctx):
    lay = case["layout"]
    with ctx.cut("construct"):
        if lay["kind"] == "czerny":
            inst = build("czerny", lay["p"])
            ctx.label("layout:czerny")
        else:
            inst = Spectrometer(tuple(list(e) for e in lay["w2p"]), lay["mbpp"])
            ctx.label("layout:edges")
        edges = [[float(x) for x in e] for e in inst.wavelength_to_pixel]
    if lay["kind"] == "edges":
        ctx.check(same(edges, [[float(x) for x in e] for e in lay["w2p"]]), "edges", "wavelength_to_pixel differs from the arrays handed in")
    lo, hi = min(e[0] for e in edges), max(e[-1] for e in edges)
    rng = case["range"]
    if rng == "own":
        with ctx.cut("settings"):
            smin, smax, bins = float(inst.min_wavelength), float(inst.max_wavelength), int(inst.spectral_bins)
        if not (1 <= bins <= 20000 and smin <= lo and smax >= hi):      # guard against absurd settings (checked in ineq)
            smin, smax, bins = lo, hi, int(case["bins"])
    elif rng == "tight":
        smin, smax, bins = lo, hi, int(case["bins"])
    else:
        smin, smax, bins = lo - case["lo_m"], hi + case["hi_m"], int(case["bins"])
    ctx.label("range:" + rng, "spectra:%d" % len(edges), "samples:" + case["samples"]["kind"])
    shapes = [len(e) - 1 for e in edges]
    delta = (smax - smin) / bins

    def spectrum(values):
        sp = Spectrum(smin, smax, bins)
        sp.samples[:] = values
        return sp

    sp = spectrum(make_samples(case["samples"], bins))
    xs = [float(x) for x in sp.wavelengths]
    pl = PiecewiseLinear(xs, sp.samples)
    cal = _calibrate(ctx, inst, sp, "calibrate", shapes)

    # (a) value * width == exact integral of the spectrum over the pixel
    ints, tols = [], []
    for k, e in enumerate(edges):
        ik, tk = [], []
        for i in range(len(e) - 1):
            a, b = e[i], e[i + 1]
            exact, nk, m = pl.integral(a, b)
            w = Fraction(b) - Fraction(a)
            got = Fraction(float(cal[k][i])) * w
            tol = 4.0 * _EPS * (nk + 16) * m * float(w) + (nk + 16) * _TINY * max(1.0, float(w))
            err = float(abs(got - exact))
            ctx.check(err <= tol, "integral",
                      lambda: "spectrum %d pixel %d [%r, %r]: value*width = %r, integral of the spectrum = %r (|diff| %.3g > tol %.3g; "
                              "source range [%r, %r], %d bins)" % (k, i, a, b, float(got), float(exact), err, tol, smin, smax, bins))
            ik.append(got)
            tk.append(tol)
        ints.append(ik)
        tols.append(tk)

    # (b) additivity: the layout with adjacent pixels merged (independent of how the spectrum is interpolated)
    if any(n >= 2 for n in shapes):
        merged = [e[::2] + ([e[-1]] if (len(e) - 1) % 2 else []) for e in edges]
        with ctx.cut("construct-merged"):
            inst2 = Spectrometer(tuple(merged), 1)
        cal2 = _calibrate(ctx, inst2, sp, "calibrate-merged", [len(e) - 1 for e in merged])
        for k, e in enumerate(merged):
            for j in range(len(e) - 1):
                parts = ints[k][2 * j:2 * j + 2]
                got = Fraction(float(cal2[k][j])) * (Fraction(e[j + 1]) - Fraction(e[j]))
                tol = 2.0 * sum(tols[k][2 * j:2 * j + 2])
                err = float(abs(got - sum(parts)))
                ctx.check(err <= tol, "additive",
                          lambda: "spectrum %d: merged pixel [%r, %r] holds %r, its %d parts hold %r (|diff| %.3g > tol %.3g)"
                                  % (k, e[j], e[j + 1], float(got), len(parts), float(sum(parts)), err, tol))

    # (c) constants are preserved
    c = float(case["const"])
    calc = _calibrate(ctx, inst, spectrum(np.full(bins, c)), "calibrate-const", shapes)
    for k, e in enumerate(edges):
        nk = np.array([max(bisect.bisect_left(xs, e[i + 1]) - bisect.bisect_right(xs, e[i]), 0) for i in range(len(e) - 1)])
        bad = np.abs(calc[k] - c) > 4.0 * _EPS * (nk + 16) * c
        if bad.any():
            i = int(np.argmax(bad))
            ctx.fail("const", "constant spectrum %r: spectrum %d pixel %d [%r, %r] calibrated to %r" % (c, k, i, e[i], e[i + 1], float(calc[k][i])))

    # (d) a linear spectrum gives its value at the pixel centre (pixels between the first and last source sample)
    if bins >= 2:
        a0 = Fraction(float(case["lin_a"]))
        slope = Fraction(float(case["lin_u"])) * a0 / (Fraction(smax) - Fraction(smin))
        line = [a0 + slope * (Fraction(x) - Fraction(smin)) for x in xs]
        yl = np.array([float(v) for v in line])
        m = float(np.max(np.abs(yl)))
        call = _calibrate(ctx, inst, spectrum(yl), "calibrate-linear", shapes)
        n_lin = 0
        for k, e in enumerate(edges):
            for i in range(len(e) - 1):
                a, b = e[i], e[i + 1]
                if a < xs[0] or b > xs[-1]:
                    continue
                n_lin += 1
                want = a0 + slope * ((Fraction(a) + Fraction(b)) / 2 - Fraction(smin))
                nk = max(bisect.bisect_left(xs, b) - bisect.bisect_right(xs, a), 0)
                err = abs(float(Fraction(float(call[k][i])) - want))
                tol = 4.0 * _EPS * (nk + 17) * m
                ctx.check(err <= tol, "linear",
                          lambda: "linear spectrum: spectrum %d pixel %d [%r, %r] calibrated to %r, value at the pixel centre is %r "
                                  "(|diff| %.3g > tol %.3g)" % (k, i, a, b, float(call[k][i]), float(want), err, tol))
        ctx.label("linear:checked" if n_lin else "linear:none-inside")

    # classes
    una = False
    for e in edges:
        f = (np.array(e) - smin) / delta
        if np.any(np.abs(f - np.round(f)) > 1e-6):
            una = True
    ctx.label("unaligned" if una else "aligned")
    ctx.label("pixels:%s" % ("1" if max(shapes) == 1 else "2-8" if max(shapes) <= 8 else "9+"))
    ctx.nt(una and bins >= 2)


SUBCHECKS = {
    "hist": Machine(Hist, quick=1200, thorough=15000, steps=(20, 30), params=hist_params),
    "ineq": Given(ineq_strategy, run_ineq, quick=3000, thorough=40000),
    "calib": Given(calib_strategy, run_calib, quick=2400, thorough=30000),
}
