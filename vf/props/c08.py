"""C08 - ADF parsers return the file's numbers under the documented conventions (inputs property).

case (JSON file description + call forms) -> independent writer (vf/oracles/adf_writers.py) -> text file in a temp ADAS tree
  -> parse_adfXX                      == the written numbers (file units, documented axis order / block keys)
  -> install_adfXX / install_files    -> repository.get_* == the written numbers after the documented conversions
  -> re-use: a second file parsed / installed in between, first results intact, repeated calls bit-identical, returned
     arrays not aliased, source file and caller's configuration untouched
  -> nothing may appear under $HOME (redirected before cherab.openadas is imported) unless repository_path was omitted
"""
import atexit
import contextlib
import io
import os
import shutil
import tempfile

import numpy as np
from hypothesis import strategies as st

from ..core import Given, deep
from ..findings import is_open
from ..oracles import adf_writers as W

# HOME is redirected *before* cherab.openadas is imported: the default repository path is computed at import time, so
# an install_* that forgets to pass repository_path on lands in this scratch HOME and is seen by _no_stray().
_SCRATCH_HOME = tempfile.mkdtemp(prefix="vf_c08_home_")
os.environ["HOME"] = _SCRATCH_HOME
atexit.register(shutil.rmtree, _SCRATCH_HOME, True)

from cherab.core.atomic import elements as E  # noqa: E402
from cherab.openadas import install as I  # noqa: E402
from cherab.openadas import parse as P  # noqa: E402
from cherab.openadas import repository as R  # noqa: E402
from cherab.openadas.parse import utility as U  # noqa: E402

ID = "C08"
SHARDS = {"quick": 8, "thorough": 16}
DEFAULT_ROOT = os.path.join(_SCRATCH_HOME, ".cherab", "openadas", "repository")

# Open findings whose input class is excluded by construction in the generators while open.  VERIF_NO_EXCLUDE=<id>[,<id>]
# (or "all") switches an exclusion off by hand (to confirm a proposed fix on a scratch copy); it can only make the check stricter.
_NOEX = set(filter(None, os.environ.get("VERIF_NO_EXCLUDE", "").split(",")))


def _excluded(fid):
    return is_open(fid) and not (fid in _NOEX or "all" in _NOEX)


EXCLUDE_LINE4 = _excluded("C08-adf11-negative-line4")      # unresolved ADF11, <= 8 densities, first log10(Te) < 0
EXCLUDE_CHEXC = _excluded("C08-adf15-chexc-default-repo")  # install_adf15 of a file holding CHEXC blocks
EXCLUDE_HEADER = _excluded("C08-header-unchecked")         # adf12/15/21/22 file requested under another element / charge

RULE = ("One case = JSON description of one ADAS file plus the call forms: format/class, species (elements; isotopes where the API "
        "documents Element/Isotope), grid sizes drawn from 1..40 (uniform mixed with 1,2,7,8,9,15,16,17,24,25,32,33,40), 1..Z "
        "charge-state blocks (ADF11; any Z1 sub-range; a quarter of the cases force >= 10 blocks, i.e. two-digit Z1) or 1..8 "
        "(ADF15) / 1..6 (ADF12) transition blocks, header style variants, value mode (random / constant / ties / edge values "
        "-99.99999, 0, 99.99999) and an integer seed; every number of the file is a pure function (splitmix64) of the seed, drawn "
        "on the lattice of the printed precision (F10.5: k*1e-5; 1PE9.2 / 1PD10.2 / 1PE10.3: integer mantissa and exponent), so the "
        "text is exact. Call forms: install_adf* directly (keyword or positional arguments) or through install_files (key in "
        "lower/upper/mixed case), download omitted / False / True with the file under adas_path / True with the file only in "
        "<repository>/_download_cache (the cache copy is used, no network) / True with the file under adas_path AND a stale copy "
        "with other numbers under the same relative path in the cache (the adas_path file must win), repository_path explicit or omitted (default under the scratch HOME), charges as int or "
        "numpy.int64, transitions as ints or strings. Sub-checks: adf11 (scd/acd/ccd/plt/prb/prc, resolved and unresolved, ccd "
        "donors H/D/He), adf15 (hydrogen / hydrogen-like / full-configuration comment index, auto-detected or forced with "
        "header_format - also against the automatic choice -, EXCIT/RECOM/CHEXC; index wavelengths with 1-5 integer digits and 1-4 decimals of an Angstrom in every style), adf12, adf2x (adf21, adf22 bmp, adf22 bme, "
        "parse_adas2x_rate and readvalues called directly), negative (ADF11 header mismatch: other element / name only / Z only / "
        "isotope requested for an element file; ADF15 index entry without data block; file_path that does not exist for each of "
        "the 11 install_* and install_files; and - generated only while finding C08-header-unchecked is not open - an "
        "ADF12/15/21/22 file requested under another element or charge than its header states: parse_* and install_* must raise, "
        "the repository must stay empty). Every positive case checks parse_adf*, install + repository.get_* (+ RuntimeError for "
        "neighbouring absent keys), then a second, different file is parsed and installed (ADF11: into the same repository, "
        "disjoint Z1 range of the same class when there is room) and the first file's parse result and repository tables must be "
        "intact, a repeated parse / get bit-identical, returned arrays unaliased (poisoned, then re-read), the source file's bytes "
        "and the install_files configuration unchanged, and $HOME empty whenever repository_path was given. Interference: the second file B (its sizes, block count and seed are part "
        "of the case; bigger or smaller than A) is parsed before or after A ('first'), both are parsed again (X, Y, X, Y): first use "
        "of each matches the oracle, first-round results intact, repeats bit-identical and unaliased; B is installed into a second "
        "repository before A's first install when first = B; finally two repositories alternately (B -> repo2, A -> its repository "
        "again, B -> repo3): repo2 and repo3 must be byte-identical, hold B's tables and none of A's keys, A's repository must read "
        "back bit-identically. Non-trivial = a grid "
        "size that is not a multiple of the per-line count (8; ADF12: 6), or >= 2 blocks, or a resolved ADF11 file, or first "
        "temperature < 1 eV (negative log10).")
ASSUMPTIONS = ["the writers reproduce the published ADAS FORMAT statements; no real ADAS file is available offline",
               "header lines of ADF12/21/22, the ADF15 block header and the ADF15 comment index are reconstructed and agree with the "
               "parser's column constants / regexes by construction (corroborated by, not independent of, the parser)",
               "resolved ADF11 files carry one (IPRT, IGRD) block per Z1 (the parser's output has no metastable axis)",
               "ADF11 log10 values stay within F10.5 with a blank separator (|x| < 100); ADF12/21/22 numbers are positive",
               "every ADF file ends with the customary 'C----' comment trailer; coordinate grids are strictly increasing",
               "HOME redirection before import captures every write that ignores repository_path"]
TOLERANCES = {"all tables": "1e-12 relative, element-wise: both sides convert the same decimal text to binary (correctly rounded), the "
                            "conversions are one multiplication (x1e6, x1e-6, /10) or one pow (10**x): <= a few ulp (2.2e-16) apart",
              "re-use": "bit-identical (same function, same file)"}

_FORM_LABELS = ["via:direct", "via:files", "call:kw", "call:pos", "dl:false", "dl:omit", "dl:true-adas", "dl:cache", "dl:stale-cache", "repo:explicit",
                "repo:default"]
REQUIRED_LABELS = (
    ["adf11:" + x for x in ["resolved", "unresolved", "te<1eV", "nd<=8", "blocks>=10", "second:same-class", "second:other-class",
                            "donor:hydrogen", "donor:deuterium", "donor:helium", "vmode:const", "vmode:edge", "vmode:ties",
                            "ep:parse_adf11", "ep:install_files"] + _FORM_LABELS
     + ["ep:install_adf11" + c for c in ("scd", "acd", "ccd", "plt", "prb", "prc")]
     + ["ep:get:" + c for c in ("scd", "acd", "ccd", "plt", "prb", "prc")]]
    + ["adf15:" + x for x in ["style:hydrogen", "style:hydrogen-like", "style:full", "type:EXCIT", "type:RECOM", "type:CHEXC",
                              "hf:given", "hf:differs-from-auto", "hf:differs-from-auto+install", "species:isotope", "q:np",
                              "ep:parse_adf15", "ep:install_adf15", "ep:install_files", "mode:Hlike-bnd"] + _FORM_LABELS]
    + ["adf12:" + x for x in ["ep:parse_adf12", "ep:install_adf12", "ep:install_files", "species:isotope", "q:np", "count:max"]
       + _FORM_LABELS]
    + ["adf2x:" + x for x in ["adf21", "bmp", "bme", "ep:parse_adf21", "ep:parse_adf22bmp", "ep:parse_adf22bme",
                              "ep:install_adf21", "ep:install_adf22bmp", "ep:install_adf22bme", "ep:install_files",
                              "ep:parse_adas2x_rate", "ep:readvalues", "species:isotope", "q:np", "tr:str"] + _FORM_LABELS]
    + [sub + ":" + x for sub in ("adf11", "adf15", "adf12", "adf2x")
       for x in ("interference:parse", "interference:install-alternate", "repeat", "order:A-first", "order:B-first", "second:bigger",
                 "second:smaller")]
    + [sub + ":" + dl + ":" + fn for dl in ("cache", "stale-cache") for sub, fns in (
        ("adf11", ["install_adf11" + c for c in ("scd", "acd", "ccd", "plt", "prb", "prc")] + ["install_files"]),
        ("adf15", ["install_adf15", "install_files"]), ("adf12", ["install_adf12", "install_files"]),
        ("adf2x", ["install_adf21", "install_adf22bmp", "install_adf22bme", "install_files"])) for fn in fns]
    + ["negative:" + x for x in ["adf11-element", "adf15-absent", "missing-file", "adf11-how:other", "adf11-how:name", "adf11-how:z",
                                 "adf11-how:isotope"]])

RTOL = 1e-12

# ---------------------------------------------------------------------------------------------- small helpers
NAMES = ["hydrogen", "helium", "lithium", "beryllium", "boron", "carbon", "nitrogen", "oxygen", "fluorine", "neon", "argon",
         "krypton", "tungsten"]
ISOTOPES = ["deuterium", "tritium", "helium3"]
EL = {n: getattr(E, n) for n in NAMES + ISOTOPES}
_Z = {n: EL[n].atomic_number for n in EL}
SIZES = [1, 2, 7, 8, 9, 15, 16, 17, 24, 25, 32, 33, 40]
_size = st.one_of(st.integers(1, deep(40, 99)), st.sampled_from(SIZES), st.integers(1, 12))
_seed = st.integers(0, 2 ** 32 - 1)
_small = st.one_of(st.integers(1, 16), st.sampled_from([1, 2, 8, 9, 24]))      # sizes of the second (interfering) file
TRAILER = ["C", "C  Written by the C08 oracle (vf/oracles/adf_writers.py); numbers are synthetic.", "C",
           "C  PRODUCER : verif", "C  DATE     : 28/09/26", "C"]
_forms = st.fixed_dictionaries({"via": st.sampled_from(["direct", "direct", "files"]), "call": st.sampled_from(["kw", "pos"]),
                                "dl": st.sampled_from(["false", "omit", "true-adas", "cache", "stale-cache", "stale-cache"]),
                                "repo": st.sampled_from(["explicit", "explicit", "default"]),
                                "key": st.sampled_from(["lower", "upper", "mixed"])})
PLAIN = {"via": "direct", "call": "kw", "dl": "false", "repo": "explicit", "key": "lower"}


def _hsym(sp):
    """symbol written in a file header: that of the chemical element"""
    return getattr(sp, "element", sp).symbol.upper()


def _q(c, form):
    return np.int64(c) if form == "np" else int(c)


def _vals(tokens):
    """text tokens (possibly nested lists) -> float64 array of the numbers they stand for (python's float() of each token)"""
    if tokens and isinstance(tokens[0], list):
        shape = (len(tokens), len(tokens[0]))
        text = " ".join(" ".join(row) for row in tokens)
    else:
        shape = (len(tokens),)
        text = " ".join(tokens)
    if "D" in text:
        text = text.replace("D", "E")
    return np.array([float(t) for t in text.split()], dtype=np.float64).reshape(shape)


def _pow10(a):
    """10**x, element by element with python floats (libm pow), independent of numpy's vector pow"""
    a = np.asarray(a, dtype=np.float64)
    return np.array([10.0 ** float(x) for x in a.ravel()], dtype=np.float64).reshape(a.shape)


def _eq(ctx, got, want, what, info=""):
    """element-wise |got - want| <= RTOL * |want| and identical shape"""
    try:
        g = np.asarray(got, dtype=np.float64)
    except Exception as e:  # noqa
        ctx.fail(what, "not a numeric array: %s %s" % (e, info))
    w = np.asarray(want, dtype=np.float64)
    if g.shape != w.shape:
        ctx.fail(what, "shape %s, expected %s %s" % (g.shape, w.shape, info))
    if g.size == 0:
        return
    bad = ~(np.abs(g - w) <= RTOL * np.abs(w))
    if bad.any():
        i = int(np.argmax(bad.ravel()))
        idx = np.unravel_index(i, w.shape) if w.ndim else ()
        ctx.fail(what, "%d of %d entries differ; first at %s: got %r, file says %r %s"
                 % (int(bad.sum()), w.size, tuple(int(k) for k in idx), float(g.ravel()[i]), float(w.ravel()[i]), info))


def _item(ctx, d, k, what):
    try:
        return d[k]
    except Exception as e:  # noqa
        ctx.fail(what, "entry %r is missing (%s: %s); has %r" % (k, type(e).__name__, e, sorted(map(str, d.keys())) if hasattr(d, "keys") else d))


def _snap(x):
    """hashable, bit-exact picture of a nested result (dict / list / tuple / ndarray / scalar)"""
    if hasattr(x, "items"):
        return tuple(sorted(((repr(k), _snap(v)) for k, v in x.items())))
    if isinstance(x, (list, tuple)):
        return tuple(_snap(v) for v in x)
    if isinstance(x, np.ndarray):
        return (x.shape, str(x.dtype), np.ascontiguousarray(x).tobytes())
    if isinstance(x, (float, np.floating)):
        return ("f", np.float64(x).tobytes())
    return repr(x)


def _poison(x):
    """overwrite every array of a result in place (the caller scribbling on what it was handed)"""
    if hasattr(x, "items"):
        for v in x.values():
            _poison(v)
    elif isinstance(x, (list, tuple)):
        for v in x:
            _poison(v)
    elif isinstance(x, np.ndarray) and x.dtype.kind == "f" and x.flags.writeable:
        x[...] = -12345.678


def _reuse(ctx, what, first, snap, again):
    """`first` was produced before other calls, `again` by repeating the call now"""
    ctx.check(_snap(first) == snap, what + "/first-result-intact", "the result of the first call changed while another file was processed")
    s2 = _snap(again)
    ctx.check(s2 == snap, what + "/repeat", "repeating the first call does not reproduce its result bit for bit")
    _poison(first)
    ctx.check(_snap(again) == s2, what + "/aliasing", "two calls returned arrays sharing memory (writing into one result changed the other)")


def _no_stray(ctx, what):
    p = os.path.join(_SCRATCH_HOME, ".cherab")
    if os.path.exists(p):
        found = []
        for root, _, files in os.walk(p):
            found += [os.path.relpath(os.path.join(root, f), _SCRATCH_HOME) for f in files]
        shutil.rmtree(p, ignore_errors=True)
        ctx.fail("stray", "%s ignored repository_path: files appeared under ~/: %r" % (what, sorted(found)[:4]))


def _reset_home():
    """leftovers of an earlier, already reported, violating case must not be blamed on this one"""
    shutil.rmtree(os.path.join(_SCRATCH_HOME, ".cherab"), ignore_errors=True)


def _files(root):
    out = []
    for r, _, files in os.walk(root):
        out += [os.path.relpath(os.path.join(r, f), root) for f in files]
    return sorted(out)


class Env:
    """temp dir with adas/, repo/ and repo2/; the file of the case sits under adas/<rel> or, for dl == 'cache', under
    <repository>/_download_cache/<rel> (adas_path is then not passed)."""

    def __init__(self, rel, text, forms, stale=None):
        self.rel, self.text, self.forms, self.stale = rel, text, forms, stale

    def __enter__(self):
        _reset_home()
        self.top = tempfile.mkdtemp(prefix="vf_c08_")
        self.adas, self.repo, self.repo2, self.repo3, self.repo4, self.repo5 = (
            os.path.join(self.top, n) for n in ("adas", "repo", "repo2", "repo3", "repo4", "repo5"))
        for p in (self.adas, self.repo, self.repo2, self.repo3, self.repo4, self.repo5):
            os.makedirs(p)
        default = self.forms["repo"] == "default"
        self.repo_arg = None if default else self.repo          # what is passed to install_* / get_*
        self.root = DEFAULT_ROOT if default else self.repo       # where the data must land
        if self.forms["dl"] == "cache":
            self.path, self.adas_arg = os.path.join(self.root, "_download_cache", self.rel), None
        else:
            self.path, self.adas_arg = os.path.join(self.adas, self.rel), self.adas
        self.add(self.path, self.text)
        if self.forms["dl"] == "stale-cache" and self.stale is not None:
            # an earlier download left ANOTHER file under the same relative path in the cache; the file under adas_path must win
            self.add(os.path.join(self.root, "_download_cache", self.rel), self.stale)
        self.adas_files = _files(self.adas)
        return self

    def add(self, path, text):
        os.makedirs(os.path.dirname(path), exist_ok=True)
        with open(path, "w") as f:
            f.write(text)

    def second(self, rel, text):
        p = os.path.join(self.adas, rel)
        self.add(p, text)
        self.adas_files = _files(self.adas)
        return p

    def check_sources(self, ctx):
        ctx.check(os.path.isfile(self.path), "caller-owned/file", "the ADF file was removed / moved by parse / install")
        with open(self.path) as f:
            ctx.check(f.read() == self.text, "caller-owned/file", "the ADF file was modified by parse / install")
        ctx.check(_files(self.adas) == self.adas_files, "caller-owned/adas-tree",
                  lambda: "files under adas_path changed: %r" % (sorted(set(_files(self.adas)) ^ set(self.adas_files))[:4],))
        if self.forms["repo"] == "explicit":
            _no_stray(ctx, "install")
        else:
            ctx.check(_files(self.repo) == [], "default-repo", lambda: "repository_path omitted, yet files appeared in an unrelated directory")

    def __exit__(self, *a):
        shutil.rmtree(self.top, ignore_errors=True)
        _reset_home()
        return False


def _quiet(fn, *a, **k):
    """install_* print progress lines; keep the shard logs small"""
    with contextlib.redirect_stdout(io.StringIO()):
        return fn(*a, **k)


def _spell(key, how):
    return key.upper() if how == "upper" else key if how == "lower" else "".join(c.upper() if i % 2 else c for i, c in enumerate(key))


def _install(ctx, fname, args, env, forms, header_format=None, rel=None, repo_arg="same", adas="auto"):
    """call install_<...>(*args, file_path, ...) in the form described by `forms`; labels the entry point"""
    rel = env.rel if rel is None else rel
    repo = env.repo_arg if repo_arg == "same" else repo_arg
    dl = forms["dl"]
    download = dl in ("true-adas", "cache", "stale-cache")
    if adas == "auto":
        adas = None if dl == "cache" else env.adas
    via = forms["via"] if header_format is None else "direct"       # install_files has no way to pass header_format
    ctx.label("via:" + via, "call:" + forms["call"], "dl:" + dl, "repo:" + forms["repo"])
    if dl in ("cache", "stale-cache"):
        ctx.label("%s:%s" % (dl, "install_files" if via == "files" else fname))
    if via == "files":
        ctx.label("ep:install_files")
        key = _spell(fname.replace("install_", ""), forms["key"])
        entry = tuple(args) + (rel,)
        cfg = {key: (entry,)}
        if forms["call"] == "pos":
            _quiet(I.install_files, cfg, download, repo, adas)
        elif dl == "omit":
            _quiet(I.install_files, cfg, repository_path=repo, adas_path=adas)
        else:
            _quiet(I.install_files, configuration=cfg, adas_path=adas, repository_path=repo, download=download)
        ctx.check(list(cfg) == [key] and len(cfg[key]) == 1 and cfg[key][0] is entry and len(entry) == len(args) + 1
                  and all(a is b for a, b in zip(entry, tuple(args) + (rel,))), "caller-owned/configuration",
                  "install_files modified the configuration dictionary it was given")
        return
    ctx.label("ep:" + fname)
    fn = getattr(I, fname)
    if forms["call"] == "pos":
        extra = () if header_format is None else (header_format,)
        _quiet(fn, *args, rel, download, repo, adas, *extra)
    else:
        kw = {"repository_path": repo, "adas_path": adas}
        if dl != "omit":
            kw["download"] = download
        if header_format is not None:
            kw["header_format"] = header_format
        _quiet(fn, *args, file_path=rel, **kw)


def _absent(ctx, what, fn, *a):
    try:
        got = fn(*a)
    except RuntimeError:
        return
    except Exception as e:  # noqa
        ctx.fail(what, "reading a key the file does not hold raised %s instead of RuntimeError: %s" % (type(e).__name__, e))
    ctx.fail(what, "key %r that the file does not hold is readable after install: %r" % (a[:-1], sorted(got) if isinstance(got, dict) else got))


def _get_twice(ctx, what, fn):
    """read a repository entry twice: identical, and not sharing memory"""
    with ctx.cut(what):
        a = fn()
        s = _snap(a)
        b = fn()
    ctx.check(_snap(b) == s, "reuse/" + what + "/read-twice", "the same key read twice gives different data")
    _poison(a)
    ctx.check(_snap(b) == s, "reuse/" + what + "/aliasing", "two reads returned arrays sharing memory")
    return b


def _dir_bytes(root):
    """relative path -> content of every repository file (the download cache is not repository data)"""
    out = {}
    for rel in _files(root):
        if not rel.startswith("_download_cache"):
            with open(os.path.join(root, rel), "rb") as f:
                out[rel] = f.read()
    return out


def _interleave(ctx, name, first, parse_a, parse_b, check_a, check_b):
    """function-style entry point under interference: X, Y (or Y, X), then X and Y again.
    parse_x(kw) calls the parser (kw: keyword-argument form), check_x(result) compares it with the file's numbers.
    The first use of each file must match the oracle whatever was parsed before it; the results of the first round must be
    intact after the second round; every repeat must be bit-identical and must not share memory with the earlier result."""
    order = [("A", parse_a, check_a), ("B", parse_b, check_b)]
    if first == "B":
        order.reverse()
    res, snaps, extra = {}, {}, {}
    for tag, parse, check in order:
        with ctx.cut("%s(%s)" % (name, "first file" if tag == "A" else "second file")):
            res[tag] = parse(False)
        extra[tag] = check(res[tag])
        snaps[tag] = _snap(res[tag])
    again = {}
    for tag, parse, check in order:
        with ctx.cut("%s(repeat, %s)" % (name, "first file" if tag == "A" else "second file")):
            again[tag] = parse(True)
    for tag, _, _ in order:
        _reuse(ctx, "interference/%s/%s" % (name, tag), res[tag], snaps[tag], again[tag])
    ctx.label("interference:parse", "repeat", "order:%s-first" % first)
    return extra["A"], extra["B"]


def _alternate(ctx, env, what, install_a, install_b, read_a, check_b, absent_a, b_in_repo2):
    """installer under interference: B -> repo2 (unless done), A -> its repository again, B -> repo3.
    The two B-only repositories (different histories) must be byte-identical, hold B's tables and nothing of A;
    A's repository must read back exactly as before."""
    with ctx.cut(what + "(read before alternation)"):
        before = _snap(read_a())
    with ctx.cut(what + "(alternating repositories)"):
        if not b_in_repo2:
            install_b(env.repo2)
        install_a()
        install_b(env.repo3)
    if env.forms["repo"] == "explicit":
        _no_stray(ctx, what + "(alternating repositories)")
    r2, r3 = _dir_bytes(env.repo2), _dir_bytes(env.repo3)
    ctx.check(sorted(r2) == sorted(r3), "interference/install/files",
              lambda: "the same file installed into two fresh repositories (before / after re-installing another file) created "
                      "different files: %r vs %r" % (sorted(r2)[:5], sorted(r3)[:5]))
    for rel in r2:
        ctx.check(r2[rel] == r3[rel], "interference/install/content",
                  lambda: "repository file %r differs between two fresh repositories that received the same ADF file" % rel)
    check_b(env.repo3)
    absent_a(env.repo3)
    with ctx.cut(what + "(read after alternation)"):
        after = _snap(read_a())
    ctx.check(after == before, "interference/install/reinstall", "re-installing the same file changed what the repository returns")
    ctx.label("interference:install-alternate")


def _cache_scenarios(ctx, env, fname, args, header_format, check):
    """_locate_adas_file with download=True, for this front-end, in two fresh repositories:
    stale: the file is under adas_path AND another file (the second file's text) sits under the same relative path in
           <repository>/_download_cache (left by an earlier download) -> the adas_path file is installed;
    cache: the file is absent under adas_path and present in the cache -> the cache copy is installed, no network is touched."""
    via = env.forms["via"] if header_format is None else "direct"
    other = "direct" if via == "files" or header_format is not None else "files"
    rel_s, rel_c = "stale/" + env.rel, "cacheonly/" + env.rel
    env.add(os.path.join(env.adas, rel_s), env.text)
    env.adas_files = _files(env.adas)
    env.add(os.path.join(env.repo4, "_download_cache", rel_s), env.stale)
    env.add(os.path.join(env.repo5, "_download_cache", rel_c), env.text)
    with ctx.cut(fname + "(download=True, stale copy in the cache)"):
        _install(ctx, fname, args, env, dict(env.forms, via=via, dl="stale-cache", repo="explicit"), header_format=header_format, rel=rel_s,
                 repo_arg=env.repo4)
    check(env.repo4, "stale-cache/")
    with ctx.cut(fname + "(download=True, file only in the cache)"):
        _install(ctx, fname, args, env, dict(env.forms, via=other, dl="cache", repo="explicit"), header_format=header_format, rel=rel_c,
                 repo_arg=env.repo5, adas=env.adas if env.forms["call"] == "kw" else None)
    check(env.repo5, "cache-only/")
    with open(os.path.join(env.repo4, "_download_cache", rel_s)) as f:
        ctx.check(f.read() == env.stale, "caller-owned/cache", "install rewrote the cached copy")
    if env.forms["repo"] == "explicit":
        _no_stray(ctx, fname + "(download=True)")


def _bigger(ctx, na, nb):
    ctx.label("second:bigger" if nb > na else "second:smaller" if nb < na else "second:same-size")


def _grid_f(s, start, n, lo=1000, hi=60000):
    """n increasing F10.5 lattice values (integers, units of 1e-5) from `start`"""
    out, k = [], int(start)
    for _ in range(n):
        out.append(k)
        k += s.between(lo, hi)
    return out


def _grid_e(s, n, emin, emax, digits):
    """n increasing (mantissa, exponent) pairs"""
    seen = set()
    lo, hi = 10 ** digits, 10 ** (digits + 1) - 1
    while len(seen) < n:
        seen.add((s.between(emin, emax), s.between(lo, hi)))
    return [(m, e) for e, m in sorted(seen)]


# ============================================================================================== ADF11
ADF11 = {  # class -> (charge offset w.r.t. Z1, install function, reader, file name)
    "scd": (-1, "install_adf11scd", "get_ionisation_rate", "adf11/scd96/scd96_%s.dat"),
    "acd": (0, "install_adf11acd", "get_recombination_rate", "adf11/acd96/acd96_%s.dat"),
    "ccd": (0, "install_adf11ccd", "get_thermal_cx_rate", "adf11/ccd96/ccd96_%s.dat"),
    "plt": (-1, "install_adf11plt", "get_line_radiated_power_rate", "adf11/plt96/plt96_%s.dat"),
    "prb": (0, "install_adf11prb", "get_continuum_radiated_power_rate", "adf11/prb96/prb96_%s.dat"),
    "prc": (0, "install_adf11prc", "get_cx_radiated_power_rate", "adf11/prc96/prc96_%s.dat"),
}
CLASSES = sorted(ADF11)
PROJECTS = ["GCR PROJECT", "ADAS89", "JET/ADAS PROJECT"]
EDGE = [-9999999, -100000, -1, 0, 1, 100000, 9999999]
DONORS = [["hydrogen", 0], ["hydrogen", 0], ["deuterium", 0], ["helium", 0], ["helium", 1]]


@st.composite
def adf11_cases(draw):
    el = draw(st.sampled_from(NAMES))
    z = _Z[el]
    nd, nt = draw(_size), draw(_size)
    resolved = draw(st.booleans())
    if z >= 10 and draw(st.integers(0, 3)) == 0:          # many charge states: two-digit Z1 in the block headers
        nblk = draw(st.integers(10, min(z, 15 if resolved else 40)))
        while nd * nt * nblk * nblk > 60000:       # the repository rewrites the whole file once per charge state
            if nd >= nt:
                nd = (nd + 1) // 2
            else:
                nt = (nt + 1) // 2
    else:
        nblk = draw(st.one_of(st.integers(1, z), st.just(z), st.integers(1, min(z, 3))))
        nblk = max(1, min(nblk, 9000 // (nd * nt), int((60000 / (nd * nt)) ** 0.5)))
    if resolved:
        nblk = min(nblk, 15)       # the line of metastable counts (16I5) stays a single line
    z1min = draw(st.one_of(st.just(1), st.integers(1, z - nblk + 1)))
    lt0 = draw(st.one_of(st.integers(-150000, -1), st.integers(0, 250000), st.sampled_from([-69897, -100000, -1, 0, 1])))
    case = {"cls": draw(st.sampled_from(CLASSES)), "el": el, "z1min": z1min, "nblk": nblk, "nd": nd, "nt": nt,
            "resolved": resolved, "ld0": draw(st.integers(500000, 1400000)), "lt0": lt0,
            "dash": draw(st.sampled_from([71, 80])), "lead": draw(st.sampled_from(["", " "])),
            "iprt": True if resolved else draw(st.booleans()), "project": draw(st.integers(0, len(PROJECTS) - 1)),
            "vmode": draw(st.sampled_from(["random", "random", "random", "const", "ties", "edge"])),
            "donor": draw(st.sampled_from(DONORS)), "seed": draw(_seed), "forms": draw(_forms),
            "first": draw(st.sampled_from(["A", "B"])),
            "second": {"nd": draw(_small), "nt": draw(_small), "nblk": draw(st.integers(1, 4)), "seed": draw(_seed)}}
    if EXCLUDE_LINE4 and not resolved and nd <= 8 and lt0 < 0:
        case["lt0"] = -lt0
        case["excluded_known"] = True
    return case


def build_adf11(case, name=None, z=None):
    """-> (writer description, text).  name / z override the header (negative cases)."""
    s = W.Stream(case["seed"], 11)
    el = EL[case["el"]]
    nd, nt = case["nd"], case["nt"]
    dens = [W.f10_5(k) for k in _grid_f(s, case["ld0"], nd)]
    temp = [W.f10_5(k) for k in _grid_f(s, case["lt0"], nt)]
    vmode = case.get("vmode", "random")
    pool = [s.between(-7400000, -300000) for _ in range(3)]
    blocks = []
    for i in range(case["nblk"]):
        if vmode == "const":
            table = [[W.f10_5(pool[0])] * nd for _ in range(nt)]
        elif vmode == "ties":
            table = [[W.f10_5(pool[s.between(0, 2)]) for _ in range(nd)] for _ in range(nt)]
        elif vmode == "edge":
            table = [[W.f10_5(EDGE[s.between(0, len(EDGE) - 1)]) for _ in range(nd)] for _ in range(nt)]
        else:
            table = [[W.f10_5(s.between(-7400000, -300000) if s.between(0, 15) else s.between(-99, 500000)) for _ in range(nd)]
                     for _ in range(nt)]
        blocks.append({"z1": case["z1min"] + i, "iprt": 1, "igrd": 1, "table": table})
    d = {"z": el.atomic_number if z is None else z, "name": (name or el.name).upper(), "project": PROJECTS[case["project"]],
         "z1min": case["z1min"], "z1max": case["z1min"] + case["nblk"] - 1, "dens": dens, "temp": temp, "blocks": blocks,
         "resolved": case["resolved"], "meta": [1] * (case["nblk"] + 1), "dash": case["dash"], "lead": case["lead"],
         "iprt": case["iprt"], "date": "09/09/99", "trailer": TRAILER}
    return d, W.write_adf11(d)


def _second_adf11(case):
    """the interfering file B (sizes and seed are part of the generated case): same element, the next Z1 range of the same class
    when there is room (it is then merged into the same repository file), otherwise the next class"""
    z = _Z[case["el"]]
    zmax = case["z1min"] + case["nblk"] - 1
    sec = case.get("second") or {"nd": case["nt"] % 11 + 1, "nt": case["nd"] % 13 + 1, "nblk": 3, "seed": case["seed"] ^ 0x5DEECE66}
    b = dict(case, seed=sec["seed"], nd=sec["nd"], nt=sec["nt"], resolved=not case["resolved"], iprt=True, vmode="random")
    if EXCLUDE_LINE4:
        b["lt0"] = abs(case["lt0"])
    if zmax < z:
        b.update(z1min=zmax + 1, nblk=min(z - zmax, sec["nblk"]))
    else:
        b.update(cls=CLASSES[(CLASSES.index(case["cls"]) + 1) % len(CLASSES)], z1min=1, nblk=min(z, sec["nblk"]))
    return b


def _install_adf11(case, el, rel, adas, repo):
    """plain keyword-form install of an ADF11 file (kept for vf/props/c06.py)"""
    return _quiet(getattr(I, ADF11[case["cls"]][1]), *_args_adf11(case, el), rel, download=False, repository_path=repo, adas_path=adas)


def _nt_adf11(case):
    return bool(case["nd"] % 8 or case["nt"] % 8 or case["nblk"] >= 2 or case["resolved"] or case["lt0"] < 0)


def _args_adf11(case, el):
    if case["cls"] == "ccd":
        return (EL[case.get("donor", DONORS[0])[0]], case.get("donor", DONORS[0])[1], el)
    return (el,)


def _get_adf11(case, el, charge, repo):
    fn = getattr(R, ADF11[case["cls"]][2])
    if case["cls"] == "ccd":
        return fn(EL[case.get("donor", DONORS[0])[0]], case.get("donor", DONORS[0])[1], el, charge, repo)
    return fn(el, charge, repo)


def _check_parse_adf11(ctx, case, d, el, got, tag):
    ctx.check(list(got.keys()) == [el], tag + "parse/element-key", lambda: "top-level keys %r, expected [%r]" % (list(got.keys()), el))
    z1s = [b["z1"] for b in d["blocks"]]
    ctx.check(sorted(got[el].keys()) == z1s, tag + "parse/block-keys",
              lambda: "charge keys %r, the file has Z1 blocks %r" % (sorted(got[el].keys()), z1s))
    want_ne, want_te = _vals(d["dens"]), _vals(d["temp"])
    for b in d["blocks"]:
        g = got[el][b["z1"]]
        info = "(Z1=%d, %d densities x %d temperatures)" % (b["z1"], case["nd"], case["nt"])
        _eq(ctx, _item(ctx, g, "ne", tag + "parse/ne"), want_ne, tag + "parse/ne", info)
        _eq(ctx, _item(ctx, g, "te", tag + "parse/te"), want_te, tag + "parse/te", info)
        _eq(ctx, _item(ctx, g, "rates", tag + "parse/rates"), _vals(b["table"]).T, tag + "parse/rates", info)


def _check_repo_adf11(ctx, case, d, el, repo, tag, absent=True, sample=False):
    """10**x, cm^-3 -> m^-3, cm^3 -> m^3, charge = Z1 - 1 for scd / plt.  sample: first, middle and last block, single read"""
    cls, off = case["cls"], ADF11[case["cls"]][0]
    lin_ne, lin_te = _pow10(_vals(d["dens"])) * 1e6, _pow10(_vals(d["temp"]))
    z1s = [b["z1"] for b in d["blocks"]]
    ctx.label("ep:get:" + cls)
    blocks = d["blocks"]
    if sample and len(blocks) > 3:
        blocks = [blocks[0], blocks[len(blocks) // 2], blocks[-1]]
    for b in blocks:
        q = b["z1"] + off
        info = "(Z1=%d -> charge %d)" % (b["z1"], q)
        if sample:
            with ctx.cut(tag + "get/" + cls):
                g = _get_adf11(case, el, q, repo)
        else:
            g = _get_twice(ctx, tag + "get/" + cls, lambda: _get_adf11(case, el, q, repo))
        _eq(ctx, _item(ctx, g, "ne", tag + "repo/ne"), lin_ne, tag + "repo/ne", info)
        _eq(ctx, _item(ctx, g, "te", tag + "repo/te"), lin_te, tag + "repo/te", info)
        _eq(ctx, _item(ctx, g, "rate", tag + "repo/rate"), _pow10(_vals(b["table"]).T) * 1e-6, tag + "repo/rate", info)
    if absent:
        for q in (z1s[0] + off - 1, z1s[-1] + off + 1):
            if 0 <= q <= el.atomic_number:
                _absent(ctx, tag + "repo/absent-charge", lambda *a: _get_adf11(case, *a), el, q, repo)


def run_adf11(case, ctx):
    cls = case["cls"]
    el = EL[case["el"]]
    forms = case.get("forms", PLAIN)
    first = case.get("first", "A")
    d, text = build_adf11(case)
    ctx.label(cls, "resolved" if case["resolved"] else "unresolved", "blocks:%s" % min(case["nblk"], 4),
              "nd%%8:%d" % bool(case["nd"] % 8), "nt%%8:%d" % bool(case["nt"] % 8), "vmode:" + case.get("vmode", "random"))
    if case["lt0"] < 0:
        ctx.label("te<1eV")
    if case["nd"] <= 8:
        ctx.label("nd<=8")
    if case["nblk"] >= 10:
        ctx.label("blocks>=10")
    if cls == "ccd":
        ctx.label("donor:" + case.get("donor", DONORS[0])[0])
    if case.get("excluded_known"):
        ctx.label("excluded_known")
    ctx.nt(_nt_adf11(case))
    rel = ADF11[cls][3] % el.symbol.lower()
    case2 = _second_adf11(case)
    d2, text2 = build_adf11(case2)
    rel2 = "second/" + ADF11[case2["cls"]][3] % el.symbol.lower()
    ctx.label("second:same-class" if case2["cls"] == cls else "second:other-class")
    _bigger(ctx, case["nd"] * case["nt"] * case["nblk"], case2["nd"] * case2["nt"] * case2["nblk"])
    plain = dict(PLAIN, repo=forms["repo"])
    with Env(rel, text, forms, stale=text2) as env:
        path2 = env.second(rel2, text2)
        # ---- parser: log10 values in file units, table indexed (density, temperature), keyed by the Z1 of the block
        ctx.label("ep:parse_adf11")
        _interleave(ctx, "parse_adf11", first,
                    lambda kw: P.parse_adf11(element=el, adf_file_path=env.path) if kw else P.parse_adf11(el, env.path),
                    lambda kw: P.parse_adf11(element=el, adf_file_path=path2) if kw else P.parse_adf11(el, path2),
                    lambda got: _check_parse_adf11(ctx, case, d, el, got, ""),
                    lambda got: _check_parse_adf11(ctx, case2, d2, el, got, "second/"))

        def install_b(repo):
            _install(ctx, ADF11[case2["cls"]][1], _args_adf11(case2, el), env, plain, rel=rel2, repo_arg=repo)

        def absent_a(repo):        # nothing of the first file may show up in a repository that only received the second one
            _absent(ctx, "interference/install/leak", lambda *a: _get_adf11(case, *a), el, d["blocks"][0]["z1"] + ADF11[cls][0], repo)
        if first == "B":           # the second file is installed (elsewhere) before the first one is used for the first time
            with ctx.cut("install_adf11" + case2["cls"] + "(second file, other repository)"):
                install_b(env.repo2)
            _check_repo_adf11(ctx, case2, d2, el, env.repo2, "second-first/", absent=False)
        # ---- install -> repository
        with ctx.cut("install_adf11" + cls):
            _install(ctx, ADF11[cls][1], _args_adf11(case, el), env, forms)
        env.check_sources(ctx)
        _check_repo_adf11(ctx, case, d, el, env.repo_arg, "")
        # ---- the second file into the same repository, then the first one again
        with ctx.cut("install_adf11" + case2["cls"] + "(second file)"):
            _install(ctx, ADF11[case2["cls"]][1], _args_adf11(case2, el), env, plain, rel=rel2)
        env.check_sources(ctx)
        _check_repo_adf11(ctx, case2, d2, el, env.repo_arg, "second/", absent=False)
        _check_repo_adf11(ctx, case, d, el, env.repo_arg, "after-second/", absent=False, sample=True)
        # ---- two repositories alternately
        sample = [d["blocks"][0], d["blocks"][len(d["blocks"]) // 2], d["blocks"][-1]]
        _alternate(ctx, env, "install_adf11" + cls,
                   lambda: _install(ctx, ADF11[cls][1], _args_adf11(case, el), env, forms),
                   install_b,
                   lambda: [_get_adf11(case, el, b["z1"] + ADF11[cls][0], env.repo_arg) for b in sample],
                   lambda repo: _check_repo_adf11(ctx, case2, d2, el, repo, "alternate/second/", absent=False, sample=True),
                   absent_a, first == "B")
        _cache_scenarios(ctx, env, ADF11[cls][1], _args_adf11(case, el), None,
                         lambda repo, tag: _check_repo_adf11(ctx, case, d, el, repo, tag, absent=False, sample=True))
        env.check_sources(ctx)


# ============================================================================================== ADF15
TYPES = {"EXCIT": "excitation", "RECOM": "recombination", "CHEXC": "thermalcx"}
POOLS = [["EXCIT", "RECOM"], ["EXCIT", "RECOM"], ["EXCIT"], ["EXCIT", "RECOM", "CHEXC"], ["EXCIT", "RECOM", "CHEXC"], ["CHEXC"]]
MODES = ["H", "Hlike", "Hlike-bnd", "full", "hf-hydrogen", "hf-hydrogen-like"]


@st.composite
def adf15_cases(draw, absent=False, modes=None):
    mode = draw(st.sampled_from(modes or MODES))
    if mode == "H":
        el, q = "hydrogen", 0
    else:
        # hydrogen itself is always read with the 'hydrogen' index style (element == hydrogen wins over header_format)
        el = draw(st.sampled_from(NAMES + ["deuterium", "tritium"] * 3 if mode == "hf-hydrogen" else NAMES[1:]))
        z = _Z[el]
        q = z - 1 if mode in ("Hlike", "Hlike-bnd") else draw(st.integers(0, z - 2)) if mode == "full" else draw(st.integers(0, z - 1))
    style = {"H": "hydrogen", "Hlike": "hydrogen-like", "Hlike-bnd": "hydrogen", "full": "full", "hf-hydrogen": "hydrogen",
             "hf-hydrogen-like": "hydrogen-like"}[mode]
    nlev = draw(st.integers(2, 9))
    typ = st.sampled_from(draw(st.sampled_from(POOLS)))      # real files: electron-impact blocks only, or with CX blocks as well
    if style == "hydrogen":
        tr = st.tuples(typ, st.integers(1, 9), st.integers(1, 6)).map(lambda t: (t[0], t[1] + t[2], t[1]))
    else:
        tr = st.tuples(typ, st.integers(1, nlev), st.integers(1, nlev - 1)).map(lambda t: (t[0], t[1], (t[1] - 1 + t[2]) % nlev + 1))
    trs = draw(st.lists(tr, min_size=1, max_size=8, unique=True))
    blocks, total = [], 0
    for t, up, lo in trs:
        nd, nt = draw(_size), draw(_size)
        if total + nd * nt > 6000 and blocks:
            break
        total += nd * nt
        blocks.append({"type": t, "up": up, "lo": lo, "nd": nd, "nt": nt})
    case = {"mode": mode, "el": el, "charge": q, "style": style, "nlev": nlev, "blocks": blocks,
            "unit": draw(st.sampled_from([" A", "A"])), "order": draw(st.sampled_from(["file", "reversed"])),
            "isel0": draw(st.sampled_from([1, 1, 1, 95, 996])), "vmode": draw(st.sampled_from(["random", "random", "const"])),
            "qform": draw(st.sampled_from(["int", "np"])), "seed": draw(_seed), "install": True, "forms": draw(_forms),
            "first": draw(st.sampled_from(["A", "B"])),
            "second": {"sizes": [[draw(_small), draw(_small)] for _ in range(3)], "seed": draw(_seed)}}
    if absent:
        case["absent"] = draw(st.integers(0, len(blocks) - 1))
    elif EXCLUDE_CHEXC and any(b["type"] == "CHEXC" for b in blocks):
        case["install"] = False          # the parser part still runs on CHEXC blocks
        case["excluded_known"] = True
    return case


def _levels(s, n):
    out, seen = [], set()
    while len(out) < n:
        conf = []
        for _ in range(s.between(1, 3)):
            shell_n = s.between(1, 6)
            conf.append([shell_n, s.between(0, min(shell_n - 1, 4)), s.between(1, 9)])
        lv = {"conf": conf, "S": s.between(1, 7), "L": s.between(0, 13), "J": "%d.%d" % (s.between(0, 12), 5 * s.between(0, 1))}
        if W.level_name(lv) not in seen:
            seen.add(W.level_name(lv))
            out.append(lv)
    return out


def build_adf15(case):
    """-> (writer description, text, expected [(class, transition, block)])"""
    s = W.Stream(case["seed"], 15)
    el = EL[case["el"]]
    levels = _levels(s, case["nlev"]) if case["style"] != "hydrogen" else []
    wl = {}
    blocks = []
    const = case.get("vmode") == "const"
    for i, c in enumerate(case["blocks"]):
        key = (c["up"], c["lo"])
        if key not in wl:
            # index field WAVELENGTH is 10 characters: 1-5 integer digits (a few A .. 1e5 A), 1-4 decimals
            sw = W.Stream(case["seed"], 1000 + 100 * c["up"] + c["lo"])
            k, nd_ = sw.between(1, 5), sw.between(1, 4)
            wl[key] = "%d.%0*d" % (sw.between(10 ** (k - 1), 10 ** k - 1), nd_, sw.between(0, 10 ** nd_ - 1))
        ws = W.Stream(case["seed"], 2000 + i)
        dens = [W.efmt(m, e, 2, 9) for m, e in _grid_e(ws, c["nd"], 7, 16, 2)]
        temp = [W.efmt(m, e, 2, 9) for m, e in _grid_e(ws, c["nt"], -1, 4, 2)]
        if const:
            table = [[W.efmt(100, -10, 2, 9)] * c["nt"] for _ in range(c["nd"])]
        else:
            table = [[W.efmt(ws.between(100, 999) if ws.between(0, 15) else 0, ws.between(-40, -5), 2, 9) for _ in range(c["nt"])]
                     for _ in range(c["nd"])]
        blocks.append({"isel": case["isel0"] + i, "type": c["type"], "wl_text": wl[key], "wl": float(wl[key]) * 10.0,   # 'wl' (tenths of A) kept for c06
                       "upper": c["up"], "lower": c["lo"],
                       "dens": dens, "temp": temp, "table": table, "data": case.get("absent") != i})
    order = list(range(len(blocks)))
    if case["order"] == "reversed":
        order.reverse()
    d = {"symbol": _hsym(el), "z": el.atomic_number, "charge": case["charge"], "style": case["style"], "unit": case["unit"],
         "filmem": "pju#%s%d" % (_hsym(el).lower(), case["charge"]), "levels": levels, "blocks": blocks, "index_order": order,
         "trailer": TRAILER}

    def transition(b):
        if case["style"] == "full":
            return (W.level_name(levels[b["upper"] - 1]), W.level_name(levels[b["lower"] - 1]))
        return (b["upper"], b["lower"])
    expected = [(TYPES[b["type"]], transition(b), b) for b in blocks]
    return d, W.write_adf15(d), expected


def _rel_adf15(case):
    sym = _hsym(EL[case["el"]]).lower()
    kind = "bnd" if case["mode"] == "Hlike-bnd" else "pju"
    return "adf15/pec96#%s/pec96#%s_%s#%s%d.dat" % (sym, sym, kind, sym, case["charge"])


def _hf(case):
    return {"hf-hydrogen": "hydrogen", "hf-hydrogen-like": "hydrogen-like"}.get(case["mode"])


def _hf_differs(case):
    """the forced header format is not what parse_adf15 would pick by itself for this element / charge"""
    if case["mode"] == "hf-hydrogen":
        return case["el"] != "hydrogen"
    if case["mode"] == "hf-hydrogen-like":
        return _Z[case["el"]] - case["charge"] != 1
    return False


def _nt_adf15(case):
    return bool(len(case["blocks"]) >= 2 or any(b["nd"] % 8 or b["nt"] % 8 for b in case["blocks"]))


def _second_adf15(case):
    """the interfering file B: same species and index style, up to three of A's transitions with other grid sizes and numbers"""
    sec = case.get("second") or {"sizes": [[c["nt"] % 9 + 1, c["nd"] % 7 + 1] for c in case["blocks"][:3]] * 3, "seed": case["seed"] ^ 0x2545F491}
    picked = list(reversed(case["blocks"][:3]))
    b = dict(case, seed=sec["seed"], order="file", isel0=1, vmode="random",
             blocks=[dict(c, nd=sec["sizes"][k][0], nt=sec["sizes"][k][1]) for k, c in enumerate(picked)])
    b.pop("absent", None)
    return b


def _check_parse_adf15(ctx, case, expected, el, q, rates, wavelengths, tag):
    classes = sorted({c for c, _, _ in expected})
    ctx.check(sorted(rates.keys()) == classes, tag + "parse/classes",
              lambda: "rate classes %r, the file has %r" % (sorted(rates.keys()), classes))
    for c in classes:
        trs = sorted(repr(t) for cc, t, _ in expected if cc == c)
        ctx.check(list(rates[c].keys()) == [el] and list(rates[c][el].keys()) == [q], tag + "parse/species-key",
                  lambda: "class %s is keyed by %r / %r" % (c, list(rates[c].keys()), [list(v.keys()) for v in rates[c].values()]))
        gt = sorted(repr(t) for t in rates[c][el][q].keys())
        ctx.check(gt == trs, tag + "parse/transitions", lambda: "class %s holds transitions %s, the index lists %s" % (c, gt[:6], trs[:6]))
    for c, t, b in expected:
        g = rates[c][el][q][t]
        info = "(%s %r, ISEL %d, %d densities x %d temperatures)" % (b["type"], t, b["isel"], len(b["dens"]), len(b["temp"]))
        _eq(ctx, _item(ctx, g, "ne", tag + "parse/ne"), _vals(b["dens"]) * 1e6, tag + "parse/ne", info)
        _eq(ctx, _item(ctx, g, "te", tag + "parse/te"), _vals(b["temp"]), tag + "parse/te", info)
        _eq(ctx, _item(ctx, g, "rate", tag + "parse/rate"), _vals(b["table"]) * 1e-6, tag + "parse/rate", info)
    want_wl = {t: float(b["wl_text"]) / 10.0 for _, t, b in expected}            # printed Angstrom value -> nm
    ctx.check(list(wavelengths.keys()) == [el] and list(wavelengths[el].keys()) == [q], tag + "parse/wavelength-key",
              lambda: "wavelengths keyed by %r" % (list(wavelengths.keys()),))
    gw = wavelengths[el][q]
    ctx.check(sorted(repr(t) for t in gw.keys()) == sorted(repr(t) for t in want_wl), tag + "parse/wavelength-transitions",
              lambda: "wavelength transitions %r, index lists %r" % (sorted(map(repr, gw.keys()))[:6], sorted(map(repr, want_wl))[:6]))
    for t, w in want_wl.items():
        _eq(ctx, _item(ctx, gw, t, tag + "parse/wavelength"), w, tag + "parse/wavelength", "(%r)" % (t,))
    return want_wl


def _check_repo_adf15(ctx, case, expected, want_wl, el, q, repo, tag):
    for c, t, b in expected:
        info = "(%s %r)" % (b["type"], t)
        if c == "excitation":
            g = _get_twice(ctx, tag + "get/pec-" + c, lambda: R.get_pec_excitation_rate(el, q, t, repo))
        elif c == "recombination":
            g = _get_twice(ctx, tag + "get/pec-" + c, lambda: R.get_pec_recombination_rate(el, q, t, repo))
        else:
            g = _get_twice(ctx, tag + "get/pec-" + c, lambda: R.get_pec_thermal_cx_rate(E.hydrogen, 0, el, q + 1, t, repo))
        _eq(ctx, _item(ctx, g, "ne", tag + "repo/ne"), _vals(b["dens"]) * 1e6, tag + "repo/ne", info)
        _eq(ctx, _item(ctx, g, "te", tag + "repo/te"), _vals(b["temp"]), tag + "repo/te", info)
        tab = _vals(b["table"]) * 1e-6
        if c == "thermalcx":      # documented: donor H0, Tdon = Trec -> the table is repeated along a 2-point donor-temperature axis
            g3, td = np.asarray(_item(ctx, g, "rate", tag + "repo/rate")), np.asarray(_item(ctx, g, "td", tag + "repo/td"))
            ctx.check(g3.ndim == 3 and td.ndim == 1 and td.size >= 1 and g3.shape[2] == td.size, tag + "repo/rate",
                      lambda: "thermal CX PEC has shape %r with donor temperatures of shape %r" % (g3.shape, td.shape))
            for k in range(g3.shape[2]):
                _eq(ctx, g3[:, :, k], tab, tag + "repo/rate", info + " donor temperature index %d" % k)
        else:
            _eq(ctx, _item(ctx, g, "rate", tag + "repo/rate"), tab, tag + "repo/rate", info)
        with ctx.cut(tag + "get/wavelength"):
            w = R.get_wavelength(el, q, t, repo)
        _eq(ctx, w, want_wl[t], tag + "repo/wavelength", info)


def run_adf15(case, ctx):
    el, q = EL[case["el"]], case["charge"]
    forms = case.get("forms", PLAIN)
    first = case.get("first", "A")
    qa = _q(q, case.get("qform", "int"))
    hf = _hf(case)
    d, text, expected = build_adf15(case)
    ctx.label("style:" + case["style"], "mode:" + case["mode"], "blocks:%s" % min(len(case["blocks"]), 4),
              "q:" + case.get("qform", "int"), *["type:" + t for t in sorted({b["type"] for b in case["blocks"]})])
    if case["el"] in ISOTOPES:
        ctx.label("species:isotope")
    if hf:
        ctx.label("hf:given")
    if _hf_differs(case):
        ctx.label("hf:differs-from-auto")
    if case.get("excluded_known"):
        ctx.label("excluded_known")
    ctx.nt(_nt_adf15(case))
    rel = _rel_adf15(case)
    case2 = _second_adf15(case)
    d2, text2, expected2 = build_adf15(case2)
    _bigger(ctx, sum(b["nd"] * b["nt"] for b in case["blocks"]), sum(b["nd"] * b["nt"] for b in case2["blocks"]))
    with Env(rel, text, forms, stale=text2) as env:
        path2 = env.second("second/" + rel, text2)
        ctx.label("ep:parse_adf15")

        def parse_a(kw):
            if kw:
                return P.parse_adf15(element=el, charge=q, adf_file_path=env.path, header_format=hf)
            if hf:
                return P.parse_adf15(el, qa, env.path, header_format=hf)
            return P.parse_adf15(el, qa, env.path)          # header_format omitted: automatic choice
        want_wl, want_wl2 = _interleave(
            ctx, "parse_adf15", first, parse_a,
            lambda kw: P.parse_adf15(element=el, charge=q, adf_file_path=path2, header_format=hf) if kw else P.parse_adf15(el, q, path2, hf),
            lambda got: _check_parse_adf15(ctx, case, expected, el, q, got[0], got[1], ""),
            lambda got: _check_parse_adf15(ctx, case2, expected2, el, q, got[0], got[1], "second/"))
        if not case["install"]:
            return

        def install_b(repo):
            _install(ctx, "install_adf15", (el, q), env, PLAIN, header_format=hf, rel="second/" + rel, repo_arg=repo)
        keys2 = {(c, t) for c, t, _ in expected2}
        only_a = [(c, t) for c, t, _ in expected if (c, t) not in keys2]

        def absent_a(repo):
            for c, t in only_a[:2]:
                if c == "excitation":
                    _absent(ctx, "interference/install/leak", R.get_pec_excitation_rate, el, q, t, repo)
                elif c == "recombination":
                    _absent(ctx, "interference/install/leak", R.get_pec_recombination_rate, el, q, t, repo)
                else:
                    _absent(ctx, "interference/install/leak", R.get_pec_thermal_cx_rate, E.hydrogen, 0, el, q + 1, t, repo)
        if first == "B":
            with ctx.cut("install_adf15(second file, other repository)"):
                install_b(env.repo2)
            _check_repo_adf15(ctx, case2, expected2, want_wl2, el, q, env.repo2, "second-first/")
        # ---- install -> repository
        if _hf_differs(case):
            ctx.label("hf:differs-from-auto+install")
        with ctx.cut("install_adf15"):
            _install(ctx, "install_adf15", (el, qa), env, forms, header_format=hf)
        env.check_sources(ctx)
        _check_repo_adf15(ctx, case, expected, want_wl, el, q, env.repo_arg, "")
        # a transition the file does not hold
        have = {(c, t) for c, t, _ in expected}
        t0 = expected[0][1]
        other = (t0[0], t0[0]) if case["style"] == "full" else (t0[0] + 20, t0[1])
        if ("excitation", other) not in have:
            _absent(ctx, "repo/absent-transition", R.get_pec_excitation_rate, el, q, other, env.repo_arg)
        for c, fn in (("excitation", R.get_pec_excitation_rate), ("recombination", R.get_pec_recombination_rate)):
            for cc, t, _ in expected:
                if cc != c and (c, t) not in have:
                    _absent(ctx, "repo/absent-class", fn, el, q, t, env.repo_arg)
                    break
        # ---- two repositories alternately (the second file never enters the first file's repository: same keys)
        _alternate(ctx, env, "install_adf15",
                   lambda: _install(ctx, "install_adf15", (el, qa), env, forms, header_format=hf),
                   install_b,
                   lambda: [_snap(fn(*a)) for fn, a in _readers_adf15(expected[:3], el, q, env.repo_arg)],
                   lambda repo: _check_repo_adf15(ctx, case2, expected2, want_wl2, el, q, repo, "alternate/second/"),
                   absent_a, first == "B")
        _cache_scenarios(ctx, env, "install_adf15", (el, qa), hf,
                         lambda repo, tag: _check_repo_adf15(ctx, case, expected[:3], want_wl, el, q, repo, tag))
        env.check_sources(ctx)
        _check_repo_adf15(ctx, case, expected[:2], want_wl, el, q, env.repo_arg, "after-second/")
        # ---- a revised file for the same lines (B: other tables, other grids, other wavelengths) into the SAME repository: it
        # replaces what A stored for those lines - tables and wavelengths alike -; installing A once more brings A's back
        with ctx.cut("install_adf15(second file, same repository)"):
            install_b(env.repo_arg)
        _check_repo_adf15(ctx, case2, expected2, want_wl2, el, q, env.repo_arg, "overwrite/second/")
        with ctx.cut("install_adf15(first file again)"):
            _install(ctx, "install_adf15", (el, qa), env, forms, header_format=hf)
        _check_repo_adf15(ctx, case, expected[:3], want_wl, el, q, env.repo_arg, "overwrite/first-again/")
        ctx.label("overwrite:same-repository")


def _readers_adf15(expected, el, q, repo):
    out = []
    for c, t, _ in expected:
        if c == "excitation":
            out.append((R.get_pec_excitation_rate, (el, q, t, repo)))
        elif c == "recombination":
            out.append((R.get_pec_recombination_rate, (el, q, t, repo)))
        else:
            out.append((R.get_pec_thermal_cx_rate, (E.hydrogen, 0, el, q + 1, t, repo)))
        out.append((R.get_wavelength, (el, q, t, repo)))
    return out


# ============================================================================================== ADF12
@st.composite
def adf12_cases(draw):
    rec = draw(st.sampled_from(NAMES[:11] + ["deuterium", "helium3"]))
    z = _Z[rec]
    pairs = draw(st.lists(st.tuples(st.integers(1, 12), st.integers(1, 5)).map(lambda t: (t[0] + t[1], t[0])),
                          min_size=1, max_size=6, unique=True))
    cnt24 = st.one_of(st.integers(1, 24), st.sampled_from([1, 2, 6, 7, 23, 24]))
    cnt12 = st.one_of(st.integers(1, 12), st.sampled_from([1, 2, 6, 7, 11, 12]))
    blocks = [{"up": u, "lo": lo, "n": [draw(cnt24), draw(cnt12), draw(cnt24), draw(cnt12), draw(cnt12)]} for u, lo in pairs]
    return {"donor": draw(st.sampled_from(["hydrogen", "helium", "deuterium"])), "meta": draw(st.integers(1, 3)), "rec": rec,
            "zr": draw(st.one_of(st.just(z), st.integers(1, z))), "blocks": blocks, "letter": draw(st.sampled_from(["D", "E"])),
            "qform": draw(st.sampled_from(["int", "np"])), "seed": draw(_seed), "forms": draw(_forms),
            "first": draw(st.sampled_from(["A", "B"])),
            "second": {"n": [[draw(cnt24), draw(cnt12), draw(cnt24), draw(cnt12), draw(cnt12)] for _ in range(3)],
                       "nblk": draw(st.integers(1, 3)), "seed": draw(_seed)}}


def build_adf12(case):
    s = W.Stream(case["seed"], 12)
    L = case["letter"]
    ranges = {"ENER": (2, 6), "TIEV": (0, 4), "DENSI": (10, 15), "ZEFF": (0, 1), "BMAG": (-1, 1)}
    blocks = []
    for c in case["blocks"]:
        b = {"upper": c["up"], "lower": c["lo"], "qefref": W.efmt(s.between(100, 999), s.between(-14, -7), 2, 10, L)}
        b["ref"] = [W.efmt(s.between(100, 999), s.between(*ranges[k]), 2, 10, L) for k in ("ENER", "TIEV", "DENSI", "ZEFF", "BMAG")]
        for k, n in zip(("ENER", "TIEV", "DENSI", "ZEFF", "BMAG"), c["n"]):
            b[k] = [W.efmt(m, e, 2, 10, L) for m, e in _grid_e(s, n, ranges[k][0], ranges[k][1], 2)]
            b["Q" + k] = [W.efmt(s.between(100, 999), s.between(-16, -7), 2, 10, L) for _ in range(n)]
        blocks.append(b)
    d = {"receiver": _hsym(EL[case["rec"]]), "zr": case["zr"], "donor": _hsym(EL[case["donor"]]), "meta": case["meta"],
         "zero": W.efmt(0, 0, 2, 10, L), "blocks": blocks, "trailer": TRAILER}
    return d, W.write_adf12(d)


ADF12_KEYS = (("eb", "ENER", 1.0), ("ti", "TIEV", 1.0), ("ni", "DENSI", 1e6), ("z", "ZEFF", 1.0), ("b", "BMAG", 1.0),
              ("qeb", "QENER", 1e-6), ("qti", "QTIEV", 1e-6), ("qni", "QDENSI", 1e-6), ("qz", "QZEFF", 1e-6), ("qb", "QBMAG", 1e-6))
_OTHER_DONOR = {"hydrogen": "helium", "helium": "deuterium", "deuterium": "hydrogen"}


def _nt_adf12(case):
    return bool(len(case["blocks"]) >= 2 or any(n % 6 for c in case["blocks"] for n in c["n"]))


def _check_parse_adf12(ctx, d, don, meta, rec, zr, got, tag):
    ctx.check(list(got.keys()) == [don] and list(got[don].keys()) == [rec] and list(got[don][rec].keys()) == [zr],
              tag + "parse/species-key", lambda: "keys %r" % (list(got.keys()),))
    trs = sorted((b["upper"], b["lower"]) for b in d["blocks"])
    ctx.check(sorted(got[don][rec][zr].keys()) == trs, tag + "parse/transitions",
              lambda: "transitions %r, the file has %r" % (sorted(got[don][rec][zr].keys()), trs))
    for b in d["blocks"]:
        t = (b["upper"], b["lower"])
        ctx.check(list(got[don][rec][zr][t].keys()) == [meta], tag + "parse/metastable-key",
                  lambda: "metastable keys %r" % (list(got[don][rec][zr][t].keys()),))
        g = got[don][rec][zr][t][meta]
        info = "(n=%d-%d)" % t
        for key, name, f in ADF12_KEYS:
            _eq(ctx, _item(ctx, g, key, tag + "parse/" + key), _vals(b[name]) * f, tag + "parse/" + key, info)
        ref = _vals(b["ref"])
        for key, w in (("ebref", ref[0]), ("tiref", ref[1]), ("niref", ref[2] * 1e6), ("zref", ref[3]), ("bref", ref[4]),
                       ("qref", W.value(b["qefref"]) * 1e-6)):
            _eq(ctx, _item(ctx, g, key, tag + "parse/" + key), w, tag + "parse/" + key, info)


def _check_repo_adf12(ctx, d, don, meta, rec, zr, repo, tag):
    for b in d["blocks"]:
        t = (b["upper"], b["lower"])
        lst = _get_twice(ctx, tag + "get/beam_cx", lambda: R.get_beam_cx_rates(don, rec, zr, t, repo))
        ctx.check([m for m, _ in lst] == [meta], tag + "repo/metastables", lambda: "metastables %r, installed %r" % ([m for m, _ in lst], [meta]))
        g = lst[0][1]
        for key, name, f in ADF12_KEYS:
            _eq(ctx, _item(ctx, g, key, tag + "repo/" + key), _vals(b[name]) * f, tag + "repo/" + key, "(n=%d-%d)" % t)
        _eq(ctx, _item(ctx, g, "qref", tag + "repo/qref"), W.value(b["qefref"]) * 1e-6, tag + "repo/qref", "(n=%d-%d)" % t)


def run_adf12(case, ctx):
    don, rec, zr, meta = EL[case["donor"]], EL[case["rec"]], case["zr"], case["meta"]
    forms = case.get("forms", PLAIN)
    first = case.get("first", "A")
    zra = _q(zr, case.get("qform", "int"))
    d, text = build_adf12(case)
    ctx.label("blocks:%s" % min(len(case["blocks"]), 4), "letter:" + case["letter"], "q:" + case.get("qform", "int"))
    if case["donor"] in ISOTOPES or case["rec"] in ISOTOPES:
        ctx.label("species:isotope")
    if any(c["n"][0] == 24 or c["n"][1] == 12 for c in case["blocks"]):
        ctx.label("count:max")
    ctx.nt(_nt_adf12(case))
    rel = "adf12/qef93#%s/qef93#%s_%s%d.dat" % (don.symbol.lower(), don.symbol.lower(), rec.symbol.lower(), zr)
    # interfering file B: another donor (so that it lives in another repository file), generated counts and numbers
    sec = case.get("second") or {"n": [[c["n"][2], c["n"][3], c["n"][0], c["n"][4], c["n"][1]] for c in case["blocks"]] * 3, "nblk": 2,
                                 "seed": case["seed"] ^ 0x1234567}
    case2 = dict(case, donor=_OTHER_DONOR[case["donor"]], seed=sec["seed"],
                 blocks=[dict(c, n=sec["n"][k]) for k, c in enumerate(case["blocks"][:sec["nblk"]])])
    don2 = EL[case2["donor"]]
    d2, text2 = build_adf12(case2)
    _bigger(ctx, sum(sum(c["n"]) for c in case["blocks"]), sum(sum(c["n"]) for c in case2["blocks"]))
    plain = dict(PLAIN, repo=forms["repo"])
    with Env(rel, text, forms, stale=text2) as env:
        path2 = env.second("second/" + rel, text2)
        ctx.label("ep:parse_adf12")
        _interleave(ctx, "parse_adf12", first,
                    lambda kw: P.parse_adf12(donor_ion=don, donor_metastable=meta, receiver_ion=rec, receiver_charge=zra, adf_file_path=env.path)
                    if kw else P.parse_adf12(don, meta, rec, zra, env.path),
                    lambda kw: P.parse_adf12(donor_ion=don2, donor_metastable=meta, receiver_ion=rec, receiver_charge=zr, adf_file_path=path2)
                    if kw else P.parse_adf12(don2, meta, rec, zr, path2),
                    lambda got: _check_parse_adf12(ctx, d, don, meta, rec, zr, got, ""),
                    lambda got: _check_parse_adf12(ctx, d2, don2, meta, rec, zr, got, "second/"))

        def install_b(repo):
            _install(ctx, "install_adf12", (don2, meta, rec, zr), env, plain, rel="second/" + rel, repo_arg=repo)
        t_a = (d["blocks"][0]["upper"], d["blocks"][0]["lower"])
        if first == "B":
            with ctx.cut("install_adf12(second file, other repository)"):
                install_b(env.repo2)
            _check_repo_adf12(ctx, d2, don2, meta, rec, zr, env.repo2, "second-first/")
        with ctx.cut("install_adf12"):
            _install(ctx, "install_adf12", (don, meta, rec, zra), env, forms)
        env.check_sources(ctx)
        _check_repo_adf12(ctx, d, don, meta, rec, zr, env.repo_arg, "")
        trs = sorted((b["upper"], b["lower"]) for b in d["blocks"])
        if (40, 39) not in trs:
            _absent(ctx, "repo/absent-transition", R.get_beam_cx_rates, don, rec, zr, (40, 39), env.repo_arg)
        with ctx.cut("install_adf12(second file)"):
            _install(ctx, "install_adf12", (don2, meta, rec, zr), env, plain, rel="second/" + rel)
        env.check_sources(ctx)
        _check_repo_adf12(ctx, d2, don2, meta, rec, zr, env.repo_arg, "second/")
        _check_repo_adf12(ctx, d, don, meta, rec, zr, env.repo_arg, "after-second/")
        _alternate(ctx, env, "install_adf12",
                   lambda: _install(ctx, "install_adf12", (don, meta, rec, zra), env, forms),
                   install_b,
                   lambda: [R.get_beam_cx_rates(don, rec, zr, (b["upper"], b["lower"]), env.repo_arg) for b in d["blocks"][:3]],
                   lambda repo: _check_repo_adf12(ctx, d2, don2, meta, rec, zr, repo, "alternate/second/"),
                   lambda repo: _absent(ctx, "interference/install/leak", R.get_beam_cx_rates, don, rec, zr, t_a, repo),
                   first == "B")
        _cache_scenarios(ctx, env, "install_adf12", (don, meta, rec, zra), None,
                         lambda repo, tag: _check_repo_adf12(ctx, d, don, meta, rec, zr, repo, tag))
        env.check_sources(ctx)


# ============================================================================================== ADF21 / ADF22
BEAMS = ["hydrogen", "helium", "deuterium", "tritium"]
PARSE2X = {"adf21": "parse_adf21", "bmp": "parse_adf22bmp", "bme": "parse_adf22bme"}
INSTALL2X = {"adf21": "install_adf21", "bmp": "install_adf22bmp", "bme": "install_adf22bme"}


@st.composite
def adf2x_cases(draw):
    tgt = draw(st.sampled_from(NAMES[:11] + ["deuterium", "helium3"]))
    z = _Z[tgt]
    return {"kind": draw(st.sampled_from(["adf21", "bmp", "bme"])), "beam": draw(st.sampled_from(BEAMS)),
            "meta": draw(st.integers(1, 4)), "tgt": tgt, "zt": draw(st.one_of(st.just(z), st.integers(1, z))),
            "tr": draw(st.sampled_from([[3, 2], [4, 2], [2, 1], [5, 3]])), "trform": draw(st.sampled_from(["int", "str"])),
            "neb": draw(_size), "ndt": draw(_size), "ntt": draw(_size), "vmode": draw(st.sampled_from(["random", "random", "const"])),
            "qform": draw(st.sampled_from(["int", "np"])), "seed": draw(_seed), "forms": draw(_forms),
            "first": draw(st.sampled_from(["A", "B"])),
            "second": {"neb": draw(_small), "ndt": draw(_small), "ntt": draw(_small), "seed": draw(_seed)}}


def build_adf2x(case):
    s = W.Stream(case["seed"], 21)
    coef = (-12, -6) if case["kind"] != "bmp" else (-6, -1)
    const = case.get("vmode") == "const"

    def tok(m, e):
        return W.efmt(m, e, 3, 10)

    def cf():
        return tok(1000, coef[0]) if const else tok(s.between(1000, 9999), s.between(*coef))
    d = {"zt": case["zt"], "spec": _hsym(EL[case["tgt"]]), "date": "18/09/97", "code": "ADAS310",
         "svref": tok(s.between(1000, 9999), s.between(*coef))[1:], "tref": tok(s.between(1000, 9999), s.between(0, 4))[1:],
         "eref": tok(s.between(1000, 9999), s.between(3, 5))[1:], "dref": tok(s.between(1000, 9999), s.between(11, 14))[1:],
         "eb": [tok(m, e) for m, e in _grid_e(s, case["neb"], 2, 6, 3)],
         "dt": [tok(m, e) for m, e in _grid_e(s, case["ndt"], 10, 15, 3)],
         "tt": [tok(m, e) for m, e in _grid_e(s, case["ntt"], 0, 4, 3)], "trailer": TRAILER}
    d["sv"] = [[cf() for _ in range(case["neb"])] for _ in range(case["ndt"])]
    d["svt"] = [cf() for _ in range(case["ntt"])]
    return d, W.write_adf2x(d)


def _want_adf2x(d, norm):
    return {"e": _vals(d["eb"]), "n": _vals(d["dt"]) * 1e6, "t": _vals(d["tt"]), "sen": _vals(d["sv"]).T * norm,
            "st": _vals(d["svt"]) * norm, "eref": W.value(d["eref"]), "nref": W.value(d["dref"]) * 1e6, "tref": W.value(d["tref"]),
            "sref": W.value(d["svref"]) * norm}


def _parse_adf2x(kind, beam, meta, tgt, zt, tr, path, kw=False):
    if kind == "adf21":
        if kw:
            return P.parse_adf21(beam_species=beam, target_ion=tgt, target_charge=zt, adf_file_path=path)
        return P.parse_adf21(beam, tgt, zt, path)
    if kind == "bmp":
        if kw:
            return P.parse_adf22bmp(beam_species=beam, beam_metastable=meta, target_ion=tgt, target_charge=zt, adf_file_path=path)
        return P.parse_adf22bmp(beam, meta, tgt, zt, path)
    if kw:
        return P.parse_adf22bme(beam_species=beam, target_ion=tgt, target_charge=zt, transition=tr, adf_file_path=path)
    return P.parse_adf22bme(beam, tgt, zt, tr, path)


def _leaf_adf2x(ctx, kind, got, beam, meta, tgt, zt, tr, tag):
    chain = {"adf21": [beam, tgt, zt], "bmp": [beam, meta, tgt, zt], "bme": [beam, tgt, zt, tr]}[kind]
    g = got
    for k in chain:
        ctx.check(hasattr(g, "keys") and list(g.keys()) == [k], tag + "parse/keys", lambda: "unexpected key structure %r, expected chain %r" % (got, chain))
        g = g[k]
    return g


def _get_adf2x(kind, beam, meta, tgt, zt, tr, repo):
    if kind == "adf21":
        return R.get_beam_stopping_rate(beam, tgt, zt, repo)
    if kind == "bmp":
        return R.get_beam_population_rate(beam, meta, tgt, zt, repo)
    return R.get_beam_emission_rate(beam, tgt, zt, tr, repo)


def _args_adf2x(kind, beam, meta, tgt, zt, tr):
    return {"adf21": (beam, tgt, zt), "bmp": (beam, meta, tgt, zt), "bme": (beam, tgt, zt, tr)}[kind]


def _nt_adf2x(case):
    return bool(case["neb"] % 8 or case["ndt"] % 8 or case["ntt"] % 8)


def run_adf2x(case, ctx):
    kind = case["kind"]
    forms = case.get("forms", PLAIN)
    first = case.get("first", "A")
    beam, tgt, zt, meta = EL[case["beam"]], EL[case["tgt"]], case["zt"], case["meta"]
    tri = tuple(case["tr"])                                                   # canonical transition, used for reading
    tr = tuple(str(x) for x in tri) if case.get("trform") == "str" else tri     # the form handed to parse / install
    zta = _q(zt, case.get("qform", "int"))
    d, text = build_adf2x(case)
    ctx.label(kind, "q:" + case.get("qform", "int"))
    if kind == "bme" and case.get("trform") == "str":
        ctx.label("tr:str")
    if case["beam"] in ISOTOPES or case["tgt"] in ISOTOPES:
        ctx.label("species:isotope")
    ctx.nt(_nt_adf2x(case))
    norm = 1.0 if kind == "bmp" else 1e-6       # population coefficients are dimensionless, the other two are cm^3/s
    want = _want_adf2x(d, norm)
    sym = (beam.symbol.lower(), tgt.symbol.lower(), zt)
    rel = {"adf21": "adf21/bms97#%s/bms97#%s_%s%d.dat" % (sym[0], sym[0], sym[1], sym[2]),
           "bmp": "adf22/bmp97#%s/bmp97#%s_%d_%s%d.dat" % (sym[0], sym[0], meta, sym[1], sym[2]),
           "bme": "adf22/bme10#%s/bme10#%s_%s%d.dat" % (sym[0], sym[0], sym[1], sym[2])}[kind]
    # interfering file B: another beam species (so that it lives in another repository file), generated sizes and numbers
    sec = case.get("second") or {"neb": case["ntt"] % 9 + 1, "ndt": case["neb"] % 7 + 1, "ntt": case["ndt"] % 10 + 1, "seed": case["seed"] ^ 0x7654321}
    case2 = dict(case, beam=BEAMS[(BEAMS.index(case["beam"]) + 1) % len(BEAMS)], seed=sec["seed"], neb=sec["neb"], ndt=sec["ndt"],
                 ntt=sec["ntt"], vmode="random")
    beam2 = EL[case2["beam"]]
    d2, text2 = build_adf2x(case2)
    want2 = _want_adf2x(d2, norm)
    _bigger(ctx, case["neb"] * case["ndt"] + case["ntt"], case2["neb"] * case2["ndt"] + case2["ntt"])
    info = "(%d energies x %d densities, %d temperatures)" % (case["neb"], case["ndt"], case["ntt"])
    plain = dict(PLAIN, repo=forms["repo"])

    def check_parse(got, bm, t, w, tag, inf):
        g = _leaf_adf2x(ctx, kind, got, bm, meta, tgt, zt, t, tag)
        for k, v in w.items():
            _eq(ctx, _item(ctx, g, k, tag + "parse/" + k), v, tag + "parse/" + k, inf)

    def check_repo(bm, w, repo, tag, inf):
        g = _get_twice(ctx, tag + "get/" + kind, lambda: _get_adf2x(kind, bm, meta, tgt, zt, tri, repo))
        for k, v in w.items():
            _eq(ctx, _item(ctx, g, k, tag + "repo/" + k), v, tag + "repo/" + k, inf)
    with Env(rel, text, forms, stale=text2) as env:
        path2 = env.second("second/" + rel, text2)
        ctx.label("ep:" + PARSE2X[kind])
        _interleave(ctx, PARSE2X[kind], first,
                    lambda kw: _parse_adf2x(kind, beam, meta, tgt, zta, tr, env.path, kw=kw),
                    lambda kw: _parse_adf2x(kind, beam2, meta, tgt, zt, tri, path2, kw=kw),
                    lambda got: check_parse(got, beam, tr, want, "", info),
                    lambda got: check_parse(got, beam2, tri, want2, "second/", ""))
        # the shared reader called directly: default normalisation (1), another file in between, an explicit factor
        ctx.label("ep:parse_adas2x_rate", "ep:readvalues")
        with ctx.cut("parse_adas2x_rate"):
            with open(env.path) as f:
                raw = U.parse_adas2x_rate(f)
            with open(path2) as f:
                U.parse_adas2x_rate(f)
            with open(env.path) as f:
                raw2 = U.parse_adas2x_rate(f, normalisation=2.0)
            with open(env.path) as f:
                for _ in range(4):
                    f.readline()
                eb = U.readvalues(f, case["neb"], 8)
                dt = U.readvalues(f, case["ndt"], values_per_line=8, type=float)
        for k, w in _want_adf2x(d, 1.0).items():
            _eq(ctx, _item(ctx, raw, k, "direct/" + k), w, "direct/" + k, info + " parse_adas2x_rate(file)")
        for k, w in _want_adf2x(d, 2.0).items():
            _eq(ctx, _item(ctx, raw2, k, "direct/" + k), w, "direct/" + k, info + " parse_adas2x_rate(file, normalisation=2)")
        _eq(ctx, eb, _vals(d["eb"]), "direct/readvalues", info)
        _eq(ctx, dt, _vals(d["dt"]), "direct/readvalues", info)

        def install_b(repo):
            _install(ctx, INSTALL2X[kind], _args_adf2x(kind, beam2, meta, tgt, zt, tri), env, plain, rel="second/" + rel, repo_arg=repo)
        if first == "B":
            with ctx.cut(INSTALL2X[kind] + "(second file, other repository)"):
                install_b(env.repo2)
            check_repo(beam2, want2, env.repo2, "second-first/", "")
        # ---- install -> repository
        with ctx.cut(INSTALL2X[kind]):
            _install(ctx, INSTALL2X[kind], _args_adf2x(kind, beam, meta, tgt, zta, tr), env, forms)
        env.check_sources(ctx)
        check_repo(beam, want, env.repo_arg, "", info)
        if zt + 1 <= tgt.atomic_number:
            _absent(ctx, "repo/absent-charge", lambda *a: _get_adf2x(kind, *a), beam, meta, tgt, zt + 1, tri, env.repo_arg)
        with ctx.cut(INSTALL2X[kind] + "(second file)"):
            _install(ctx, INSTALL2X[kind], _args_adf2x(kind, beam2, meta, tgt, zt, tri), env, plain, rel="second/" + rel)
        env.check_sources(ctx)
        check_repo(beam2, want2, env.repo_arg, "second/", "")
        check_repo(beam, want, env.repo_arg, "after-second/", info)
        _alternate(ctx, env, INSTALL2X[kind],
                   lambda: _install(ctx, INSTALL2X[kind], _args_adf2x(kind, beam, meta, tgt, zta, tr), env, forms),
                   install_b,
                   lambda: _get_adf2x(kind, beam, meta, tgt, zt, tri, env.repo_arg),
                   lambda repo: check_repo(beam2, want2, repo, "alternate/second/", ""),
                   lambda repo: _absent(ctx, "interference/install/leak", lambda *a: _get_adf2x(kind, *a), beam, meta, tgt, zt, tri, repo),
                   first == "B")
        _cache_scenarios(ctx, env, INSTALL2X[kind], _args_adf2x(kind, beam, meta, tgt, zta, tr), None,
                         lambda repo, tag: check_repo(beam, want, repo, tag, info))
        env.check_sources(ctx)


# ============================================================================================== negative cases
HEADER_KINDS = ("adf15-header", "adf2x-header", "adf12-header")
INSTALLERS = ["install_adf11scd", "install_adf11acd", "install_adf11ccd", "install_adf11plt", "install_adf11prb", "install_adf11prc",
              "install_adf12", "install_adf15", "install_adf21", "install_adf22bmp", "install_adf22bme"]
ISO_OF = {"hydrogen": ["deuterium", "tritium"], "helium": ["helium3"]}


def _adf11_mismatch(draw):
    how = draw(st.sampled_from(["other", "name", "z", "isotope"]))
    f = draw(adf11_cases())
    if how == "isotope":        # a consistent HYDROGEN / HELIUM file, requested as one of the element's isotopes
        f["el"] = draw(st.sampled_from(sorted(ISO_OF)))
        z = _Z[f["el"]]
        f["nblk"] = min(f["nblk"], z)
        f["z1min"] = min(f["z1min"], z - f["nblk"] + 1)
        return {"kind": "adf11-element", "file": f, "how": how, "other": draw(st.sampled_from(ISO_OF[f["el"]]))}
    others = [n for n in NAMES if n != f["el"]]
    return {"kind": "adf11-element", "file": f, "how": how, "other": draw(st.sampled_from(others))}


@st.composite
def negative_cases(draw):
    kind = draw(st.sampled_from(["adf11-element", "adf11-element", "adf15-absent", "adf15-absent", "missing-file"] + list(HEADER_KINDS)))
    if kind in HEADER_KINDS and EXCLUDE_HEADER:
        case = _adf11_mismatch(draw)             # class excluded while C08-header-unchecked is open
        case["excluded_known"] = True
        return case
    if kind == "adf11-element":
        return _adf11_mismatch(draw)
    if kind == "adf15-absent":
        return {"kind": kind, "file": draw(adf15_cases(absent=True))}
    if kind == "missing-file":
        return {"kind": kind, "fn": draw(st.sampled_from(INSTALLERS)), "file": {"forms": draw(_forms)},
                "where": draw(st.sampled_from(["no-such-file", "directory", "other-class"]))}
    how = draw(st.sampled_from(["element", "charge"]))
    if kind == "adf15-header":
        # the file is self-consistent; it is requested under another element or another charge.  Modes are limited to those
        # where the request does not switch the parser to another comment-index style (which would fail for an unrelated reason)
        f = draw(adf15_cases(modes=["full", "hf-hydrogen", "hf-hydrogen-like"]))
        full = f["mode"] == "full"
        charges = [c for c in range(0, _Z[f["el"]] - (1 if full else 0)) if c != f["charge"]]
        others = [n for n in NAMES[1:] if _Z[n] != _Z[f["el"]] and _Z[n] - f["charge"] >= (2 if full else 1)]
    elif kind == "adf2x-header":
        f = draw(adf2x_cases())
        charges = [c for c in range(1, _Z[f["tgt"]] + 1) if c != f["zt"]]
        others = [n for n in NAMES[:11] if _Z[n] != _Z[f["tgt"]] and _Z[n] >= f["zt"]]
    else:
        f = draw(adf12_cases())
        charges = [c for c in range(1, _Z[f["rec"]] + 1) if c != f["zr"]]
        others = [n for n in NAMES[:11] if _Z[n] != _Z[f["rec"]] and _Z[n] >= f["zr"]]
    if how == "charge" and not charges or not others:
        how = "element" if others else "charge"
    case = {"kind": kind, "file": f, "how": how}
    if how == "element":
        case["other"] = draw(st.sampled_from(others))
    else:
        case["charge"] = draw(st.sampled_from(charges))
    return case


def _must_reject(ctx, what, env, parse, install, exc=(Exception,)):
    if parse is not None:
        ctx.raises(exc, what + "/parse", parse)
    ctx.raises(exc, what + "/install", install)
    left = [p for p in _files(env.root) if not p.startswith("_download_cache")] if os.path.isdir(env.root) else []
    ctx.check(left == [], what + "/install", lambda: "rejected file left %r in the repository" % (left[:4],))
    if env.forms["repo"] == "explicit":
        _no_stray(ctx, what + "/install")


def _dummy_args(fname):
    h, c = E.hydrogen, E.carbon
    return {"install_adf11ccd": (h, 0, c), "install_adf12": (h, 1, c, 6), "install_adf15": (c, 1), "install_adf21": (h, c, 6),
            "install_adf22bmp": (h, 2, c, 6), "install_adf22bme": (h, c, 6, (3, 2))}.get(fname, (c,))


def run_negative(case, ctx):
    kind, f = case["kind"], case["file"]
    forms = f.get("forms", PLAIN)
    ctx.label(kind)
    if case.get("excluded_known"):
        ctx.label("excluded_known")
    if kind == "adf11-element":
        ctx.label("adf11-how:" + case["how"])
        ctx.nt(_nt_adf11(f))
        el, other = EL[f["el"]], EL[case["other"]]
        if case["how"] in ("other", "isotope"):   # a consistent file of `el`, requested as `other` (another element / an isotope of el)
            (_, text), req = build_adf11(f), other
        elif case["how"] == "name":         # header: Z of `el`, name of `other`; requested as `el`
            (_, text), req = build_adf11(f, name=other.name), el
        else:                               # header: name of `el`, Z of `other`; requested as `el`
            (_, text), req = build_adf11(f, z=other.atomic_number), el
        rel = ADF11[f["cls"]][3] % req.symbol.lower()
        with Env(rel, text, forms) as env:
            _must_reject(ctx, "adf11-mismatch", env, lambda: P.parse_adf11(req, env.path),
                         lambda: _install(ctx, ADF11[f["cls"]][1], _args_adf11(f, req), env, forms))
    elif kind == "adf15-absent":
        ctx.nt(_nt_adf15(f))
        ctx.label("style:" + f["style"])
        el, q = EL[f["el"]], f["charge"]
        _, text, _ = build_adf15(f)
        with Env(_rel_adf15(f), text, forms) as env:
            _must_reject(ctx, "adf15-absent-block", env, lambda: P.parse_adf15(el, q, env.path, header_format=_hf(f)),
                         lambda: _install(ctx, "install_adf15", (el, q), env, forms, header_format=_hf(f)))
    elif kind == "missing-file":            # documented: ValueError('Could not locate the specified ADAS file.'); any error accepted
        ctx.nt()
        fn = case["fn"]
        ctx.label("missing:" + fn, "where:" + case["where"])
        forms = dict(forms, dl="false" if forms["dl"] in ("true-adas", "cache", "stale-cache") else forms["dl"])     # never reach for the network
        d, text = build_adf11({"cls": "scd", "el": "carbon", "z1min": 1, "nblk": 1, "nd": 2, "nt": 2, "resolved": False, "ld0": 800000,
                               "lt0": 0, "dash": 80, "lead": "", "iprt": True, "project": 0, "seed": 1})
        with Env("adf11/scd96/scd96_c.dat", text, forms) as env:
            rel = {"no-such-file": "adf11/scd96/scd96_x.dat", "directory": "adf11/scd96", "other-class": "adf11/acd96/scd96_c.dat"}[case["where"]]
            _must_reject(ctx, "missing-file", env, None, lambda: _install(ctx, fn, _dummy_args(fn), env, forms, rel=rel))
    elif kind == "adf15-header":            # header '/C + 1 PHOTON EMISSIVITY COEFFICIENTS/' requested as another element / charge
        ctx.nt(_nt_adf15(f))
        ctx.label("how:" + case["how"])
        el = EL[case["other"]] if case["how"] == "element" else EL[f["el"]]
        q = case["charge"] if case["how"] == "charge" else f["charge"]
        _, text, _ = build_adf15(f)
        with Env(_rel_adf15(f), text, forms) as env:
            _must_reject(ctx, "adf15-header", env, lambda: P.parse_adf15(el, q, env.path, header_format=_hf(f)),
                         lambda: _install(ctx, "install_adf15", (el, q), env, forms, header_format=_hf(f)))
    elif kind == "adf2x-header":            # header 'ZT= 6 ... SPEC=C' requested as another target element / charge
        ctx.nt(_nt_adf2x(f))
        ctx.label("how:" + case["how"], f["kind"])
        beam, meta, tr = EL[f["beam"]], f["meta"], tuple(f["tr"])
        tgt = EL[case["other"]] if case["how"] == "element" else EL[f["tgt"]]
        zt = case["charge"] if case["how"] == "charge" else f["zt"]
        _, text = build_adf2x(f)
        with Env("adf2x/file.dat", text, forms) as env:
            _must_reject(ctx, PARSE2X[f["kind"]].replace("parse_", "") + "-header", env,
                         lambda: _parse_adf2x(f["kind"], beam, meta, tgt, zt, tr, env.path),
                         lambda: _install(ctx, INSTALL2X[f["kind"]], _args_adf2x(f["kind"], beam, meta, tgt, zt, tr), env, forms))
    else:                                   # adf12 block header ' C + 6  H + 0 (1)' requested as another receiver element / charge
        ctx.nt(_nt_adf12(f))
        ctx.label("how:" + case["how"])
        don, meta = EL[f["donor"]], f["meta"]
        rec = EL[case["other"]] if case["how"] == "element" else EL[f["rec"]]
        zr = case["charge"] if case["how"] == "charge" else f["zr"]
        _, text = build_adf12(f)
        with Env("adf12/file.dat", text, forms) as env:
            _must_reject(ctx, "adf12-header", env, lambda: P.parse_adf12(don, meta, rec, zr, env.path),
                         lambda: _install(ctx, "install_adf12", (don, meta, rec, zr), env, forms))


SUBCHECKS = {
    "adf11": Given(adf11_cases, run_adf11, quick=320, thorough=12000),
    "adf15": Given(adf15_cases, run_adf15, quick=240, thorough=9000),
    "adf12": Given(adf12_cases, run_adf12, quick=96, thorough=3000),
    "adf2x": Given(adf2x_cases, run_adf2x, quick=120, thorough=5000),
    "negative": Given(negative_cases, run_negative, quick=96, thorough=3000),
}
