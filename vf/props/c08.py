"""C08 - ADF parsers return the file's numbers under the documented conventions (inputs property).

case (JSON file description) -> independent writer (vf/oracles/adf_writers.py) -> text file in a temp ADAS tree
  -> parse_adfXX                      == the written numbers (file units, documented axis order / block keys)
  -> install_adfXX(repository_path=T) -> repository.get_*(T) == the written numbers after the documented conversions
  -> nothing may appear under $HOME (redirected before cherab.openadas is imported)
"""
import atexit
import contextlib
import io
import os
import shutil
import tempfile

import numpy as np
from hypothesis import strategies as st

from ..core import Given
from ..findings import is_open
from ..oracles import adf_writers as W

# HOME is redirected *before* cherab.openadas is imported: the default repository path is computed at import time, so
# an install_* that forgets to pass repository_path on lands in this scratch HOME and is seen by _no_stray().
_SCRATCH_HOME = tempfile.mkdtemp(prefix="vf_c08_home_")
os.environ["HOME"] = _SCRATCH_HOME
atexit.register(shutil.rmtree, _SCRATCH_HOME, True)

from cherab.core.atomic import elements as E  # noqa: E402
from cherab.openadas import install as I  # noqa: E402
from cherab.openadas import parse as P  # noqa: E402
from cherab.openadas import repository as R  # noqa: E402

ID = "C08"
SHARDS = {"quick": 8, "thorough": 16}

# Open findings whose input class is excluded by construction in the generators while open.  VERIF_NO_EXCLUDE=<id>[,<id>]
# (or "all") switches an exclusion off by hand (to confirm a proposed fix on a scratch copy); it can only make the check stricter.
_NOEX = set(filter(None, os.environ.get("VERIF_NO_EXCLUDE", "").split(",")))


def _excluded(fid):
    return is_open(fid) and not (fid in _NOEX or "all" in _NOEX)


EXCLUDE_LINE4 = _excluded("C08-adf11-negative-line4")      # unresolved ADF11, <= 8 densities, first log10(Te) < 0
EXCLUDE_CHEXC = _excluded("C08-adf15-chexc-default-repo")  # install_adf15 of a file holding CHEXC blocks
EXCLUDE_HEADER = _excluded("C08-header-unchecked")         # adf12/15/21/22 file requested under another element / charge

RULE = ("One case = JSON description of one ADAS file: format/class, element(s), grid sizes drawn from 1..40 (uniform mixed with "
        "1,7,8,9,15,16,17,24,25,32,33,40), 1..Z charge-state blocks (ADF11; any Z1 sub-range; size cap 9000 values) or 1..8 (ADF15) / 1..6 (ADF12) transition blocks, "
        "header style variants, and an integer seed; every number of the file is a pure function (splitmix64) of the seed, drawn "
        "on the lattice of the printed precision (F10.5: k*1e-5; 1PE9.2 / 1PD10.2 / 1PE10.3: integer mantissa and exponent), so the "
        "text is exact. Sub-checks: adf11 (scd/acd/ccd/plt/prb/prc, resolved and unresolved), adf15 (hydrogen / hydrogen-like / "
        "full-configuration comment index, auto-detected or forced with header_format, EXCIT/RECOM/CHEXC), adf12, adf2x (adf21, "
        "adf22 bmp, adf22 bme), negative (ADF11 element name / Z header mismatch, ADF15 index entry without data block, and - generated only "
        "while finding C08-header-unchecked is not open - an ADF12/15/21/22 file requested under another element or charge than its "
        "header states: parse_* and install_* must raise, the repository must stay empty). Every positive "
        "case checks parse_adf*, install_adf* + repository.get_* (+ RuntimeError for neighbouring absent keys) and that $HOME "
        "stays empty. Non-trivial = a grid size that is not a multiple of the per-line count (8; ADF12: 6), or >= 2 blocks, or a "
        "resolved ADF11 file, or first temperature < 1 eV (negative log10).")
ASSUMPTIONS = ["the writers reproduce the published ADAS FORMAT statements; no real ADAS file is available offline",
               "header lines of ADF12/21/22, the ADF15 block header and the ADF15 comment index are reconstructed and agree with the "
               "parser's column constants / regexes by construction (corroborated by, not independent of, the parser)",
               "resolved ADF11 files carry one (IPRT, IGRD) block per Z1 (the parser's output has no metastable axis)",
               "ADF11 log10 values stay within F10.5 with a blank separator (|x| < 1000); ADF12/21/22 numbers are positive",
               "every ADF file ends with the customary 'C----' comment trailer",
               "HOME redirection before import captures every write that ignores repository_path"]
TOLERANCES = {"all tables": "1e-12 relative, element-wise: both sides convert the same decimal text to binary (correctly rounded), the "
                            "conversions are one multiplication (x1e6, x1e-6, /10) or one pow (10**x): <= a few ulp (2.2e-16) apart"}
REQUIRED_LABELS = ["adf11:resolved", "adf11:unresolved", "adf11:te<1eV", "adf15:style:hydrogen", "adf15:style:hydrogen-like",
                   "adf15:style:full", "adf15:type:EXCIT", "adf15:type:RECOM", "adf15:type:CHEXC", "adf2x:adf21", "adf2x:bmp",
                   "adf2x:bme", "negative:adf11-element", "negative:adf15-absent"]

RTOL = 1e-12

# ---------------------------------------------------------------------------------------------- small helpers
NAMES = ["hydrogen", "helium", "lithium", "beryllium", "boron", "carbon", "nitrogen", "oxygen", "fluorine", "neon", "argon",
         "krypton", "tungsten"]
EL = {n: getattr(E, n) for n in NAMES}
SIZES = [1, 7, 8, 9, 15, 16, 17, 24, 25, 32, 33, 40]
_size = st.one_of(st.integers(1, 40), st.sampled_from(SIZES), st.integers(1, 12))
_seed = st.integers(0, 2 ** 32 - 1)
TRAILER = ["C", "C  Written by the C08 oracle (vf/oracles/adf_writers.py); numbers are synthetic.", "C",
           "C  PRODUCER : verif", "C  DATE     : 28/09/26", "C"]


def _vals(tokens):
    """text tokens (possibly nested lists) -> float64 array of the numbers they stand for"""
    if tokens and isinstance(tokens[0], list):
        return np.array([[W.value(t) for t in row] for row in tokens], dtype=np.float64).reshape((len(tokens), len(tokens[0])))
    return np.array([W.value(t) for t in tokens], dtype=np.float64)


def _pow10(a):
    """10**x, element by element with python floats (libm pow), independent of numpy's vector pow"""
    a = np.asarray(a, dtype=np.float64)
    return np.array([10.0 ** float(x) for x in a.ravel()], dtype=np.float64).reshape(a.shape)


def _eq(ctx, got, want, what, info=""):
    """element-wise |got - want| <= RTOL * |want| and identical shape"""
    try:
        g = np.asarray(got, dtype=np.float64)
    except Exception as e:  # noqa
        ctx.fail(what, "not a numeric array: %s %s" % (e, info))
    w = np.asarray(want, dtype=np.float64)
    if g.shape != w.shape:
        ctx.fail(what, "shape %s, expected %s %s" % (g.shape, w.shape, info))
    if g.size == 0:
        return
    bad = ~(np.abs(g - w) <= RTOL * np.abs(w))
    if bad.any():
        i = int(np.argmax(bad.ravel()))
        idx = np.unravel_index(i, w.shape) if w.ndim else ()
        ctx.fail(what, "%d of %d entries differ; first at %s: got %r, file says %r %s"
                 % (int(bad.sum()), w.size, tuple(int(k) for k in idx), float(g.ravel()[i]), float(w.ravel()[i]), info))


def _item(ctx, d, k, what):
    try:
        return d[k]
    except Exception as e:  # noqa
        ctx.fail(what, "entry %r is missing (%s: %s); has %r" % (k, type(e).__name__, e, sorted(map(str, d.keys())) if hasattr(d, "keys") else d))


def _no_stray(ctx, what):
    p = os.path.join(_SCRATCH_HOME, ".cherab")
    if os.path.exists(p):
        found = []
        for root, _, files in os.walk(p):
            found += [os.path.relpath(os.path.join(root, f), _SCRATCH_HOME) for f in files]
        shutil.rmtree(p, ignore_errors=True)
        ctx.fail("stray", "%s ignored repository_path: files appeared under ~/: %r" % (what, sorted(found)[:4]))


def _reset_home():
    """leftovers of an earlier, already reported, violating case must not be blamed on this one"""
    shutil.rmtree(os.path.join(_SCRATCH_HOME, ".cherab"), ignore_errors=True)


def _files(root):
    out = []
    for r, _, files in os.walk(root):
        out += [os.path.relpath(os.path.join(r, f), root) for f in files]
    return sorted(out)


@contextlib.contextmanager
def _workspace(rel, text):
    """temp dir with adas/<rel> holding the file and an empty repo/; yields (adas_root, repo_path, absolute file path)"""
    top = tempfile.mkdtemp(prefix="vf_c08_")
    try:
        adas, repo = os.path.join(top, "adas"), os.path.join(top, "repo")
        path = os.path.join(adas, rel)
        os.makedirs(os.path.dirname(path))
        os.makedirs(repo)
        with open(path, "w") as f:
            f.write(text)
        yield adas, repo, path
    finally:
        shutil.rmtree(top, ignore_errors=True)


def _quiet(fn, *a, **k):
    """install_* print progress lines; keep the shard logs small"""
    with contextlib.redirect_stdout(io.StringIO()):
        return fn(*a, **k)


def _absent(ctx, what, fn, *a):
    try:
        got = fn(*a)
    except RuntimeError:
        return
    except Exception as e:  # noqa
        ctx.fail(what, "reading a key the file does not hold raised %s instead of RuntimeError: %s" % (type(e).__name__, e))
    ctx.fail(what, "key %r that the file does not hold is readable after install: %r" % (a[:-1], sorted(got) if isinstance(got, dict) else got))


def _grid_f(s, start, n, lo=1000, hi=60000):
    """n increasing F10.5 lattice values (integers, units of 1e-5) from `start`"""
    out, k = [], int(start)
    for _ in range(n):
        out.append(k)
        k += s.between(lo, hi)
    return out


def _grid_e(s, n, emin, emax, digits):
    """n increasing (mantissa, exponent) pairs"""
    seen = set()
    lo, hi = 10 ** digits, 10 ** (digits + 1) - 1
    while len(seen) < n:
        seen.add((s.between(emin, emax), s.between(lo, hi)))
    return [(m, e) for e, m in sorted(seen)]


# ============================================================================================== ADF11
ADF11 = {  # class -> (charge offset w.r.t. Z1, install function, reader)
    "scd": (-1, "install_adf11scd", "get_ionisation_rate", "adf11/scd96/scd96_%s.dat"),
    "acd": (0, "install_adf11acd", "get_recombination_rate", "adf11/acd96/acd96_%s.dat"),
    "ccd": (0, "install_adf11ccd", "get_thermal_cx_rate", "adf11/ccd96/ccd96_%s.dat"),
    "plt": (-1, "install_adf11plt", "get_line_radiated_power_rate", "adf11/plt96/plt96_%s.dat"),
    "prb": (0, "install_adf11prb", "get_continuum_radiated_power_rate", "adf11/prb96/prb96_%s.dat"),
    "prc": (0, "install_adf11prc", "get_cx_radiated_power_rate", "adf11/prc96/prc96_%s.dat"),
}
PROJECTS = ["GCR PROJECT", "ADAS89", "JET/ADAS PROJECT"]


@st.composite
def adf11_cases(draw):
    el = draw(st.sampled_from(NAMES))
    z = EL[el].atomic_number
    nd, nt = draw(_size), draw(_size)
    nblk = draw(st.one_of(st.integers(1, z), st.just(z), st.integers(1, min(z, 3))))
    nblk = max(1, min(nblk, 9000 // (nd * nt)))
    resolved = draw(st.booleans())
    if resolved:
        nblk = min(nblk, 15)       # the line of metastable counts (16I5) stays a single line
    z1min = draw(st.one_of(st.just(1), st.integers(1, z - nblk + 1)))
    lt0 = draw(st.one_of(st.integers(-150000, -1), st.integers(0, 250000), st.sampled_from([-69897, -100000, -1, 0, 1])))
    case = {"cls": draw(st.sampled_from(sorted(ADF11))), "el": el, "z1min": z1min, "nblk": nblk, "nd": nd, "nt": nt,
            "resolved": resolved, "ld0": draw(st.integers(500000, 1400000)), "lt0": lt0,
            "dash": draw(st.sampled_from([71, 80])), "lead": draw(st.sampled_from(["", " "])),
            "iprt": True if resolved else draw(st.booleans()), "project": draw(st.integers(0, len(PROJECTS) - 1)),
            "seed": draw(_seed)}
    if EXCLUDE_LINE4 and not resolved and nd <= 8 and lt0 < 0:
        case["lt0"] = -lt0
        case["excluded_known"] = True
    return case


def build_adf11(case, name=None, z=None):
    """-> (writer description, text).  name / z override the header (negative cases)."""
    s = W.Stream(case["seed"], 11)
    el = EL[case["el"]]
    nd, nt = case["nd"], case["nt"]
    dens = [W.f10_5(k) for k in _grid_f(s, case["ld0"], nd)]
    temp = [W.f10_5(k) for k in _grid_f(s, case["lt0"], nt)]
    blocks = []
    for i in range(case["nblk"]):
        table = [[W.f10_5(s.between(-7400000, -300000) if s.between(0, 15) else s.between(-99, 500000)) for _ in range(nd)]
                 for _ in range(nt)]
        blocks.append({"z1": case["z1min"] + i, "iprt": 1, "igrd": 1, "table": table})
    d = {"z": el.atomic_number if z is None else z, "name": (name or el.name).upper(), "project": PROJECTS[case["project"]],
         "z1min": case["z1min"], "z1max": case["z1min"] + case["nblk"] - 1, "dens": dens, "temp": temp, "blocks": blocks,
         "resolved": case["resolved"], "meta": [1] * (case["nblk"] + 1), "dash": case["dash"], "lead": case["lead"],
         "iprt": case["iprt"], "date": "09/09/99", "trailer": TRAILER}
    return d, W.write_adf11(d)


def _nt_adf11(case):
    return bool(case["nd"] % 8 or case["nt"] % 8 or case["nblk"] >= 2 or case["resolved"] or case["lt0"] < 0)


def _install_adf11(case, el, rel, adas, repo):
    fn = getattr(I, ADF11[case["cls"]][1])
    if case["cls"] == "ccd":
        return _quiet(fn, E.hydrogen, 0, el, rel, download=False, repository_path=repo, adas_path=adas)
    return _quiet(fn, el, rel, download=False, repository_path=repo, adas_path=adas)


def _get_adf11(case, el, charge, repo):
    fn = getattr(R, ADF11[case["cls"]][2])
    if case["cls"] == "ccd":
        return fn(E.hydrogen, 0, el, charge, repo)
    return fn(el, charge, repo)


def run_adf11(case, ctx):
    _reset_home()
    cls = case["cls"]
    el = EL[case["el"]]
    off = ADF11[cls][0]
    d, text = build_adf11(case)
    ctx.label(cls, "resolved" if case["resolved"] else "unresolved", "blocks:%s" % min(case["nblk"], 4),
              "nd%%8:%d" % bool(case["nd"] % 8), "nt%%8:%d" % bool(case["nt"] % 8))
    if case["lt0"] < 0:
        ctx.label("te<1eV")
    if case["nd"] <= 8:
        ctx.label("nd<=8")
    if case.get("excluded_known"):
        ctx.label("excluded_known")
    ctx.nt(_nt_adf11(case))
    want_ne, want_te = _vals(d["dens"]), _vals(d["temp"])
    rel = ADF11[cls][3] % el.symbol.lower()
    with _workspace(rel, text) as (adas, repo, path):
        # ---- parser: log10 values in file units, table indexed (density, temperature), keyed by the Z1 of the block
        with ctx.cut("parse_adf11"):
            got = P.parse_adf11(el, path)
        ctx.check(list(got.keys()) == [el], "parse/element-key", lambda: "top-level keys %r, expected [%r]" % (list(got.keys()), el))
        z1s = [b["z1"] for b in d["blocks"]]
        ctx.check(sorted(got[el].keys()) == z1s, "parse/block-keys",
                  lambda: "charge keys %r, the file has Z1 blocks %r" % (sorted(got[el].keys()), z1s))
        for b in d["blocks"]:
            g = got[el][b["z1"]]
            info = "(Z1=%d, %d densities x %d temperatures)" % (b["z1"], case["nd"], case["nt"])
            _eq(ctx, _item(ctx, g, "ne", "parse/ne"), want_ne, "parse/ne", info)
            _eq(ctx, _item(ctx, g, "te", "parse/te"), want_te, "parse/te", info)
            _eq(ctx, _item(ctx, g, "rates", "parse/rates"), _vals(b["table"]).T, "parse/rates", info)
        # ---- install -> repository: 10**x, cm^-3 -> m^-3, cm^3 -> m^3, charge = Z1 - 1 for scd / plt
        with ctx.cut("install_adf11" + cls):
            _install_adf11(case, el, rel, adas, repo)
        _no_stray(ctx, "install_adf11" + cls)
        lin_ne, lin_te = _pow10(want_ne) * 1e6, _pow10(want_te)
        for b in d["blocks"]:
            q = b["z1"] + off
            info = "(Z1=%d -> charge %d)" % (b["z1"], q)
            with ctx.cut("get/" + cls):
                g = _get_adf11(case, el, q, repo)
            _eq(ctx, _item(ctx, g, "ne", "repo/ne"), lin_ne, "repo/ne", info)
            _eq(ctx, _item(ctx, g, "te", "repo/te"), lin_te, "repo/te", info)
            _eq(ctx, _item(ctx, g, "rate", "repo/rate"), _pow10(_vals(b["table"]).T) * 1e-6, "repo/rate", info)
        for q in (z1s[0] + off - 1, z1s[-1] + off + 1):
            if 0 <= q <= el.atomic_number:
                _absent(ctx, "repo/absent-charge", lambda *a: _get_adf11(case, *a), el, q, repo)


# ============================================================================================== ADF15
TYPES = {"EXCIT": "excitation", "RECOM": "recombination", "CHEXC": "thermalcx"}
POOLS = [["EXCIT", "RECOM"], ["EXCIT", "RECOM"], ["EXCIT"], ["EXCIT", "RECOM", "CHEXC"], ["EXCIT", "RECOM", "CHEXC"], ["CHEXC"]]
MODES = ["H", "Hlike", "Hlike-bnd", "full", "hf-hydrogen", "hf-hydrogen-like"]


@st.composite
def adf15_cases(draw, absent=False, modes=None):
    mode = draw(st.sampled_from(modes or MODES))
    if mode == "H":
        el, q = "hydrogen", 0
    else:
        # hydrogen itself is always read with the 'hydrogen' index style (element == hydrogen wins over header_format)
        el = draw(st.sampled_from(NAMES if mode == "hf-hydrogen" else NAMES[1:]))
        z = EL[el].atomic_number
        q = z - 1 if mode in ("Hlike", "Hlike-bnd") else draw(st.integers(0, z - 2)) if mode == "full" else draw(st.integers(0, z - 1))
    style = {"H": "hydrogen", "Hlike": "hydrogen-like", "Hlike-bnd": "hydrogen", "full": "full", "hf-hydrogen": "hydrogen",
             "hf-hydrogen-like": "hydrogen-like"}[mode]
    nlev = draw(st.integers(2, 9))
    typ = st.sampled_from(draw(st.sampled_from(POOLS)))      # real files: electron-impact blocks only, or with CX blocks as well
    if style == "hydrogen":
        tr = st.tuples(typ, st.integers(1, 9), st.integers(1, 6)).map(lambda t: (t[0], t[1] + t[2], t[1]))
    else:
        tr = st.tuples(typ, st.integers(1, nlev), st.integers(1, nlev - 1)).map(lambda t: (t[0], t[1], (t[1] - 1 + t[2]) % nlev + 1))
    trs = draw(st.lists(tr, min_size=1, max_size=8, unique=True))
    blocks, total = [], 0
    for t, up, lo in trs:
        nd, nt = draw(_size), draw(_size)
        if total + nd * nt > 6000 and blocks:
            break
        total += nd * nt
        blocks.append({"type": t, "up": up, "lo": lo, "nd": nd, "nt": nt})
    case = {"mode": mode, "el": el, "charge": q, "style": style, "nlev": nlev, "blocks": blocks,
            "unit": draw(st.sampled_from([" A", "A"])), "order": draw(st.sampled_from(["file", "reversed"])),
            "isel0": draw(st.sampled_from([1, 1, 1, 95, 996])), "seed": draw(_seed), "install": True}
    if absent:
        case["absent"] = draw(st.integers(0, len(blocks) - 1))
    elif EXCLUDE_CHEXC and any(b["type"] == "CHEXC" for b in blocks):
        case["install"] = False          # the parser part still runs on CHEXC blocks
        case["excluded_known"] = True
    return case


def _levels(s, n):
    out, seen = [], set()
    while len(out) < n:
        conf = []
        for _ in range(s.between(1, 3)):
            shell_n = s.between(1, 6)
            conf.append([shell_n, s.between(0, min(shell_n - 1, 4)), s.between(1, 9)])
        lv = {"conf": conf, "S": s.between(1, 7), "L": s.between(0, 13), "J": "%d.%d" % (s.between(0, 12), 5 * s.between(0, 1))}
        if W.level_name(lv) not in seen:
            seen.add(W.level_name(lv))
            out.append(lv)
    return out


def build_adf15(case):
    """-> (writer description, text, expected [(class, transition, block)], wavelengths {transition: Angstrom token value})"""
    s = W.Stream(case["seed"], 15)
    el = EL[case["el"]]
    levels = _levels(s, case["nlev"]) if case["style"] != "hydrogen" else []
    wl = {}
    blocks = []
    for i, c in enumerate(case["blocks"]):
        key = (c["up"], c["lo"])
        if key not in wl:
            wl[key] = W.Stream(case["seed"], 1000 + 100 * c["up"] + c["lo"]).between(100, 99999)   # tenths of an Angstrom
        ws = W.Stream(case["seed"], 2000 + i)
        dens = [W.efmt(m, e, 2, 9) for m, e in _grid_e(ws, c["nd"], 7, 16, 2)]
        temp = [W.efmt(m, e, 2, 9) for m, e in _grid_e(ws, c["nt"], -1, 4, 2)]
        table = [[W.efmt(ws.between(100, 999) if ws.between(0, 15) else 0, ws.between(-40, -5), 2, 9) for _ in range(c["nt"])]
                 for _ in range(c["nd"])]
        blocks.append({"isel": case["isel0"] + i, "type": c["type"], "wl": wl[key], "upper": c["up"], "lower": c["lo"],
                       "dens": dens, "temp": temp, "table": table, "data": case.get("absent") != i})
    order = list(range(len(blocks)))
    if case["order"] == "reversed":
        order.reverse()
    d = {"symbol": el.symbol.upper(), "z": el.atomic_number, "charge": case["charge"], "style": case["style"], "unit": case["unit"],
         "filmem": "pju#%s%d" % (el.symbol.lower(), case["charge"]), "levels": levels, "blocks": blocks, "index_order": order,
         "trailer": TRAILER}

    def transition(b):
        if case["style"] == "full":
            return (W.level_name(levels[b["upper"] - 1]), W.level_name(levels[b["lower"] - 1]))
        return (b["upper"], b["lower"])
    expected = [(TYPES[b["type"]], transition(b), b) for b in blocks]
    return d, W.write_adf15(d), expected


def _rel_adf15(case):
    sym = EL[case["el"]].symbol.lower()
    kind = "bnd" if case["mode"] == "Hlike-bnd" else "pju"
    return "adf15/pec96#%s/pec96#%s_%s#%s%d.dat" % (sym, sym, kind, sym, case["charge"])


def _hf(case):
    return {"hf-hydrogen": "hydrogen", "hf-hydrogen-like": "hydrogen-like"}.get(case["mode"])


def _nt_adf15(case):
    return bool(len(case["blocks"]) >= 2 or any(b["nd"] % 8 or b["nt"] % 8 for b in case["blocks"]))


def run_adf15(case, ctx):
    _reset_home()
    el, q = EL[case["el"]], case["charge"]
    d, text, expected = build_adf15(case)
    ctx.label("style:" + case["style"], "mode:" + case["mode"], "blocks:%s" % min(len(case["blocks"]), 4),
              *["type:" + t for t in sorted({b["type"] for b in case["blocks"]})])
    if case.get("excluded_known"):
        ctx.label("excluded_known")
    ctx.nt(_nt_adf15(case))
    rel = _rel_adf15(case)
    with _workspace(rel, text) as (adas, repo, path):
        with ctx.cut("parse_adf15"):
            rates, wavelengths = P.parse_adf15(el, q, path, header_format=_hf(case))
        classes = sorted({c for c, _, _ in expected})
        ctx.check(sorted(rates.keys()) == classes, "parse/classes",
                  lambda: "rate classes %r, the file has %r" % (sorted(rates.keys()), classes))
        for c in classes:
            trs = sorted(repr(t) for cc, t, _ in expected if cc == c)
            ctx.check(list(rates[c].keys()) == [el] and list(rates[c][el].keys()) == [q], "parse/species-key",
                      lambda: "class %s is keyed by %r / %r" % (c, list(rates[c].keys()), [list(v.keys()) for v in rates[c].values()]))
            gt = sorted(repr(t) for t in rates[c][el][q].keys())
            ctx.check(gt == trs, "parse/transitions", lambda: "class %s holds transitions %s, the index lists %s" % (c, gt[:6], trs[:6]))
        for c, t, b in expected:
            g = rates[c][el][q][t]
            info = "(%s %r, ISEL %d, %d densities x %d temperatures)" % (b["type"], t, b["isel"], len(b["dens"]), len(b["temp"]))
            _eq(ctx, _item(ctx, g, "ne", "parse/ne"), _vals(b["dens"]) * 1e6, "parse/ne", info)
            _eq(ctx, _item(ctx, g, "te", "parse/te"), _vals(b["temp"]), "parse/te", info)
            _eq(ctx, _item(ctx, g, "rate", "parse/rate"), _vals(b["table"]) * 1e-6, "parse/rate", info)
        want_wl = {t: (b["wl"] / 10.0) / 10.0 for _, t, b in expected}            # tenths of Angstrom -> Angstrom -> nm
        ctx.check(list(wavelengths.keys()) == [el] and list(wavelengths[el].keys()) == [q], "parse/wavelength-key",
                  lambda: "wavelengths keyed by %r" % (list(wavelengths.keys()),))
        gw = wavelengths[el][q]
        ctx.check(sorted(repr(t) for t in gw.keys()) == sorted(repr(t) for t in want_wl), "parse/wavelength-transitions",
                  lambda: "wavelength transitions %r, index lists %r" % (sorted(map(repr, gw.keys()))[:6], sorted(map(repr, want_wl))[:6]))
        for t, w in want_wl.items():
            _eq(ctx, _item(ctx, gw, t, "parse/wavelength"), w, "parse/wavelength", "(%r)" % (t,))
        if not case["install"]:
            return
        # ---- install -> repository
        with ctx.cut("install_adf15"):
            _quiet(I.install_adf15, el, q, rel, download=False, repository_path=repo, adas_path=adas, header_format=_hf(case))
        _no_stray(ctx, "install_adf15")
        for c, t, b in expected:
            info = "(%s %r)" % (b["type"], t)
            with ctx.cut("get/pec-" + c):
                if c == "excitation":
                    g = R.get_pec_excitation_rate(el, q, t, repo)
                elif c == "recombination":
                    g = R.get_pec_recombination_rate(el, q, t, repo)
                else:
                    g = R.get_pec_thermal_cx_rate(E.hydrogen, 0, el, q + 1, t, repo)
            _eq(ctx, _item(ctx, g, "ne", "repo/ne"), _vals(b["dens"]) * 1e6, "repo/ne", info)
            _eq(ctx, _item(ctx, g, "te", "repo/te"), _vals(b["temp"]), "repo/te", info)
            tab = _vals(b["table"]) * 1e-6
            if c == "thermalcx":      # documented: donor H0, Tdon = Trec -> the table is repeated along a 2-point donor-temperature axis
                g3, td = np.asarray(_item(ctx, g, "rate", "repo/rate")), np.asarray(_item(ctx, g, "td", "repo/td"))
                ctx.check(g3.ndim == 3 and td.ndim == 1 and td.size >= 1 and g3.shape[2] == td.size, "repo/rate",
                          lambda: "thermal CX PEC has shape %r with donor temperatures of shape %r" % (g3.shape, td.shape))
                for k in range(g3.shape[2]):
                    _eq(ctx, g3[:, :, k], tab, "repo/rate", info + " donor temperature index %d" % k)
            else:
                _eq(ctx, _item(ctx, g, "rate", "repo/rate"), tab, "repo/rate", info)
            with ctx.cut("get/wavelength"):
                w = R.get_wavelength(el, q, t, repo)
            _eq(ctx, w, want_wl[t], "repo/wavelength", info)
        # a transition the file does not hold
        have = {(c, t) for c, t, _ in expected}
        t0 = expected[0][1]
        other = (t0[0], t0[0]) if case["style"] == "full" else (t0[0] + 20, t0[1])
        if ("excitation", other) not in have:
            _absent(ctx, "repo/absent-transition", R.get_pec_excitation_rate, el, q, other, repo)
        for c, fn in (("excitation", R.get_pec_excitation_rate), ("recombination", R.get_pec_recombination_rate)):
            for cc, t, _ in expected:
                if cc != c and (c, t) not in have:
                    _absent(ctx, "repo/absent-class", fn, el, q, t, repo)
                    break


# ============================================================================================== ADF12
@st.composite
def adf12_cases(draw):
    rec = draw(st.sampled_from(NAMES[:11]))
    z = EL[rec].atomic_number
    pairs = draw(st.lists(st.tuples(st.integers(1, 12), st.integers(1, 5)).map(lambda t: (t[0] + t[1], t[0])),
                          min_size=1, max_size=6, unique=True))
    blocks = [{"up": u, "lo": lo, "n": [draw(st.integers(1, 24)), draw(st.integers(1, 12)), draw(st.integers(1, 24)),
                                        draw(st.integers(1, 12)), draw(st.integers(1, 12))]} for u, lo in pairs]
    return {"donor": draw(st.sampled_from(["hydrogen", "helium"])), "meta": draw(st.integers(1, 3)), "rec": rec,
            "zr": draw(st.one_of(st.just(z), st.integers(1, z))), "blocks": blocks, "letter": draw(st.sampled_from(["D", "E"])),
            "seed": draw(_seed)}


def build_adf12(case):
    s = W.Stream(case["seed"], 12)
    L = case["letter"]
    ranges = {"ENER": (2, 6), "TIEV": (0, 4), "DENSI": (10, 15), "ZEFF": (0, 1), "BMAG": (-1, 1)}
    blocks = []
    for c in case["blocks"]:
        b = {"upper": c["up"], "lower": c["lo"], "qefref": W.efmt(s.between(100, 999), s.between(-14, -7), 2, 10, L)}
        b["ref"] = [W.efmt(s.between(100, 999), s.between(*ranges[k]), 2, 10, L) for k in ("ENER", "TIEV", "DENSI", "ZEFF", "BMAG")]
        for k, n in zip(("ENER", "TIEV", "DENSI", "ZEFF", "BMAG"), c["n"]):
            b[k] = [W.efmt(m, e, 2, 10, L) for m, e in _grid_e(s, n, ranges[k][0], ranges[k][1], 2)]
            b["Q" + k] = [W.efmt(s.between(100, 999), s.between(-16, -7), 2, 10, L) for _ in range(n)]
        blocks.append(b)
    d = {"receiver": EL[case["rec"]].symbol.upper(), "zr": case["zr"], "donor": EL[case["donor"]].symbol.upper(), "meta": case["meta"],
         "zero": W.efmt(0, 0, 2, 10, L), "blocks": blocks, "trailer": TRAILER}
    return d, W.write_adf12(d)


ADF12_KEYS = (("eb", "ENER", 1.0), ("ti", "TIEV", 1.0), ("ni", "DENSI", 1e6), ("z", "ZEFF", 1.0), ("b", "BMAG", 1.0),
              ("qeb", "QENER", 1e-6), ("qti", "QTIEV", 1e-6), ("qni", "QDENSI", 1e-6), ("qz", "QZEFF", 1e-6), ("qb", "QBMAG", 1e-6))


def run_adf12(case, ctx):
    _reset_home()
    don, rec, zr, meta = EL[case["donor"]], EL[case["rec"]], case["zr"], case["meta"]
    d, text = build_adf12(case)
    ctx.label("blocks:%s" % min(len(case["blocks"]), 4), "letter:" + case["letter"])
    ctx.nt(len(case["blocks"]) >= 2 or any(n % 6 for c in case["blocks"] for n in c["n"]))
    rel = "adf12/qef93#%s/qef93#%s_%s%d.dat" % (don.symbol.lower(), don.symbol.lower(), rec.symbol.lower(), zr)
    with _workspace(rel, text) as (adas, repo, path):
        with ctx.cut("parse_adf12"):
            got = P.parse_adf12(don, meta, rec, zr, path)
        ctx.check(list(got.keys()) == [don] and list(got[don].keys()) == [rec] and list(got[don][rec].keys()) == [zr],
                  "parse/species-key", lambda: "keys %r" % (list(got.keys()),))
        trs = sorted((b["upper"], b["lower"]) for b in d["blocks"])
        ctx.check(sorted(got[don][rec][zr].keys()) == trs, "parse/transitions",
                  lambda: "transitions %r, the file has %r" % (sorted(got[don][rec][zr].keys()), trs))
        for b in d["blocks"]:
            t = (b["upper"], b["lower"])
            ctx.check(list(got[don][rec][zr][t].keys()) == [meta], "parse/metastable-key",
                      lambda: "metastable keys %r" % (list(got[don][rec][zr][t].keys()),))
            g = got[don][rec][zr][t][meta]
            info = "(n=%d-%d)" % t
            for key, name, f in ADF12_KEYS:
                _eq(ctx, _item(ctx, g, key, "parse/" + key), _vals(b[name]) * f, "parse/" + key, info)
            ref = _vals(b["ref"])
            for key, w in (("ebref", ref[0]), ("tiref", ref[1]), ("niref", ref[2] * 1e6), ("zref", ref[3]), ("bref", ref[4]),
                           ("qref", W.value(b["qefref"]) * 1e-6)):
                _eq(ctx, _item(ctx, g, key, "parse/" + key), w, "parse/" + key, info)
        with ctx.cut("install_adf12"):
            _quiet(I.install_adf12, don, meta, rec, zr, rel, download=False, repository_path=repo, adas_path=adas)
        _no_stray(ctx, "install_adf12")
        for b in d["blocks"]:
            t = (b["upper"], b["lower"])
            with ctx.cut("get/beam_cx"):
                lst = R.get_beam_cx_rates(don, rec, zr, t, repo)
            ctx.check([m for m, _ in lst] == [meta], "repo/metastables", lambda: "metastables %r, installed %r" % ([m for m, _ in lst], [meta]))
            g = lst[0][1]
            for key, name, f in ADF12_KEYS:
                _eq(ctx, _item(ctx, g, key, "repo/" + key), _vals(b[name]) * f, "repo/" + key, "(n=%d-%d)" % t)
            _eq(ctx, _item(ctx, g, "qref", "repo/qref"), W.value(b["qefref"]) * 1e-6, "repo/qref", "(n=%d-%d)" % t)
        if (40, 39) not in trs:
            _absent(ctx, "repo/absent-transition", R.get_beam_cx_rates, don, rec, zr, (40, 39), repo)


# ============================================================================================== ADF21 / ADF22
@st.composite
def adf2x_cases(draw):
    tgt = draw(st.sampled_from(NAMES[:11]))
    z = EL[tgt].atomic_number
    return {"kind": draw(st.sampled_from(["adf21", "bmp", "bme"])), "beam": draw(st.sampled_from(["hydrogen", "helium"])),
            "meta": draw(st.integers(1, 4)), "tgt": tgt, "zt": draw(st.one_of(st.just(z), st.integers(1, z))),
            "tr": draw(st.sampled_from([[3, 2], [4, 2], [2, 1], [5, 3]])), "neb": draw(_size), "ndt": draw(_size), "ntt": draw(_size),
            "seed": draw(_seed)}


def build_adf2x(case):
    s = W.Stream(case["seed"], 21)
    coef = (-12, -6) if case["kind"] != "bmp" else (-6, -1)

    def tok(m, e):
        return W.efmt(m, e, 3, 10)
    d = {"zt": case["zt"], "spec": EL[case["tgt"]].symbol.upper(), "date": "18/09/97", "code": "ADAS310",
         "svref": tok(s.between(1000, 9999), s.between(*coef))[1:], "tref": tok(s.between(1000, 9999), s.between(0, 4))[1:],
         "eref": tok(s.between(1000, 9999), s.between(3, 5))[1:], "dref": tok(s.between(1000, 9999), s.between(11, 14))[1:],
         "eb": [tok(m, e) for m, e in _grid_e(s, case["neb"], 2, 6, 3)],
         "dt": [tok(m, e) for m, e in _grid_e(s, case["ndt"], 10, 15, 3)],
         "tt": [tok(m, e) for m, e in _grid_e(s, case["ntt"], 0, 4, 3)], "trailer": TRAILER}
    d["sv"] = [[tok(s.between(1000, 9999), s.between(*coef)) for _ in range(case["neb"])] for _ in range(case["ndt"])]
    d["svt"] = [tok(s.between(1000, 9999), s.between(*coef)) for _ in range(case["ntt"])]
    return d, W.write_adf2x(d)


def run_adf2x(case, ctx):
    _reset_home()
    kind = case["kind"]
    beam, tgt, zt, meta, tr = EL[case["beam"]], EL[case["tgt"]], case["zt"], case["meta"], tuple(case["tr"])
    d, text = build_adf2x(case)
    ctx.label(kind)
    ctx.nt(bool(case["neb"] % 8 or case["ndt"] % 8 or case["ntt"] % 8))
    norm = 1.0 if kind == "bmp" else 1e-6       # population coefficients are dimensionless, the other two are cm^3/s
    want = {"e": _vals(d["eb"]), "n": _vals(d["dt"]) * 1e6, "t": _vals(d["tt"]), "sen": _vals(d["sv"]).T * norm,
            "st": _vals(d["svt"]) * norm, "eref": W.value(d["eref"]), "nref": W.value(d["dref"]) * 1e6, "tref": W.value(d["tref"]),
            "sref": W.value(d["svref"]) * norm}
    sym = (beam.symbol.lower(), tgt.symbol.lower(), zt)
    rel = {"adf21": "adf21/bms97#%s/bms97#%s_%s%d.dat" % (sym[0], sym[0], sym[1], sym[2]),
           "bmp": "adf22/bmp97#%s/bmp97#%s_%d_%s%d.dat" % (sym[0], sym[0], meta, sym[1], sym[2]),
           "bme": "adf22/bme10#%s/bme10#%s_%s%d.dat" % (sym[0], sym[0], sym[1], sym[2])}[kind]
    with _workspace(rel, text) as (adas, repo, path):
        with ctx.cut("parse_" + kind):
            if kind == "adf21":
                got = P.parse_adf21(beam, tgt, zt, path)
                ok = list(got.keys()) == [beam] and list(got[beam].keys()) == [tgt] and list(got[beam][tgt].keys()) == [zt]
                g = got[beam][tgt][zt] if ok else None
            elif kind == "bmp":
                got = P.parse_adf22bmp(beam, meta, tgt, zt, path)
                ok = list(got.keys()) == [beam] and list(got[beam].keys()) == [meta] and list(got[beam][meta].keys()) == [tgt] \
                    and list(got[beam][meta][tgt].keys()) == [zt]
                g = got[beam][meta][tgt][zt] if ok else None
            else:
                got = P.parse_adf22bme(beam, tgt, zt, tr, path)
                ok = list(got.keys()) == [beam] and list(got[beam].keys()) == [tgt] and list(got[beam][tgt].keys()) == [zt] \
                    and list(got[beam][tgt][zt].keys()) == [tr]
                g = got[beam][tgt][zt][tr] if ok else None
        ctx.check(ok, "parse/keys", lambda: "unexpected key structure %r" % (got,))
        info = "(%d energies x %d densities, %d temperatures)" % (case["neb"], case["ndt"], case["ntt"])
        for k, w in want.items():
            _eq(ctx, _item(ctx, g, k, "parse/" + k), w, "parse/" + k, info)
        with ctx.cut("install_" + kind):
            if kind == "adf21":
                _quiet(I.install_adf21, beam, tgt, zt, rel, download=False, repository_path=repo, adas_path=adas)
            elif kind == "bmp":
                _quiet(I.install_adf22bmp, beam, meta, tgt, zt, rel, download=False, repository_path=repo, adas_path=adas)
            else:
                _quiet(I.install_adf22bme, beam, tgt, zt, tr, rel, download=False, repository_path=repo, adas_path=adas)
        _no_stray(ctx, "install_" + kind)
        with ctx.cut("get/" + kind):
            if kind == "adf21":
                g = R.get_beam_stopping_rate(beam, tgt, zt, repo)
            elif kind == "bmp":
                g = R.get_beam_population_rate(beam, meta, tgt, zt, repo)
            else:
                g = R.get_beam_emission_rate(beam, tgt, zt, tr, repo)
        for k, w in want.items():
            _eq(ctx, _item(ctx, g, k, "repo/" + k), w, "repo/" + k, info)
        if zt + 1 <= tgt.atomic_number:
            if kind == "adf21":
                _absent(ctx, "repo/absent-charge", R.get_beam_stopping_rate, beam, tgt, zt + 1, repo)
            elif kind == "bmp":
                _absent(ctx, "repo/absent-charge", R.get_beam_population_rate, beam, meta, tgt, zt + 1, repo)
            else:
                _absent(ctx, "repo/absent-charge", R.get_beam_emission_rate, beam, tgt, zt + 1, tr, repo)


# ============================================================================================== negative cases
HEADER_KINDS = ("adf15-header", "adf2x-header", "adf12-header")
_Z = {n: EL[n].atomic_number for n in NAMES}


def _adf11_mismatch(draw):
    f = draw(adf11_cases())
    how = draw(st.sampled_from(["other", "name", "z"]))
    others = [n for n in NAMES if n != f["el"]]
    return {"kind": "adf11-element", "file": f, "how": how, "other": draw(st.sampled_from(others))}


@st.composite
def negative_cases(draw):
    kind = draw(st.sampled_from(["adf11-element", "adf11-element", "adf15-absent", "adf15-absent"] + list(HEADER_KINDS)))
    if kind in HEADER_KINDS and EXCLUDE_HEADER:
        case = _adf11_mismatch(draw)             # class excluded while C08-header-unchecked is open
        case["excluded_known"] = True
        return case
    if kind == "adf11-element":
        return _adf11_mismatch(draw)
    if kind == "adf15-absent":
        return {"kind": kind, "file": draw(adf15_cases(absent=True))}
    how = draw(st.sampled_from(["element", "charge"]))
    if kind == "adf15-header":
        # the file is self-consistent; it is requested under another element or another charge.  Modes are limited to those
        # where the request does not switch the parser to another comment-index style (which would fail for an unrelated reason)
        f = draw(adf15_cases(modes=["full", "hf-hydrogen", "hf-hydrogen-like"]))
        full = f["mode"] == "full"
        charges = [c for c in range(0, _Z[f["el"]] - (1 if full else 0)) if c != f["charge"]]
        others = [n for n in NAMES[1:] if n != f["el"] and _Z[n] - f["charge"] >= (2 if full else 1)]
    elif kind == "adf2x-header":
        f = draw(adf2x_cases())
        charges = [c for c in range(1, _Z[f["tgt"]] + 1) if c != f["zt"]]
        others = [n for n in NAMES[:11] if n != f["tgt"] and _Z[n] >= f["zt"]]
    else:
        f = draw(adf12_cases())
        charges = [c for c in range(1, _Z[f["rec"]] + 1) if c != f["zr"]]
        others = [n for n in NAMES[:11] if n != f["rec"] and _Z[n] >= f["zr"]]
    if how == "charge" and not charges or not others:
        how = "element" if others else "charge"
    case = {"kind": kind, "file": f, "how": how}
    if how == "element":
        case["other"] = draw(st.sampled_from(others))
    else:
        case["charge"] = draw(st.sampled_from(charges))
    return case


def _must_reject(ctx, what, repo, parse, install):
    ctx.raises((Exception,), what + "/parse", parse)
    ctx.raises((Exception,), what + "/install", _quiet, install)
    _no_stray(ctx, what + "/install")
    ctx.check(_files(repo) == [], what + "/install", lambda: "rejected file left %r in the repository" % (_files(repo)[:4],))


def run_negative(case, ctx):
    _reset_home()
    kind, f = case["kind"], case["file"]
    ctx.label(kind)
    if case.get("excluded_known"):
        ctx.label("excluded_known")
    if kind == "adf11-element":
        ctx.label("how:" + case["how"])
        ctx.nt(_nt_adf11(f))
        el, other = EL[f["el"]], EL[case["other"]]
        if case["how"] == "other":          # a consistent file of `el`, requested as `other`
            (_, text), req = build_adf11(f), other
        elif case["how"] == "name":         # header: Z of `el`, name of `other`; requested as `el`
            (_, text), req = build_adf11(f, name=other.name), el
        else:                               # header: name of `el`, Z of `other`; requested as `el`
            (_, text), req = build_adf11(f, z=other.atomic_number), el
        rel = ADF11[f["cls"]][3] % req.symbol.lower()
        with _workspace(rel, text) as (adas, repo, path):
            _must_reject(ctx, "adf11-mismatch", repo, lambda: P.parse_adf11(req, path), lambda: _install_adf11(f, req, rel, adas, repo))
    elif kind == "adf15-absent":
        ctx.nt(_nt_adf15(f))
        ctx.label("style:" + f["style"])
        el, q = EL[f["el"]], f["charge"]
        _, text, _ = build_adf15(f)
        rel = _rel_adf15(f)
        with _workspace(rel, text) as (adas, repo, path):
            _must_reject(ctx, "adf15-absent-block", repo, lambda: P.parse_adf15(el, q, path, header_format=_hf(f)),
                         lambda: I.install_adf15(el, q, rel, download=False, repository_path=repo, adas_path=adas, header_format=_hf(f)))
    elif kind == "adf15-header":            # header '/C + 1 PHOTON EMISSIVITY COEFFICIENTS/' requested as another element / charge
        ctx.nt(_nt_adf15(f))
        ctx.label("how:" + case["how"])
        el = EL[case["other"]] if case["how"] == "element" else EL[f["el"]]
        q = case["charge"] if case["how"] == "charge" else f["charge"]
        _, text, _ = build_adf15(f)
        rel = _rel_adf15(f)
        with _workspace(rel, text) as (adas, repo, path):
            _must_reject(ctx, "adf15-header", repo, lambda: P.parse_adf15(el, q, path, header_format=_hf(f)),
                         lambda: I.install_adf15(el, q, rel, download=False, repository_path=repo, adas_path=adas, header_format=_hf(f)))
    elif kind == "adf2x-header":            # header 'ZT= 6 ... SPEC=C' requested as another target element / charge
        ctx.nt(bool(f["neb"] % 8 or f["ndt"] % 8 or f["ntt"] % 8))
        ctx.label("how:" + case["how"], f["kind"])
        beam, meta, tr = EL[f["beam"]], f["meta"], tuple(f["tr"])
        tgt = EL[case["other"]] if case["how"] == "element" else EL[f["tgt"]]
        zt = case["charge"] if case["how"] == "charge" else f["zt"]
        _, text = build_adf2x(f)
        rel = "adf2x/file.dat"
        kw = {"download": False}
        with _workspace(rel, text) as (adas, repo, path):
            kw.update(repository_path=repo, adas_path=adas)
            if f["kind"] == "adf21":
                _must_reject(ctx, "adf21-header", repo, lambda: P.parse_adf21(beam, tgt, zt, path), lambda: I.install_adf21(beam, tgt, zt, rel, **kw))
            elif f["kind"] == "bmp":
                _must_reject(ctx, "adf22bmp-header", repo, lambda: P.parse_adf22bmp(beam, meta, tgt, zt, path),
                             lambda: I.install_adf22bmp(beam, meta, tgt, zt, rel, **kw))
            else:
                _must_reject(ctx, "adf22bme-header", repo, lambda: P.parse_adf22bme(beam, tgt, zt, tr, path),
                             lambda: I.install_adf22bme(beam, tgt, zt, tr, rel, **kw))
    else:                                   # adf12 block header ' C + 6  H + 0 (1)' requested as another receiver element / charge
        ctx.nt(len(f["blocks"]) >= 2 or any(n % 6 for c in f["blocks"] for n in c["n"]))
        ctx.label("how:" + case["how"])
        don, meta = EL[f["donor"]], f["meta"]
        rec = EL[case["other"]] if case["how"] == "element" else EL[f["rec"]]
        zr = case["charge"] if case["how"] == "charge" else f["zr"]
        _, text = build_adf12(f)
        rel = "adf12/file.dat"
        with _workspace(rel, text) as (adas, repo, path):
            _must_reject(ctx, "adf12-header", repo, lambda: P.parse_adf12(don, meta, rec, zr, path),
                         lambda: I.install_adf12(don, meta, rec, zr, rel, download=False, repository_path=repo, adas_path=adas))


SUBCHECKS = {
    "adf11": Given(adf11_cases, run_adf11, quick=320, thorough=16000),
    "adf15": Given(adf15_cases, run_adf15, quick=240, thorough=12000),
    "adf12": Given(adf12_cases, run_adf12, quick=80, thorough=4000),
    "adf2x": Given(adf2x_cases, run_adf2x, quick=100, thorough=6000),
    "negative": Given(negative_cases, run_negative, quick=60, thorough=2000),
}
